//! vmh - runs generated or explicit cases on the real vm-memory crate (path dependency on
//! /repo) and prints one trace line per case:  <suite> tok* => tok*
//!
//!   vmh gen <suite> <quick|thorough> <seed>     generate + execute
//!   vmh replay <suite>                          execute the case lines read from stdin
//!   vmh list
#![allow(clippy::all)]
pub mod fdscript;
pub mod rng;
pub mod tok;
pub mod util;
use std::io::{BufRead, Write};
pub use rng::Rng;
pub use tok::Tok;

#[derive(Clone, Copy, PartialEq, Eq, Debug)]
pub enum Tier {
    Quick,
    Thorough,
}

#[derive(Clone, Copy)]
pub struct Suite {
    pub name: &'static str,
    /// generate cases; call `emit` for each one
    pub gen: fn(&mut Rng, Tier, &mut dyn FnMut(Vec<Tok>)),
    /// run one case on the real library and return the observation
    pub exec: fn(&[Tok]) -> Vec<Tok>,
}

mod suites {
    include!(concat!(env!("OUT_DIR"), "/suites.rs"));
}

/// 0 = built with overflow checks / debug assertions (model mode Debug), 1 = without (Release)
pub fn build_mode() -> u64 {
    if cfg!(debug_assertions) {
        0
    } else {
        1
    }
}

fn main() {
    // panics inside cases are observations, not noise on stderr
    std::panic::set_hook(Box::new(|_| {}));
    let args: Vec<String> = std::env::args().collect();
    let table = suites::table();
    let find = |n: &str| -> Suite {
        table
            .iter()
            .find(|(k, _)| *k == n)
            .unwrap_or_else(|| {
                eprintln!("unknown suite {}", n);
                std::process::exit(2)
            })
            .1
    };
    let announce = std::env::var("VMH_ANNOUNCE").is_ok();
    let flush = std::env::var("VMH_FLUSH").is_ok();
    let stdout = std::io::stdout();
    let mut out = std::io::BufWriter::with_capacity(1 << 20, stdout.lock());
    match args.get(1).map(|s| s.as_str()) {
        Some("list") => {
            for (n, _) in &table {
                writeln!(out, "{}", n).unwrap();
            }
        }
        Some("gen") => {
            let s = find(&args[2]);
            let tier = if args.get(3).map(|s| s.as_str()) == Some("thorough") { Tier::Thorough } else { Tier::Quick };
            let seed: u64 = args.get(4).and_then(|s| s.parse().ok()).unwrap_or(1);
            let mut rng = Rng::new(seed ^ util::fnv(s.name));
            let mut emit = |case: Vec<Tok>| {
                if announce {
                    writeln!(out, "#CASE {}", tok::join(&case)).unwrap();
                    out.flush().unwrap();
                }
                let obs = (s.exec)(&case);
                writeln!(out, "{} {} => {}", s.name, tok::join(&case), tok::join(&obs)).unwrap();
                if flush {
                    out.flush().unwrap();
                }
            };
            (s.gen)(&mut rng, tier, &mut emit);
        }
        Some("replay") => {
            let s = find(&args[2]);
            let stdin = std::io::stdin();
            for line in stdin.lock().lines() {
                let line = line.unwrap();
                let line = line.trim();
                if line.is_empty() || line.starts_with('#') {
                    continue;
                }
                // accept full trace lines too: drop the suite name and everything from "=>"
                let mut words: Vec<&str> = line.split_whitespace().collect();
                if words.first() == Some(&s.name) {
                    words.remove(0);
                }
                if let Some(p) = words.iter().position(|w| *w == "=>") {
                    words.truncate(p);
                }
                let case: Vec<Tok> = words.iter().map(|w| tok::parse(w)).collect();
                if announce {
                    writeln!(out, "#CASE {}", tok::join(&case)).unwrap();
                    out.flush().unwrap();
                }
                // a case the suite cannot even decode (shrinking / neighbourhood search produce
                // those) is reported as such, never as an observation
                let obs = match util::catch(|| (s.exec)(&case)) {
                    Some(o) => o,
                    None => vec![Tok::N(0xbad0bad)],
                };
                writeln!(out, "{} {} => {}", s.name, tok::join(&case), tok::join(&obs)).unwrap();
                if flush {
                    out.flush().unwrap();
                }
            }
        }
        _ => {
            eprintln!("usage: vmh gen <suite> <quick|thorough> <seed> | vmh replay <suite> | vmh list");
            std::process::exit(2);
        }
    }
    out.flush().unwrap();
}
