//! Deterministic fault injection for descriptor I/O, WITHOUT touching the crate under test.
//!
//! The harness executable defines its own `read` and `write` symbols.  A definition in the executable takes
//! precedence over libc.so's for every call site that is linked into the binary - `libc::read` / `libc::write`
//! in vm-memory (src/io.rs `read_volatile_raw_fd` / `write_volatile_raw_fd`), in std (`File::read`,
//! `File::write`, the provided `read_exact` / `write_all` loops on top of them) and in the harness itself.
//! (std's `UnixStream` uses recv/send, which are NOT interposed: twins of scripted descriptors are
//! `std::fs::File`s wrapping the descriptor.)
//!
//! One descriptor at a time can be ARMED with a script: a list of per-call behaviours.  Every call on the
//! armed descriptor consumes one behaviour:
//!   Full      the real system call with the caller's count
//!   Short(k)  the real system call with the count clamped to k (data really moves)
//!   Zero      returns 0, no system call
//!   Eintr     errno = EINTR, returns -1, no system call
//!   Err(e)    errno = e, returns -1, no system call
//! When the script is exhausted (or the descriptor is not the armed one) the real system call is made
//! through `syscall(SYS_read / SYS_write, ...)`.  The number of calls the armed descriptor received is
//! counted.  The fast path (nothing armed) is one relaxed atomic load, so suites that never arm anything -
//! including the multi-threaded ones - are unaffected.
//!
//! Crash containment: a transfer that never ends (e.g. a retry loop that keeps seeing a stale EINTR) would hang the
//! run.  An armed descriptor that receives more than CALL_LIMIT calls in one arming ends the process with exit code
//! 97 (deterministic, no timing); `watched` additionally ends it (code 98) when one case takes longer than 10 s.  The
//! runner treats a dead harness as a failing case and names it (lib/runner.py, VMH_ANNOUNCE).
use std::sync::atomic::{AtomicI32, AtomicU64, Ordering};
use std::sync::Mutex;

#[derive(Clone, Copy, PartialEq, Eq, Debug)]
pub enum Beh {
    Full,
    Short(usize),
    Zero,
    Eintr,
    Err(i32),
}

/// wire encoding shared by the suites: 0 Full 1 Zero 2 Eintr 3.. hard errors (rotating errno) 16+k Short k
pub const HARD_ERRNOS: [i32; 6] = [libc::EIO, libc::EAGAIN, libc::EBADF, libc::ENOSPC, libc::EPIPE, libc::ECONNRESET];
pub fn beh_of(x: u128) -> Beh {
    match x {
        0 => Beh::Full,
        1 => Beh::Zero,
        2 => Beh::Eintr,
        3..=8 => Beh::Err(HARD_ERRNOS[(x - 3) as usize]),
        k if k >= 16 && k < 16 + (1 << 26) => Beh::Short((k - 16) as usize),
        _ => panic!("bad descriptor behaviour"),
    }
}

static ARMED_FD: AtomicI32 = AtomicI32::new(-1);
static CALLS: AtomicU64 = AtomicU64::new(0);
static SCRIPT: Mutex<Vec<Beh>> = Mutex::new(Vec::new());

/// attach `script` to `fd`; replaces whatever was armed before
pub fn arm(fd: i32, script: &[Beh]) {
    let mut s = SCRIPT.lock().unwrap_or_else(|e| e.into_inner());
    s.clear();
    // stored reversed: the next behaviour is popped from the end
    s.extend(script.iter().rev().copied());
    CALLS.store(0, Ordering::SeqCst);
    ARMED_FD.store(fd, Ordering::SeqCst);
}

/// detach; returns (calls the armed descriptor received, behaviours left unconsumed)
pub fn disarm() -> (u64, usize) {
    ARMED_FD.store(-1, Ordering::SeqCst);
    let mut s = SCRIPT.lock().unwrap_or_else(|e| e.into_inner());
    let left = s.len();
    s.clear();
    (CALLS.swap(0, Ordering::SeqCst), left)
}

/// runs `f` with `fd` armed; always disarms (also when `f` panics)
pub fn with_script<T>(fd: i32, script: &[Beh], f: impl FnOnce() -> T) -> (Option<T>, u64) {
    arm(fd, script);
    let r = crate::util::catch(f);
    let (calls, _) = disarm();
    (r, calls)
}

pub const CALL_LIMIT: u64 = 100_000;

static CASE_STARTED_MS: AtomicU64 = AtomicU64::new(0);
/// runs one case under a wall-clock watchdog (a hang must not stall the whole check)
pub fn watched<T>(f: impl FnOnce() -> T) -> T {
    static WD: std::sync::Once = std::sync::Once::new();
    static T0: std::sync::OnceLock<std::time::Instant> = std::sync::OnceLock::new();
    let t0 = *T0.get_or_init(std::time::Instant::now);
    WD.call_once(|| {
        std::thread::spawn(move || loop {
            std::thread::sleep(std::time::Duration::from_millis(200));
            let a = CASE_STARTED_MS.load(Ordering::SeqCst);
            if a != 0 && t0.elapsed().as_millis() as u64 + 1 > a + 10_000 {
                eprintln!("fdscript watchdog: case did not return within 10 s");
                std::process::exit(98);
            }
        });
    });
    struct Reset;
    impl Drop for Reset {
        fn drop(&mut self) {
            CASE_STARTED_MS.store(0, Ordering::SeqCst);
        }
    }
    CASE_STARTED_MS.store(t0.elapsed().as_millis() as u64 + 1, Ordering::SeqCst);
    let _reset = Reset; // also when the case panics (a malformed replay case)
    f()
}

fn next_beh(fd: i32) -> Option<Beh> {
    if ARMED_FD.load(Ordering::Relaxed) != fd {
        return None;
    }
    if CALLS.fetch_add(1, Ordering::SeqCst) >= CALL_LIMIT {
        // write(2) directly: this is inside the interposed read / write
        let msg = b"fdscript: the scripted descriptor received more than 100000 calls in one operation - the transfer does not end\n";
        unsafe { libc::syscall(libc::SYS_write, 2, msg.as_ptr(), msg.len()) };
        std::process::exit(97);
    }
    let mut s = SCRIPT.lock().unwrap_or_else(|e| e.into_inner());
    s.pop()
}

unsafe fn fail(e: i32) -> isize {
    *libc::__errno_location() = e;
    -1
}

#[no_mangle]
pub unsafe extern "C" fn read(fd: libc::c_int, buf: *mut libc::c_void, count: libc::size_t) -> libc::ssize_t {
    let count = match next_beh(fd) {
        None | Some(Beh::Full) => count,
        Some(Beh::Short(k)) => count.min(k),
        Some(Beh::Zero) => return 0,
        Some(Beh::Eintr) => return fail(libc::EINTR),
        Some(Beh::Err(e)) => return fail(e),
    };
    libc::syscall(libc::SYS_read, fd, buf, count) as libc::ssize_t
}

#[no_mangle]
pub unsafe extern "C" fn write(fd: libc::c_int, buf: *const libc::c_void, count: libc::size_t) -> libc::ssize_t {
    let count = match next_beh(fd) {
        None | Some(Beh::Full) => count,
        Some(Beh::Short(k)) => count.min(k),
        Some(Beh::Zero) => return 0,
        Some(Beh::Eintr) => return fail(libc::EINTR),
        Some(Beh::Err(e)) => return fail(e),
    };
    libc::syscall(libc::SYS_write, fd, buf, count) as libc::ssize_t
}

/// Probe (run once per process by the suites that rely on the interposition): a `File::read_volatile` under an
/// Eintr script must return Err(Interrupted), a std `File::read` under the same script too, and the call
/// counter must have seen them.  Panics when the toolchain did not resolve `read` / `write` to this module.
pub fn self_test() {
    use std::io::{Read, Write};
    use std::os::fd::{AsRawFd, FromRawFd};
    use vm_memory::{ReadVolatile, VolatileSlice, WriteVolatile};
    static DONE: std::sync::Once = std::sync::Once::new();
    DONE.call_once(|| {
        let mut fds = [0i32; 2];
        assert_eq!(unsafe { libc::pipe(fds.as_mut_ptr()) }, 0);
        let mut rd = unsafe { std::fs::File::from_raw_fd(fds[0]) };
        let mut wr = unsafe { std::fs::File::from_raw_fd(fds[1]) };
        let mut data = [7u8, 8, 9, 10];
        // Only "is the call intercepted" is asked of vm-memory (its single write / read must see the scripted EINTR);
        // everything that depends on counts goes through std, which is not under test - so that a defect of the
        // crate shows up in the suites as a failing case, not here.
        // write side: Eintr is seen by vm-memory's single write, a short write really moves 1 byte
        arm(wr.as_raw_fd(), &[Beh::Eintr, Beh::Short(1), Beh::Err(libc::ENOSPC)]);
        let vs = VolatileSlice::from(&mut data[..]);
        let r1 = wr.write_volatile(&vs);
        let r2 = wr.write(&[7, 8, 9, 10]);
        let r3 = wr.write(&[1, 2, 3]);
        let (calls, left) = disarm();
        let ok_w = matches!(&r1, Err(vm_memory::VolatileMemoryError::IOError(e)) if e.kind() == std::io::ErrorKind::Interrupted)
            && matches!(r2, Ok(1))
            && matches!(&r3, Err(e) if e.raw_os_error() == Some(libc::ENOSPC))
            && calls == 3
            && left == 0;
        // read side
        let mut buf = [0u8; 4];
        arm(rd.as_raw_fd(), &[Beh::Eintr, Beh::Eintr, Beh::Full]);
        let mut vs = VolatileSlice::from(&mut buf[..]);
        let q1 = rd.read_volatile(&mut vs);
        let mut b2 = [0u8; 4];
        let q2 = rd.read(&mut b2);
        let q3 = rd.read(&mut b2);
        let (calls_r, _) = disarm();
        let ok_r = matches!(&q1, Err(vm_memory::VolatileMemoryError::IOError(e)) if e.kind() == std::io::ErrorKind::Interrupted)
            && matches!(&q2, Err(e) if e.kind() == std::io::ErrorKind::Interrupted)
            && matches!(q3, Ok(1))
            && b2[0] == 7
            && calls_r == 3;
        if !(ok_w && ok_r) {
            eprintln!("fdscript: read/write interposition is not effective in this build (w={} r={})", ok_w, ok_r);
            std::process::exit(3);
        }
    });
}
