//! Shared helpers for suites.
pub fn fnv(s: &str) -> u64 {
    let mut h: u64 = 0xcbf29ce484222325;
    for b in s.bytes() {
        h ^= b as u64;
        h = h.wrapping_mul(0x100000001b3);
    }
    h
}

/// Boundary-biased 64-bit values: around 0, 2^k, 2^32, 2^63, 2^64 and a pivot `n`.
pub fn boundary_u64(n: u64) -> Vec<u64> {
    let mut v: Vec<u64> = Vec::new();
    for k in 0..=9u64 {
        v.push(k);
        v.push(u64::MAX - k);
        v.push(n.wrapping_add(k));
        v.push(n.wrapping_sub(k));
        v.push((1u64 << 63).wrapping_add(k));
        v.push((1u64 << 63).wrapping_sub(k));
        v.push((1u64 << 32).wrapping_add(k));
        v.push((1u64 << 32).wrapping_sub(k));
        v.push((1u64 << 31).wrapping_add(k));
        v.push((1u64 << 31).wrapping_sub(k));
    }
    for s in [12u32, 16, 20, 30, 47, 48, 62] {
        v.push(1 << s);
        v.push((1 << s) - 1);
        v.push((1 << s) + 1);
    }
    v.sort();
    v.dedup();
    v
}

/// Run `f`, turning a panic into None.
pub fn catch<T>(f: impl FnOnce() -> T) -> Option<T> {
    std::panic::catch_unwind(std::panic::AssertUnwindSafe(f)).ok()
}
