//! C17 (standard build): ptr_guard()/ptr_guard_mut() len / as_ptr for all accessor kinds x element
//! types of 1..16 bytes x counts.
//! case:  mode kind(0 slice,1 ref,2 array) tsize count off mut route     obs: res len ptr
//! route 0: the accessor is derived from a real parent buffer (get_slice / get_ref / get_array_ref);
//! route 1: it is made with the unsafe constructor on a fake base address (the guard is only asked
//! for its length and pointer, nothing is dereferenced) - this reaches counts no buffer can hold.
//! The observation (guard.len(), guard.as_ptr() - parent base) is compared with the byte length
//! the accessor covers as computed from (kind, size_of T, count) by the spec checker.
//! In the standard build this file also provides the empty stand-ins for C17xen / C17xenfind / C17xenchain.
use crate::tok::n;
use crate::{util, Rng, Suite, Tier, Tok};
use vm_memory::{ByteValued, VolatileArrayRef, VolatileMemory, VolatileRef, VolatileSlice};

fn nogen(_: &mut Rng, _: Tier, _: &mut dyn FnMut(Vec<Tok>)) {}
fn noexec(_: &[Tok]) -> Vec<Tok> {
    vec![Tok::N(0xbad0bad)]
}

#[cfg(feature = "xen")]
pub const SUITES: &[Suite] = &[Suite { name: "C17", gen: nogen, exec: noexec }];
#[cfg(not(feature = "xen"))]
pub const SUITES: &[Suite] = &[
    Suite { name: "C17", gen, exec },
    Suite { name: "C17xen", gen: nogen, exec: noexec },
    Suite { name: "C17xenfind", gen: nogen, exec: noexec },
    Suite { name: "C17xenchain", gen: nogen, exec: noexec },
];

const FAKE: usize = 0x10_0000_0000; // fake parent base for route 1 (16-aligned, never dereferenced)

fn guard_of_slice(s: &VolatileSlice, m: bool) -> (usize, usize) {
    if m {
        let g = s.ptr_guard_mut();
        (g.len(), g.as_ptr() as usize)
    } else {
        let g = s.ptr_guard();
        (g.len(), g.as_ptr() as usize)
    }
}
fn guard_of_ref<T: ByteValued>(s: &VolatileRef<T>, m: bool) -> (usize, usize) {
    if m {
        let g = s.ptr_guard_mut();
        (g.len(), g.as_ptr() as usize)
    } else {
        let g = s.ptr_guard();
        (g.len(), g.as_ptr() as usize)
    }
}
fn guard_of_arr<T: ByteValued>(s: &VolatileArrayRef<T>, m: bool) -> (usize, usize) {
    if m {
        let g = s.ptr_guard_mut();
        (g.len(), g.as_ptr() as usize)
    } else {
        let g = s.ptr_guard();
        (g.len(), g.as_ptr() as usize)
    }
}

/// (res, len, ptr - base) for element type [u8; K]
fn run<T: ByteValued>(kind: u64, count: usize, off: usize, m: bool, route: u64) -> Option<(usize, usize)> {
    if route == 1 {
        let p = (FAKE + off) as *mut u8;
        let (l, a) = unsafe {
            match kind {
                0 => guard_of_slice(&VolatileSlice::new(p, count), m),
                1 => guard_of_ref::<T>(&VolatileRef::new(p), m),
                _ => guard_of_arr::<T>(&VolatileArrayRef::new(p, count), m),
            }
        };
        return Some((l, a.wrapping_sub(FAKE)));
    }
    // absurd operands (token perturbation) are rejected before any allocation
    assert!(count <= (1 << 22) && off <= (1 << 22));
    let bytes = match kind {
        0 => count,
        1 => std::mem::size_of::<T>(),
        _ => count * std::mem::size_of::<T>(),
    };
    assert!(off + bytes <= 1 << 22);
    let mut buf = vec![0u8; off + bytes];
    let base = buf.as_mut_ptr() as usize;
    let parent = VolatileSlice::from(&mut buf[..]);
    let (l, a) = match kind {
        0 => guard_of_slice(&parent.get_slice(off, count).ok()?, m),
        1 => guard_of_ref::<T>(&parent.get_ref::<T>(off).ok()?, m),
        _ => guard_of_arr::<T>(&parent.get_array_ref::<T>(off, count).ok()?, m),
    };
    Some((l, a.wrapping_sub(base)))
}

fn exec(case: &[Tok]) -> Vec<Tok> {
    assert!(case.len() == 7);
    let (kind, tsize, count, off, m, route) =
        (case[1].u(), case[2].u(), case[3].u() as usize, case[4].u() as usize, case[5].u() != 0, case[6].u());
    assert!(kind < 3 && route < 2);
    macro_rules! go {
        ($($k:literal),*) => {
            match tsize {
                $($k => util::catch(|| run::<[u8; $k]>(kind, count, off, m, route)),)*
                _ => panic!("bad tsize"),
            }
        };
    }
    let r = go!(1, 2, 3, 4, 5, 6, 7, 8, 9, 10, 11, 12, 13, 14, 15, 16);
    match r {
        None => vec![n(2u8), n(0u8), n(0u8)],
        Some(None) => vec![n(0u8), n(0u8), n(0u8)],
        Some(Some((l, a))) => vec![n(1u8), n(l as u64), n(a as u64)],
    }
}

fn gen(rng: &mut Rng, tier: Tier, emit: &mut dyn FnMut(Vec<Tok>)) {
    let mode = crate::build_mode();
    let mut case = |kind: u64, tsize: u64, count: u64, off: u64, m: bool, route: u64| {
        emit(vec![n(mode), n(kind), n(tsize), n(count), n(off), n(m as u64), n(route)])
    };
    let counts = [0u64, 1, 2, 3, 4, 5, 7, 8, 15, 16, 17, 31, 32, 33, 63, 64, 100, 255, 256, 257, 1000, 4095, 4096, 4097];
    // every kind x element size 1..16 x counts x both guard flavours, derived from a real parent
    for tsize in 1..=16u64 {
        for &count in &counts {
            for &off in &[0u64, 1, 3, 8, 4095] {
                for m in [false, true] {
                    case(2, tsize, count, off, m, 0);
                    if tsize == 1 {
                        case(0, 1, count, off, m, 0);
                    }
                }
            }
        }
        for &off in &[0u64, 1, 2, 5, 8, 4090, 4096] {
            case(1, tsize, 1, off, false, 0);
            case(1, tsize, 1, off, true, 0);
        }
    }
    // unsafe constructors: counts up to and across the point where count * size leaves 64 bits
    for tsize in 1..=16u64 {
        for &count in &[0u64, 1, 1 << 20, 1 << 31, (1 << 32) - 1, 1 << 32, (1 << 32) + 1, 1 << 40, (1 << 59) - 1, 1 << 59, (1 << 60) - 1, 1 << 60,
            u64::MAX / tsize, (u64::MAX / tsize).wrapping_add(1), (1u64 << 63) / tsize, u64::MAX, u64::MAX - 1, 1 << 63] {
            case(2, tsize, count, 0, false, 1);
            case(2, tsize, count, 16, true, 1);
            if tsize == 1 {
                case(0, 1, count, 4, false, 1);
                case(0, 1, count, 0, true, 1);
            }
        }
        case(1, tsize, 1, 0, false, 1);
        case(1, tsize, 1, 24, true, 1);
    }
    let nrand = if tier == Tier::Quick { 3000 } else { 200_000 };
    for _ in 0..nrand {
        let kind = rng.below(3);
        let tsize = if kind == 0 { 1 } else { rng.range(1, 16) };
        let route = rng.below(2);
        let count = if route == 0 { rng.below(5000) } else if rng.bool() { rng.next() >> rng.below(64) } else { rng.below(1 << 20) };
        let off = if route == 0 { rng.below(5000) } else { rng.below(1 << 30) };
        case(kind, tsize, count, off, rng.bool(), route);
    }
}
