//! C06: aligned 1/2/4/8-byte accesses are never torn.
//!
//! Suite C06 - every entry point that funnels into `copy_slice_impl` x total 0..=16 x guest
//! address mod 8 x local address mod 8 x several page-aligned bases.  Hook H1
//! (`vm_memory::verif::{start_trace, take_trace}`) records the primitive accesses the library
//! really issued; they are reported relative to the guest / local addresses of the call:
//!   case: mode ep goff loff total
//!   obs:  st lres dok [kind,w,g,l,side, ...]
//!     ep    = level << 12 | op << 4 | flags   (flags: bit0 guest->local, bit1 local address not
//!             chosen by the harness (by-value objects, Vec), bit2 primitive integer object)
//!     st    0 = Ok and `total` bytes transferred, 1 = error / short count, 2 = panic
//!     lres  = address of the local value mod 8
//!     dok   1 = afterwards destination == source and nothing around it changed (raw pointers)
//!     kind  0 = copy_single (one volatile read + one volatile write of width w), 1 = bulk memcpy
//!     g / l = guest-side / local-side address minus the address named by the caller
//!     side  0 = guest is the destination, 1 = guest is the source, 2 = neither
//! Suite C06atomic - Bytes::store / Bytes::load / get_atomic_ref refuse misaligned addresses:
//!   case: mode ep size goff len        obs: st off rt
//! Suite C06order - the memory ordering a caller asks of Bytes::store / Bytes::load is the one that reaches the atomic,
//!   and each call makes exactly one atomic access.  Observed through third-party AtomicInteger / AtomicAccess
//!   implementations (`SpyA*` over the std atomics) that log the ordering they are called with:
//!   case: mode ep size store_order load_order     obs: st seen_store seen_load nstores nloads
//!   ep 0 VolatileSlice, 1 region, 2 guest memory; order 0 Relaxed 1 Release 2 Acquire 3 AcqRel 4 SeqCst.
//! Suite C06ordstd - the same through the crate's OWN AtomicInteger impls for the std atomics (src/atomic_integer.rs), the
//!   ones every real caller gets: std itself refuses (panics on) an Acquire / AcqRel store and a Release / AcqRel load, so
//!   such a request must end in that panic (ordering forwarded) and every other one must complete:
//!   case: mode ep ty kind order     obs: st     (kind 0 store 1 load; ty 0..9 = u8 u16 u32 u64 i8 i16 i32 i64 usize isize;
//!   st 0 done and the value round-trips, 1 Err, 2 panicked, 3 wrong value)
//! Suite C06sb - store-buffering litmus through Bytes::store / Bytes::load with SeqCst everywhere: thread 0 does x = 1; r0 = y,
//!   thread 1 does y = 1; r1 = x; r0 = r1 = 0 is impossible under sequential consistency (a SeqCst store that was weakened to
//!   Release lets the store buffer reorder them on x86).  Black-box cross-check with a bounded number of rounds:
//!   case: mode level size rounds    obs: forbidden(0/1) ran(1)
//! Suite C06tear (thorough tier only) - two-thread writer/reader tearing detector, black box.
use crate::tok::{n, us};
use crate::{util, Rng, Suite, Tier, Tok};
use std::alloc::{alloc_zeroed, Layout};
use std::io::Cursor;
use std::sync::atomic::{AtomicBool, Ordering};
use vm_memory::verif::{start_trace, take_trace, Access};
use vm_memory::{
    ByteValued, Bytes, GuestAddress, GuestMemory, GuestMemoryMmap, GuestMemoryRegion,
    MemoryRegionAddress, ReadVolatile, VolatileArrayRef, VolatileMemory, VolatileMemoryError,
    VolatileSlice, WriteVolatile,
};

pub const SUITES: &[Suite] = &[
    Suite { name: "C06", gen, exec },
    Suite { name: "C06atomic", gen: gen_atomic, exec: exec_atomic },
    Suite { name: "C06tear", gen: gen_tear, exec: exec_tear },
    Suite { name: "C06order", gen: gen_order, exec: exec_order },
    Suite { name: "C06ordstd", gen: gen_ordstd, exec: exec_ordstd },
    Suite { name: "C06sb", gen: gen_sb, exec: exec_sb },
];

const PAGE: usize = 4096;
const GSIZE: usize = 5 * PAGE;
const GUEST_BASE: u64 = 0x10_0000;
const LSIZE: usize = 256;
const LPAD: usize = 64;
const MARGIN: usize = 32;
const MAXTOTAL: usize = 32;

const F_READ: u64 = 1;
const F_UNCTL: u64 = 2;
const F_INT: u64 = 4;

struct World {
    arena: *mut u8,
    gm: GuestMemoryMmap<()>,
    gm_host: *mut u8,
    local: *mut u8,
}

impl World {
    fn new() -> World {
        // SAFETY: non-zero sizes, power-of-two alignments; the blocks live for the whole process.
        let arena = unsafe { alloc_zeroed(Layout::from_size_align(GSIZE, PAGE).unwrap()) };
        let local = unsafe { alloc_zeroed(Layout::from_size_align(LSIZE, 64).unwrap()) };
        let gm = GuestMemoryMmap::<()>::from_ranges(&[(GuestAddress(GUEST_BASE), GSIZE)]).unwrap();
        let gm_host = gm.get_host_address(GuestAddress(GUEST_BASE)).unwrap();
        assert!(!arena.is_null() && !local.is_null());
        assert_eq!(arena as usize % PAGE, 0);
        assert_eq!(gm_host as usize % PAGE, 0);
        assert_eq!(local as usize % 64, 0);
        World { arena, gm, gm_host, local }
    }
}

thread_local! {
    static WORLD: World = World::new();
}

fn pat(seed: u8, i: usize) -> u8 {
    seed ^ (i as u8).wrapping_mul(37).wrapping_add(11)
}

unsafe fn fill(p: *mut u8, len: usize, seed: u8) {
    for i in 0..len {
        std::ptr::write_volatile(p.add(i), pat(seed, i));
    }
}

unsafe fn snap(p: *const u8, len: usize) -> Vec<u8> {
    (0..len).map(|i| std::ptr::read_volatile(p.add(i))).collect()
}

// ---------------------------------------------------------------------------------------------
// the operations.  Every function returns Some(bytes transferred) or None (error / short).

fn ok_n<E>(r: Result<usize, E>) -> Option<usize> {
    r.ok()
}
fn ok_unit<E>(r: Result<(), E>, total: usize) -> Option<usize> {
    r.ok().map(|_| total)
}

fn wobj_arr<A, C: Bytes<A>, const N: usize>(c: &C, addr: A, src: &[u8]) -> Option<usize>
where
    [u8; N]: ByteValued,
{
    let mut v = [0u8; N];
    v.copy_from_slice(&src[..N]);
    ok_unit(c.write_obj::<[u8; N]>(v, addr), N)
}
fn robj_arr<A, C: Bytes<A>, const N: usize>(c: &C, addr: A, out: &mut Vec<u8>) -> Option<usize>
where
    [u8; N]: ByteValued,
{
    match c.read_obj::<[u8; N]>(addr) {
        Ok(v) => {
            out.extend_from_slice(&v);
            Some(N)
        }
        Err(_) => None,
    }
}

macro_rules! by_len {
    ($f:ident, $total:expr, ($c:expr, $addr:expr, $x:expr), [$($n:literal)*]) => {
        match $total { $( $n => $f::<A, C, $n>($c, $addr, $x), )* _ => panic!("object size not supported") }
    };
}

/// write-direction operations of the `Bytes<A>` trait (local -> guest)
fn bytes_write<A: Copy, C: Bytes<A>>(c: &C, addr: A, op: u64, src: &[u8]) -> Option<usize> {
    let total = src.len();
    match op {
        1 => ok_n(c.write(src, addr)),
        2 => ok_unit(c.write_slice(src, addr), total),
        3 => by_len!(wobj_arr, total, (c, addr, src), [0 1 2 3 4 5 6 7 8 9 10 11 12 13 14 15 16]),
        4 => match total {
            1 => ok_unit(c.write_obj::<u8>(src[0], addr), 1),
            2 => ok_unit(c.write_obj::<u16>(u16::from_le_bytes(src.try_into().unwrap()), addr), 2),
            4 => ok_unit(c.write_obj::<u32>(u32::from_le_bytes(src.try_into().unwrap()), addr), 4),
            8 => ok_unit(c.write_obj::<u64>(u64::from_le_bytes(src.try_into().unwrap()), addr), 8),
            _ => panic!("not an integer size"),
        },
        5 => ok_n(c.read_volatile_from(addr, &mut &src[..], total)),
        6 => ok_unit(c.read_exact_volatile_from(addr, &mut &src[..], total), total),
        7 => ok_n(c.read_volatile_from(addr, &mut Cursor::new(src), total)),
        8 => ok_unit(c.read_exact_volatile_from(addr, &mut Cursor::new(src), total), total),
        _ => panic!("bad op"),
    }
}

/// read-direction operations (guest -> local).  `dst` is the harness-chosen local buffer; the
/// by-value / Vec forms append what they produced to `out` instead.
fn bytes_read<A: Copy, C: Bytes<A>>(
    c: &C,
    addr: A,
    op: u64,
    dst: &mut [u8],
    prefix: usize,
    out: &mut Vec<u8>,
) -> Option<usize> {
    let total = dst.len();
    match op {
        1 => ok_n(c.read(dst, addr)),
        2 => ok_unit(c.read_slice(dst, addr), total),
        3 => by_len!(robj_arr, total, (c, addr, out), [0 1 2 3 4 5 6 7 8 9 10 11 12 13 14 15 16]),
        4 => match total {
            1 => c.read_obj::<u8>(addr).ok().map(|v| out.extend_from_slice(&v.to_le_bytes())),
            2 => c.read_obj::<u16>(addr).ok().map(|v| out.extend_from_slice(&v.to_le_bytes())),
            4 => c.read_obj::<u32>(addr).ok().map(|v| out.extend_from_slice(&v.to_le_bytes())),
            8 => c.read_obj::<u64>(addr).ok().map(|v| out.extend_from_slice(&v.to_le_bytes())),
            _ => panic!("not an integer size"),
        }
        .map(|_| total),
        5 => {
            let mut s: &mut [u8] = dst;
            ok_n(c.write_volatile_to(addr, &mut s, total))
        }
        6 => {
            let mut s: &mut [u8] = dst;
            ok_unit(c.write_all_volatile_to(addr, &mut s, total), total)
        }
        7 => ok_n(c.write_volatile_to(addr, &mut Cursor::new(dst), total)),
        8 => ok_unit(c.write_all_volatile_to(addr, &mut Cursor::new(dst), total), total),
        9 | 10 => {
            let mut v: Vec<u8> = Vec::with_capacity(128);
            v.resize(prefix, 0x5a);
            let r = if op == 9 {
                ok_n(c.write_volatile_to(addr, &mut v, total))
            } else {
                ok_unit(c.write_all_volatile_to(addr, &mut v, total), total)
            };
            out.extend_from_slice(&v[prefix.min(v.len())..]);
            r
        }
        _ => panic!("bad op"),
    }
}

fn vs_write(vs: &VolatileSlice<'_, ()>, op: u64, src: &[u8]) -> Option<usize> {
    let total = src.len();
    match op {
        1 => {
            vs.copy_from::<u8>(src);
            Some(total)
        }
        2 => {
            let a: VolatileArrayRef<'_, u8, ()> = vs.get_array_ref::<u8>(0, total).unwrap();
            a.copy_from(src);
            Some(total)
        }
        11 | 13 => {
            vs.copy_from::<u8>(src);
            Some(src.len().min(vs.len()))
        }
        12 | 14 => {
            let a: VolatileArrayRef<'_, u8, ()> = vs.get_array_ref::<u8>(0, vs.len()).unwrap();
            a.copy_from(src);
            Some(src.len().min(vs.len()))
        }
        3 => {
            let mut s: &[u8] = src;
            ok_n(s.read_volatile(&mut vs.clone()))
        }
        4 => ok_n(Cursor::new(src).read_volatile(&mut vs.clone())),
        6 => {
            let mut s: &[u8] = src;
            ok_unit(s.read_exact_volatile(&mut vs.clone()), total)
        }
        _ => panic!("bad op"),
    }
}

fn vs_read(vs: &VolatileSlice<'_, ()>, op: u64, dst: &mut [u8], prefix: usize, out: &mut Vec<u8>) -> Option<usize> {
    let total = dst.len();
    match op {
        1 => Some(vs.copy_to::<u8>(dst)),
        2 => {
            let a: VolatileArrayRef<'_, u8, ()> = vs.get_array_ref::<u8>(0, total).unwrap();
            Some(a.copy_to(dst))
        }
        11 | 13 => Some(vs.copy_to::<u8>(dst)),
        12 | 14 => {
            let a: VolatileArrayRef<'_, u8, ()> = vs.get_array_ref::<u8>(0, vs.len()).unwrap();
            Some(a.copy_to(dst))
        }
        3 => {
            let mut s: &mut [u8] = dst;
            ok_n(s.write_volatile(vs))
        }
        4 => ok_n(Cursor::new(dst).write_volatile(vs)),
        5 => {
            let mut v: Vec<u8> = Vec::with_capacity(128);
            v.resize(prefix, 0x5a);
            let r = ok_n(v.write_volatile(vs));
            out.extend_from_slice(&v[prefix.min(v.len())..]);
            r
        }
        6 => {
            let mut s: &mut [u8] = dst;
            ok_unit(s.write_all_volatile(vs), total)
        }
        _ => panic!("bad op"),
    }
}

/// flags an (level, op, direction) combination must carry; None = no such entry point
fn flags_of(level: u64, op: u64, read: bool) -> Option<u64> {
    let r = if read { F_READ } else { 0 };
    match (level, op, read) {
        (0..=2, 1 | 2 | 5 | 6 | 7 | 8, _) => Some(r),
        (0..=2, 3, _) => Some(r | F_UNCTL),
        (0..=2, 4, _) => Some(r | F_UNCTL | F_INT),
        (0..=2, 9 | 10, true) => Some(r | F_UNCTL),
        (3, 1 | 2 | 3 | 4 | 6, _) => Some(r),
        // 11/12: copy_from/copy_to::<u8> and the u8 array route with a LOCAL buffer 5 bytes longer than the guest
        // container; 13/14: the same with a guest CONTAINER 5 bytes longer than the local buffer (the transfer is
        // the shorter of the two = total in all four)
        (3, 11 | 12 | 13 | 14, _) => Some(r),
        (3, 5, true) => Some(r | F_UNCTL),
        _ => None,
    }
}

fn bad() -> Vec<Tok> {
    vec![Tok::N(0xbad0bad)]
}

fn exec(case: &[Tok]) -> Vec<Tok> {
    // case[0] (build mode) only selects the model's arithmetic; the real code runs as built
    if case.len() != 5 {
        return bad();
    }
    let (ep, goff, loff, total) = (case[1].u(), case[2].u() as usize, case[3].u() as usize, case[4].u() as usize);
    let (level, op, flags) = (ep >> 12, (ep >> 4) & 0xff, ep & 0xf);
    let read = flags & F_READ != 0;
    if flags_of(level, op, read) != Some(flags) {
        return bad();
    }
    let unctl = flags & F_UNCTL != 0;
    // the guest address itself must be mapped, also for total = 0: what a zero-length access at
    // the first unmapped address returns is C18's business, not modelled here
    if total > MAXTOTAL
        || goff >= GSIZE
        || goff + total > GSIZE
        || loff >= 64
        || (flags & F_INT != 0 && ![1, 2, 4, 8].contains(&total))
        || (unctl && op <= 4 && level <= 2 && total > 16)
    {
        return bad();
    }
    if level == 3 && (op == 13 || op == 14) && goff + total + 5 > GSIZE {
        return bad();
    }
    WORLD.with(|w| run_case(w, level, op, read, unctl, goff, loff, total))
}

fn run_case(w: &World, level: u64, op: u64, read: bool, unctl: bool, goff: usize, loff: usize, total: usize) -> Vec<Tok> {
    let gbase = if level == 0 || level == 3 { w.arena } else { w.gm_host };
    // window of guest memory that is initialised and compared
    let wlo = goff.saturating_sub(MARGIN);
    let whi = (goff + total + MARGIN).min(GSIZE);
    // SAFETY: all ranges are inside the two blocks allocated in World::new
    unsafe {
        fill(gbase.add(wlo), whi - wlo, 0xa5);
        fill(w.local, LSIZE, 0x3c);
    }
    let gbefore = unsafe { snap(gbase.add(wlo), whi - wlo) };
    let lbefore = unsafe { snap(w.local, LSIZE) };
    let lptr = unsafe { w.local.add(LPAD + loff) };
    let gptr = unsafe { gbase.add(goff) };
    let mut out: Vec<u8> = Vec::new();

    start_trace();
    let res: Option<Option<usize>> = util::catch(|| {
        // SAFETY: lptr..lptr+total is inside the local block (LPAD + 63 + 32 < LSIZE)
        let lslice: &mut [u8] = unsafe { std::slice::from_raw_parts_mut(lptr, total) };
        match level {
            0 => {
                // SAFETY: the arena is GSIZE bytes and lives for the whole process
                let vs = unsafe { VolatileSlice::new(w.arena, GSIZE) };
                if read {
                    bytes_read(&vs, goff, op, lslice, loff, &mut out)
                } else {
                    bytes_write(&vs, goff, op, lslice)
                }
            }
            1 => {
                let region = w.gm.iter().next().unwrap();
                let a = MemoryRegionAddress(goff as u64);
                if read {
                    bytes_read(region, a, op, lslice, loff, &mut out)
                } else {
                    bytes_write(region, a, op, lslice)
                }
            }
            2 => {
                let a = GuestAddress(GUEST_BASE + goff as u64);
                if read {
                    bytes_read(&w.gm, a, op, lslice, loff, &mut out)
                } else {
                    bytes_write(&w.gm, a, op, lslice)
                }
            }
            3 => {
                // SAFETY: goff + total (+ 5 for ops 13/14) <= GSIZE was checked by the caller
                let glen = if op == 13 || op == 14 { total + 5 } else { total };
                let vs = unsafe { VolatileSlice::new(w.arena.add(goff), glen) };
                // ops 11/12: the local buffer is 5 bytes longer than the guest container (inside the local block)
                let llen = if op == 11 || op == 12 { total + 5 } else { total };
                let lslice: &mut [u8] = unsafe { std::slice::from_raw_parts_mut(lptr, llen) };
                if read {
                    vs_read(&vs, op, lslice, loff, &mut out).map(|k| k)
                } else {
                    vs_write(&vs, op, lslice).map(|k| k.min(total))
                }
            }
            _ => panic!("bad level"),
        }
    });
    let trace = take_trace();

    let st: u64 = match res {
        None => 2,
        Some(Some(k)) if k == total => 0,
        Some(_) => 1,
    };

    // canonicalise the primitive accesses
    let in_guest = |a: usize| a >= gbase as usize && a < gbase as usize + GSIZE;
    let sides: Vec<(u64, usize, usize, usize, u64)> = trace
        .iter()
        .map(|acc| {
            let (kind, wd, s, d) = match *acc {
                Access::Single { width, src, dst } => (0u64, width, src, dst),
                Access::Bulk { src, dst, total } => (1u64, total, src, dst),
            };
            if in_guest(d) && !in_guest(s) {
                (kind, wd, d, s, 0u64)
            } else if in_guest(s) && !in_guest(d) {
                (kind, wd, s, d, 1u64)
            } else {
                (kind, wd, d, s, 2u64)
            }
        })
        .collect();
    let lbase: usize = if unctl { sides.first().map(|x| x.3).unwrap_or(0) } else { lptr as usize };
    let mut flat: Vec<u64> = Vec::new();
    for (kind, wd, ga, la, side) in &sides {
        flat.push(*kind);
        flat.push(*wd as u64);
        flat.push((*ga as u64).wrapping_sub(gptr as u64));
        flat.push((*la as u64).wrapping_sub(lbase as u64));
        flat.push(*side);
    }

    // the effect, looked at through raw pointers
    let gafter = unsafe { snap(gbase.add(wlo), whi - wlo) };
    let lafter = unsafe { snap(w.local, LSIZE) };
    let lo = LPAD + loff;
    let dok = if read {
        let want = &gbefore[goff - wlo..goff - wlo + total];
        let got_ok = if unctl { out.as_slice() == want } else { &lafter[lo..lo + total] == want };
        let frame_ok = gafter == gbefore
            && lafter[..lo] == lbefore[..lo]
            && lafter[lo + total..] == lbefore[lo + total..]
            && (!unctl || lafter == lbefore);
        got_ok && frame_ok
    } else {
        let want = &lbefore[lo..lo + total];
        let got_ok = &gafter[goff - wlo..goff - wlo + total] == want;
        let frame_ok = lafter == lbefore
            && gafter[..goff - wlo] == gbefore[..goff - wlo]
            && gafter[goff - wlo + total..] == gbefore[goff - wlo + total..];
        got_ok && frame_ok
    };
    vec![n(st), us(lbase % 8), Tok::b(dok), Tok::of_u64s(&flat)]
}

fn ep_code(level: u64, op: u64, read: bool) -> Option<u64> {
    flags_of(level, op, read).map(|f| (level << 12) | (op << 4) | f)
}

fn all_eps() -> Vec<u64> {
    let mut v = Vec::new();
    for level in 0..=3u64 {
        for op in 1..=14u64 {
            for read in [false, true] {
                if let Some(e) = ep_code(level, op, read) {
                    v.push(e);
                }
            }
        }
    }
    v
}

fn gen(rng: &mut Rng, tier: Tier, emit: &mut dyn FnMut(Vec<Tok>)) {
    let mode = crate::build_mode();
    let eps = all_eps();
    // page-aligned bases inside the guest buffer (the buffer itself is page aligned), plus one
    // base that is only 8-aligned
    let bases: &[usize] = if tier == Tier::Quick { &[0, PAGE, 3 * PAGE] } else { &[0, PAGE, 3 * PAGE, 2 * PAGE + 8 * 37, 4 * PAGE] };
    for &ep in &eps {
        let flags = ep & 0xf;
        let unctl = flags & F_UNCTL != 0;
        let by_value = unctl && ((ep >> 4) & 0xff) <= 4;
        for &base in bases {
            for total in 0..=16usize {
                if flags & F_INT != 0 && ![1, 2, 4, 8].contains(&total) {
                    continue;
                }
                for g in 0..8usize {
                    if base + g + total > GSIZE {
                        continue;
                    }
                    // the local address of a by-value object is not ours to choose: one case
                    let lrange = if by_value { 1 } else { 8 };
                    for l in 0..lrange {
                        emit(vec![n(mode), n(ep), us(base + g), us(l), us(total)]);
                    }
                }
            }
        }
    }
    // random: larger totals (bulk path), offsets anywhere, the end of the buffer
    let nrand = if tier == Tier::Quick { 4_000 } else { 200_000 };
    for _ in 0..nrand {
        let ep = *rng.pick(&eps);
        let flags = ep & 0xf;
        let by_value = flags & F_UNCTL != 0 && ((ep >> 4) & 0xff) <= 4;
        let total = if flags & F_INT != 0 {
            *rng.pick(&[1usize, 2, 4, 8])
        } else if by_value {
            rng.below(17) as usize
        } else {
            rng.below(MAXTOTAL as u64 + 1) as usize
        };
        let goff = match rng.below(4) {
            0 => GSIZE - total - rng.below(9) as usize,
            1 => (rng.below(5) as usize) * PAGE + rng.below(8) as usize,
            _ => rng.below((GSIZE - total) as u64 + 1) as usize,
        };
        let goff = goff.min(GSIZE - total).min(GSIZE - 1);
        // ops 13/14 of level 3 use a guest container 5 bytes longer than the transfer
        let long_container = (ep >> 12) == 3 && matches!((ep >> 4) & 0xff, 13 | 14);
        let goff = if long_container { goff.min(GSIZE - total - 5) } else { goff };
        emit(vec![n(mode), n(ep), us(goff), us(rng.below(64) as usize), us(total)]);
    }
}

// ---------------------------------------------------------------------------------------------
// atomic load / store

fn verr(e: &VolatileMemoryError) -> u64 {
    match e {
        VolatileMemoryError::Misaligned { .. } => 1,
        _ => 2,
    }
}

/// store `val` through `store`, look at the bytes through the raw pointer, load it back
fn atomic_roundtrip<A: Copy, C: Bytes<A>>(c: &C, addr: A, size: usize, raw: *const u8, classify: &dyn Fn(&C::E) -> u64) -> (u64, u64) {
    let v: u64 = 0xf1e2_d3c4_b5a6_9788;
    macro_rules! go {
        ($t:ty) => {{
            let val = v as $t;
            match c.store::<$t>(val, addr, Ordering::SeqCst) {
                Err(e) => {
                    // a refused store must be refused by load too
                    let l = c.load::<$t>(addr, Ordering::SeqCst);
                    (classify(&e), if l.is_err() { 0 } else { 7 })
                }
                Ok(()) => {
                    // SAFETY: the caller passes a pointer to `size` readable bytes when the store can succeed
                    let seen = unsafe { snap(raw, size) };
                    let back = c.load::<$t>(addr, Ordering::SeqCst).ok();
                    (0, (seen == val.to_le_bytes() && back == Some(val)) as u64)
                }
            }
        }};
    }
    match size {
        1 => go!(u8),
        2 => go!(u16),
        4 => go!(u32),
        8 => go!(u64),
        _ => panic!("bad size"),
    }
}

fn exec_atomic(case: &[Tok]) -> Vec<Tok> {
    if case.len() != 5 && case.len() != 6 {
        return bad();
    }
    let (ep, size, goff, len) = (case[1].u(), case[2].u() as usize, case[3].u(), case[4].u() as usize);
    // optional 6th token: the slice itself starts `skew` bytes after the (page-aligned) arena base
    let skew = if case.len() == 6 { case[5].u() as usize } else { 0 };
    if ![1, 2, 4, 8].contains(&size) || ep > 3 || len > GSIZE - 8 * (skew != 0) as usize || skew >= 8 {
        return bad();
    }
    if skew != 0 && ep != 0 && ep != 3 {
        return bad();
    }
    if (ep == 1 || ep == 2) && (len != GSIZE || goff >= 1 << 32) {
        return bad();
    }
    WORLD.with(|w| {
        let gbase = if ep == 0 || ep == 3 { unsafe { w.arena.add(skew) } } else { w.gm_host };
        let inb = (goff as u128) + (size as u128) <= len as u128;
        let raw: *const u8 = if inb { unsafe { gbase.add(goff as usize) as *const u8 } } else { gbase as *const u8 };
        if inb {
            unsafe { fill(gbase.add(goff as usize), size, 0x77) };
        }
        let r = util::catch(|| match ep {
            0 => {
                // SAFETY: skew + len <= GSIZE
                let vs = unsafe { VolatileSlice::new(gbase, len) };
                let (st, rt) = atomic_roundtrip(&vs, goff as usize, size, raw, &|e| verr(e));
                (st, 0u64, rt)
            }
            1 => {
                let region = w.gm.iter().next().unwrap();
                let (st, rt) = atomic_roundtrip(region, MemoryRegionAddress(goff), size, raw, &|_| 2);
                (st, 0, rt)
            }
            2 => {
                let (st, rt) = atomic_roundtrip(&w.gm, GuestAddress(GUEST_BASE + goff), size, raw, &|_| 2);
                (st, 0, rt)
            }
            _ => {
                let vs = unsafe { VolatileSlice::new(gbase, len) };
                macro_rules! refof {
                    ($a:ty, $t:ty) => {
                        match vs.get_atomic_ref::<$a>(goff as usize) {
                            Err(e) => (verr(&e), 0u64, 0u64),
                            Ok(r) => {
                                let off = (r as *const $a as u64).wrapping_sub(gbase as u64).wrapping_sub(goff);
                                let val = 0xf1e2_d3c4_b5a6_9788u64 as $t;
                                r.store(val, Ordering::SeqCst);
                                let seen = unsafe { snap(raw, size) };
                                (0, off, (seen == val.to_le_bytes() && r.load(Ordering::SeqCst) == val) as u64)
                            }
                        }
                    };
                }
                match size {
                    1 => refof!(std::sync::atomic::AtomicU8, u8),
                    2 => refof!(std::sync::atomic::AtomicU16, u16),
                    4 => refof!(std::sync::atomic::AtomicU32, u32),
                    _ => refof!(std::sync::atomic::AtomicU64, u64),
                }
            }
        });
        match r {
            Some((st, off, rt)) => vec![n(st), n(off), n(rt)],
            None => vec![n(3u8), n(0u8), n(0u8)],
        }
    })
}

fn gen_atomic(rng: &mut Rng, tier: Tier, emit: &mut dyn FnMut(Vec<Tok>)) {
    let mode = crate::build_mode();
    for ep in 0..=3u64 {
        for size in [1usize, 2, 4, 8] {
            // every residue around three page-aligned bases and at the end of the container
            for base in [0usize, PAGE, 3 * PAGE, GSIZE - 16] {
                for r in 0..24usize {
                    emit(vec![n(mode), n(ep), us(size), us(base + r), us(GSIZE)]);
                }
            }
            if ep == 0 || ep == 3 {
                for len in [0usize, 1, 7, 8, 9, 15, 16, 17, PAGE + 3] {
                    for g in 0..20usize {
                        emit(vec![n(mode), n(ep), us(size), us(g), us(len)]);
                    }
                }
                for g in util::boundary_u64(GSIZE as u64) {
                    emit(vec![n(mode), n(ep), us(size), n(g), us(GSIZE)]);
                }
                // containers that start at a skewed address: what counts is the alignment of the ADDRESS
                // (skew + offset), an offset that is a multiple of the width is not enough
                for skew in 1..8usize {
                    for g in 0..24usize {
                        emit(vec![n(mode), n(ep), us(size), us(g), us(64), us(skew)]);
                    }
                    emit(vec![n(mode), n(ep), us(size), us(PAGE - skew), us(2 * PAGE), us(skew)]);
                }
            }
        }
    }
    let nrand = if tier == Tier::Quick { 2_000 } else { 100_000 };
    for _ in 0..nrand {
        let ep = rng.below(4);
        let size = *rng.pick(&[1usize, 2, 4, 8]);
        let len = if ep == 0 || ep == 3 { rng.below(GSIZE as u64 + 1) as usize } else { GSIZE };
        let goff = rng.below(len as u64 + 12);
        if (ep == 0 || ep == 3) && len + 8 <= GSIZE && rng.chance(1, 3) {
            emit(vec![n(mode), n(ep), us(size), n(goff), us(len), n(1 + rng.below(7))]);
        } else {
            emit(vec![n(mode), n(ep), us(size), n(goff), us(len)]);
        }
    }
}

// ---------------------------------------------------------------------------------------------
// two-thread tearing detector (black box, thorough tier).  A writer flips an aligned location
// between two values whose bytes all differ; a reader must only ever see one of the two.
//   case: mode level size millis    obs: torn(0/1) reads_nonzero(1)

fn tear_run<A: Copy + Send + Sync, C: Bytes<A> + Sync>(c: &C, addr: A, size: usize, millis: u64) -> (bool, bool)
where
    C::E: std::fmt::Debug,
{
    let stop = AtomicBool::new(false);
    let (a, b) = (0x0101_0101_0101_0101u64, 0xfefe_fefe_fefe_fefeu64);
    macro_rules! go {
        ($t:ty) => {{
            let (va, vb) = (a as $t, b as $t);
            c.write_obj::<$t>(va, addr).unwrap();
            let mut torn = false;
            let mut reads = 0u64;
            std::thread::scope(|s| {
                s.spawn(|| {
                    while !stop.load(Ordering::Relaxed) {
                        c.write_obj::<$t>(vb, addr).unwrap();
                        c.write_obj::<$t>(va, addr).unwrap();
                    }
                });
                let t0 = std::time::Instant::now();
                while t0.elapsed().as_millis() < millis as u128 {
                    for _ in 0..1000 {
                        let v = c.read_obj::<$t>(addr).unwrap();
                        reads += 1;
                        if v != va && v != vb {
                            torn = true;
                        }
                    }
                }
                stop.store(true, Ordering::Relaxed);
            });
            (torn, reads > 0)
        }};
    }
    match size {
        2 => go!(u16),
        4 => go!(u32),
        8 => go!(u64),
        _ => panic!("bad size"),
    }
}

fn exec_tear(case: &[Tok]) -> Vec<Tok> {
    if case.len() != 4 {
        return bad();
    }
    let (level, size, millis) = (case[1].u(), case[2].u() as usize, case[3].u());
    if level > 1 || ![2, 4, 8].contains(&size) || millis > 5000 {
        return bad();
    }
    // an own mapping: the reader/writer threads must not share the thread-local world
    let gm = GuestMemoryMmap::<()>::from_ranges(&[(GuestAddress(GUEST_BASE), GSIZE)]).unwrap();
    let (torn, some) = if level == 0 {
        tear_run(&gm, GuestAddress(GUEST_BASE + 2 * PAGE as u64 + 64), size, millis)
    } else {
        let region = gm.iter().next().unwrap();
        tear_run(region, MemoryRegionAddress(2 * PAGE as u64 + 64), size, millis)
    };
    vec![Tok::b(torn), Tok::b(some)]
}

fn gen_tear(_rng: &mut Rng, tier: Tier, emit: &mut dyn FnMut(Vec<Tok>)) {
    let mode = crate::build_mode();
    let millis: u64 = if tier == Tier::Quick { 30 } else { 800 };
    for level in 0..=1u64 {
        for size in [2usize, 4, 8] {
            emit(vec![n(mode), n(level), us(size), n(millis)]);
        }
    }
}


// ------------------------------------------------------------------ C06order
thread_local! {
    /// (kind 0 load / 1 store, ordering code) of every call that reached a spy atomic
    static SPY: std::cell::RefCell<Vec<(u8, u8)>> = const { std::cell::RefCell::new(Vec::new()) };
}
fn ord_code(o: Ordering) -> u8 {
    match o {
        Ordering::Relaxed => 0,
        Ordering::Release => 1,
        Ordering::Acquire => 2,
        Ordering::AcqRel => 3,
        Ordering::SeqCst => 4,
        _ => 9,
    }
}
fn ord_of(c: u64) -> Ordering {
    match c {
        0 => Ordering::Relaxed,
        1 => Ordering::Release,
        2 => Ordering::Acquire,
        3 => Ordering::AcqRel,
        _ => Ordering::SeqCst,
    }
}
macro_rules! spy {
    ($A:ident, $V:ident, $std:ty, $raw:ty) => {
        #[repr(transparent)]
        pub struct $A($std);
        // SAFETY: consists exclusively of one std atomic integer
        unsafe impl vm_memory::AtomicInteger for $A {
            type V = $raw;
            fn new(v: $raw) -> Self {
                $A(<$std>::new(v))
            }
            fn load(&self, order: Ordering) -> $raw {
                SPY.with(|l| l.borrow_mut().push((0, ord_code(order))));
                self.0.load(order)
            }
            fn store(&self, val: $raw, order: Ordering) {
                SPY.with(|l| l.borrow_mut().push((1, ord_code(order))));
                self.0.store(val, order)
            }
        }
        #[repr(transparent)]
        #[derive(Clone, Copy, Default, PartialEq, Debug)]
        pub struct $V($raw);
        // SAFETY: a transparent wrapper of a plain integer
        unsafe impl ByteValued for $V {}
        impl From<$raw> for $V {
            fn from(v: $raw) -> Self {
                $V(v)
            }
        }
        impl From<$V> for $raw {
            fn from(v: $V) -> $raw {
                v.0
            }
        }
        impl vm_memory::AtomicAccess for $V {
            type A = $A;
        }
    };
}
spy!(SpyA8, SpyV8, std::sync::atomic::AtomicU8, u8);
spy!(SpyA16, SpyV16, std::sync::atomic::AtomicU16, u16);
spy!(SpyA32, SpyV32, std::sync::atomic::AtomicU32, u32);
spy!(SpyA64, SpyV64, std::sync::atomic::AtomicU64, u64);

fn order_roundtrip<A: Copy, C: Bytes<A>>(c: &C, addr: A, size: usize, os: Ordering, ol: Ordering) -> u64 {
    macro_rules! go {
        ($v:ident, $raw:ty) => {{
            let val = $v(0x5a5a_a5a5_1234_8765u64 as $raw);
            match c.store::<$v>(val, addr, os) {
                Err(_) => 1,
                Ok(()) => match c.load::<$v>(addr, ol) {
                    Ok(b) if b == val => 0,
                    Ok(_) => 2,
                    Err(_) => 1,
                },
            }
        }};
    }
    match size {
        1 => go!(SpyV8, u8),
        2 => go!(SpyV16, u16),
        4 => go!(SpyV32, u32),
        _ => go!(SpyV64, u64),
    }
}

fn exec_order(case: &[Tok]) -> Vec<Tok> {
    if case.len() != 5 {
        return bad();
    }
    let (ep, size, os, ol) = (case[1].u(), case[2].u() as usize, case[3].u(), case[4].u());
    // std panics on an Acquire / AcqRel store and on a Release / AcqRel load: not requested here
    if ![1, 2, 4, 8].contains(&size) || ep > 2 || ![0, 1, 4].contains(&os) || ![0, 2, 4].contains(&ol) {
        return bad();
    }
    WORLD.with(|w| {
        SPY.with(|l| l.borrow_mut().clear());
        let r = util::catch(|| match ep {
            0 => {
                let vs = unsafe { VolatileSlice::new(w.arena.add(64), 64) };
                order_roundtrip(&vs, 8usize, size, ord_of(os), ord_of(ol))
            }
            1 => {
                let region = w.gm.iter().next().unwrap();
                order_roundtrip(region, MemoryRegionAddress(PAGE as u64 + 16), size, ord_of(os), ord_of(ol))
            }
            _ => order_roundtrip(&w.gm, GuestAddress(GUEST_BASE + 2 * PAGE as u64 + 24), size, ord_of(os), ord_of(ol)),
        });
        let log = SPY.with(|l| l.borrow().clone());
        let stores: Vec<u8> = log.iter().filter(|e| e.0 == 1).map(|e| e.1).collect();
        let loads: Vec<u8> = log.iter().filter(|e| e.0 == 0).map(|e| e.1).collect();
        vec![
            n(r.unwrap_or(3)),
            n(stores.first().copied().unwrap_or(9)),
            n(loads.first().copied().unwrap_or(9)),
            us(stores.len()),
            us(loads.len()),
        ]
    })
}

fn gen_order(_rng: &mut Rng, _tier: Tier, emit: &mut dyn FnMut(Vec<Tok>)) {
    let mode = crate::build_mode();
    for ep in 0..=2u64 {
        for size in [1usize, 2, 4, 8] {
            for os in [0u64, 1, 4] {
                for ol in [0u64, 2, 4] {
                    emit(vec![n(mode), n(ep), us(size), n(os), n(ol)]);
                }
            }
        }
    }
}


// ------------------------------------------------------------------ C06ordstd: the crate's own impls over the std atomics
fn ordstd_one<A: Copy, C: Bytes<A>>(c: &C, addr: A, ty: u64, kind: u64, order: Ordering) -> u64 {
    macro_rules! go {
        ($t:ty) => {{
            let val = 0x5a5a_a5a5_1234_8765u64 as $t;
            if kind == 0 {
                // the store under test, read back with an ordering every load accepts
                match c.store::<$t>(val, addr, order) {
                    Err(_) => 1,
                    Ok(()) => match c.load::<$t>(addr, Ordering::SeqCst) {
                        Ok(b) if b == val => 0,
                        Ok(_) => 3,
                        Err(_) => 1,
                    },
                }
            } else {
                match c.store::<$t>(val, addr, Ordering::SeqCst) {
                    Err(_) => 1,
                    Ok(()) => match c.load::<$t>(addr, order) {
                        Ok(b) if b == val => 0,
                        Ok(_) => 3,
                        Err(_) => 1,
                    },
                }
            }
        }};
    }
    match ty {
        0 => go!(u8),
        1 => go!(u16),
        2 => go!(u32),
        3 => go!(u64),
        4 => go!(i8),
        5 => go!(i16),
        6 => go!(i32),
        7 => go!(i64),
        8 => go!(usize),
        _ => go!(isize),
    }
}

fn exec_ordstd(case: &[Tok]) -> Vec<Tok> {
    if case.len() != 5 {
        return bad();
    }
    let (ep, ty, kind, order) = (case[1].u(), case[2].u(), case[3].u(), case[4].u());
    if ep > 2 || ty > 9 || kind > 1 || order > 4 {
        return bad();
    }
    WORLD.with(|w| {
        let r = util::catch(|| match ep {
            0 => {
                let vs = unsafe { VolatileSlice::new(w.arena.add(64), 64) };
                ordstd_one(&vs, 8usize, ty, kind, ord_of(order))
            }
            1 => {
                let region = w.gm.iter().next().unwrap();
                ordstd_one(region, MemoryRegionAddress(PAGE as u64 + 16), ty, kind, ord_of(order))
            }
            _ => ordstd_one(&w.gm, GuestAddress(GUEST_BASE + 2 * PAGE as u64 + 24), ty, kind, ord_of(order)),
        });
        vec![n(r.unwrap_or(2))]
    })
}

fn gen_ordstd(_rng: &mut Rng, _tier: Tier, emit: &mut dyn FnMut(Vec<Tok>)) {
    let mode = crate::build_mode();
    for ep in 0..=2u64 {
        for ty in 0..10u64 {
            for kind in 0..2u64 {
                for order in 0..5u64 {
                    emit(vec![n(mode), n(ep), n(ty), n(kind), n(order)]);
                }
            }
        }
    }
}

// ------------------------------------------------------------------ C06sb: store-buffering litmus (SeqCst)
/// `st(which, v)` stores v to location x (which = 0) / y (1) with SeqCst through the library, `ld(which)` loads it
fn sb_run(st: &(dyn Fn(u8, u64) + Sync), ld: &(dyn Fn(u8) -> u64 + Sync), rounds: u64) -> (bool, bool) {
    use std::sync::atomic::AtomicU64;
    // `arrive` is a symmetric spin barrier: both threads add 1 and wait for 2 * round; `res1` / `fin1` hand thread 1's
    // load result back.  The budget bounds the wall time on a loaded machine.
    let arrive = AtomicU64::new(0);
    let res1 = AtomicU64::new(0);
    let fin1 = AtomicU64::new(0);
    let stop = AtomicBool::new(false);
    let mut forbidden = false;
    let mut ran = 0u64;
    std::thread::scope(|s| {
        s.spawn(|| {
            let mut z = 0x9e37_79b9_7f4a_7c15u64;
            for r in 1..=rounds {
                arrive.fetch_add(1, Ordering::AcqRel);
                while arrive.load(Ordering::Acquire) < 2 * r {
                    if stop.load(Ordering::Relaxed) {
                        return;
                    }
                    std::hint::spin_loop();
                }
                z ^= z << 13;
                z ^= z >> 7;
                z ^= z << 17;
                for _ in 0..(z & 31) {
                    std::hint::spin_loop();
                }
                st(1, 1);
                let r1 = ld(0);
                res1.store(r1, Ordering::Relaxed);
                fin1.store(r, Ordering::Release);
            }
        });
        let t0 = std::time::Instant::now();
        let mut z = 0x2545_f491_4f6c_dd1du64;
        for r in 1..=rounds {
            // reset: thread 1 is parked at the barrier (it published fin1 = r - 1 before arriving)
            st(0, 0);
            st(1, 0);
            arrive.fetch_add(1, Ordering::AcqRel);
            while arrive.load(Ordering::Acquire) < 2 * r {
                std::hint::spin_loop();
            }
            z ^= z << 13;
            z ^= z >> 7;
            z ^= z << 17;
            for _ in 0..(z & 31) {
                std::hint::spin_loop();
            }
            st(0, 1);
            let r0 = ld(1);
            while fin1.load(Ordering::Acquire) < r {
                std::hint::spin_loop();
            }
            ran += 1;
            if r0 == 0 && res1.load(Ordering::Relaxed) == 0 {
                forbidden = true;
            }
            if r % 1024 == 0 && t0.elapsed().as_millis() > 4000 {
                break;
            }
        }
        stop.store(true, Ordering::Relaxed);
        // let a parked thread 1 out of its barrier
        arrive.fetch_add(1 << 40, Ordering::AcqRel);
    });
    (forbidden, ran > 0)
}

fn sb_store<A: Copy, C: Bytes<A>>(c: &C, a: A, size: usize, v: u64)
where
    C::E: std::fmt::Debug,
{
    match size {
        1 => c.store::<u8>(v as u8, a, Ordering::SeqCst).unwrap(),
        2 => c.store::<u16>(v as u16, a, Ordering::SeqCst).unwrap(),
        4 => c.store::<u32>(v as u32, a, Ordering::SeqCst).unwrap(),
        _ => c.store::<u64>(v, a, Ordering::SeqCst).unwrap(),
    }
}
fn sb_load<A: Copy, C: Bytes<A>>(c: &C, a: A, size: usize) -> u64
where
    C::E: std::fmt::Debug,
{
    match size {
        1 => c.load::<u8>(a, Ordering::SeqCst).unwrap() as u64,
        2 => c.load::<u16>(a, Ordering::SeqCst).unwrap() as u64,
        4 => c.load::<u32>(a, Ordering::SeqCst).unwrap() as u64,
        _ => c.load::<u64>(a, Ordering::SeqCst).unwrap(),
    }
}

fn exec_sb(case: &[Tok]) -> Vec<Tok> {
    if case.len() != 4 {
        return bad();
    }
    let (level, size, rounds) = (case[1].u(), case[2].u() as usize, case[3].u());
    if level > 2 || ![1, 2, 4, 8].contains(&size) || rounds > 5_000_000 || rounds == 0 {
        return bad();
    }
    // an own mapping (the threads must not share the thread-local world); x and y in different cache lines
    let gm = GuestMemoryMmap::<()>::from_ranges(&[(GuestAddress(GUEST_BASE), GSIZE)]).unwrap();
    let off = [2 * PAGE as u64 + 64, 3 * PAGE as u64 + 512];
    let region = gm.iter().next().unwrap();
    let (forb, ran) = match level {
        0 => sb_run(
            &|w, v| sb_store(&gm, GuestAddress(GUEST_BASE + off[w as usize]), size, v),
            &|w| sb_load(&gm, GuestAddress(GUEST_BASE + off[w as usize]), size),
            rounds,
        ),
        1 => sb_run(
            &|w, v| sb_store(region, MemoryRegionAddress(off[w as usize]), size, v),
            &|w| sb_load(region, MemoryRegionAddress(off[w as usize]), size),
            rounds,
        ),
        _ => sb_run(
            &|w, v| sb_store(&region.as_volatile_slice().unwrap(), off[w as usize] as usize, size, v),
            &|w| sb_load(&region.as_volatile_slice().unwrap(), off[w as usize] as usize, size),
            rounds,
        ),
    };
    vec![Tok::b(forb), Tok::b(ran)]
}

fn gen_sb(_rng: &mut Rng, tier: Tier, emit: &mut dyn FnMut(Vec<Tok>)) {
    let mode = crate::build_mode();
    let rounds: u64 = if tier == Tier::Quick { 200_000 } else { 2_000_000 };
    for level in 0..=2u64 {
        for size in [1usize, 2, 4, 8] {
            emit(vec![n(mode), n(level), us(size), n(rounds)]);
        }
    }
}
