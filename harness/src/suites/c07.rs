// build: no-xen
//! C07: guest-controlled addresses / offsets / lengths / counts can never crash the monitor.
//! ONE call of a public access / query entry point per case, arguments from boundary sets, every
//! call under catch_unwind and a watchdog; the observation is the CLASS of what the call did.
//!
//! case:  mode tgt [params] op ty a b c [script]        obs: class (0 success value, 1 error value, 2 panic)
//!   tgt 0 VolatileSlice over a real buffer [pre, n]: bytes [pre, pre+n) of an 8 KiB arena mapped at the
//!         fixed host address 2^40 between two PROT_NONE pages (a wild access kills the process)
//!       1 VolatileSlice over a FAKE range [A, n] (unsafe new, never dereferenced; geometry ops only)
//!       2 GuestRegionMmap [guest base, n]     3 GuestMemoryMmap [s1,l1,...]     4 MockMem [s1,l1,...]
//!       5 AtomicBitmap [byte_size, page_size]  6 GuestAddress []
//!       7 AtomicBitmap::new(byte_size, page_size) then enlarge(k)  [byte_size, page_size, k]  (byte_size + k < 2^64)
//!       8 ByteValued::as_bytes() of an object of type oc living at arena + pre  [pre, oc]
//!         (oc 0 u8 1 u16 2 u32 3 u64 4 [u8;3] 5 [u8;16] 6 u128)
//!       9 a ByteValued type oc [oc] (as kind 8; 7 = Be32): ops 80 from_slice / 81 from_mut_slice of arena[a..a+b],
//!         82 zeroed, 83 zeroed().as_slice(), 84 zeroed().as_mut_slice()
//!   ty 0..3 = u8 u16 u32 u64 (ops 65..69 also 4 = [u8;3], 5 = [u8;16]);  op codes: see coq/Suite/C07.v.
//!   ops 61..64: the four stream entry points with the crate's OWN adapters as the stream, [script] = [kind, dlen, pos]:
//!       kind 0 &[u8] = data[pos..]  1 &mut [u8] = data[pos..]  2 Vec<u8>  3 Cursor<&[u8]>  4 Cursor<&mut [u8]>
//!       5 Cursor<Vec<u8>>  6 File of dlen bytes seeked to pos (a Cursor's position is any u64)
//! A case that does not return within 5 s kills the process (exit 97): the runner reports the last
//! announced case as a crash.
use crate::tok::n;
use crate::{util, Rng, Suite, Tier, Tok};
use std::io::{Cursor, ErrorKind, Seek, SeekFrom};
use std::num::NonZeroUsize;
use std::sync::atomic::{AtomicU16, AtomicU32, AtomicU64, AtomicU8, Ordering};
use std::sync::Once;
use std::time::Instant;
use vm_memory::bitmap::{AtomicBitmap, Bitmap, BitmapSlice, RefSlice};
use vm_memory::volatile_memory::compute_offset;
use vm_memory::{
    Address, ByteValued, Bytes, GuestAddress, GuestMemory, GuestMemoryMmap, GuestMemoryRegion, GuestRegionMmap,
    MemoryRegionAddress, MmapRegion, ReadVolatile, VolatileMemory, VolatileMemoryError, VolatileSlice,
    WriteVolatile,
};

use super::c02::{MockMem, MockRegion};

pub const SUITES: &[Suite] = &[Suite { name: "C07", gen, exec }];

const PAGE: usize = 4096;
const HB: usize = 1 << 40;
const SMALL: u64 = 4096;

// ------------------------------------------------------------------ watchdog
static ARMED_AT: AtomicU64 = AtomicU64::new(0);
static WD: Once = Once::new();
static T0: std::sync::OnceLock<Instant> = std::sync::OnceLock::new();
fn now_ms(t0: &Instant) -> u64 {
    t0.elapsed().as_millis() as u64 + 1
}
fn arm() {
    WD.call_once(|| {
        let t0 = Instant::now();
        T0.set(t0).unwrap();
        std::thread::spawn(move || loop {
            std::thread::sleep(std::time::Duration::from_millis(100));
            let a = ARMED_AT.load(Ordering::SeqCst);
            if a != 0 && now_ms(&t0) > a + 5_000 {
                eprintln!("C07 watchdog: case did not return within 5 s");
                std::process::exit(97);
            }
        });
    });
    let t0 = *T0.get().unwrap();
    ARMED_AT.store(now_ms(&t0), Ordering::SeqCst);
}
fn disarm() {
    ARMED_AT.store(0, Ordering::SeqCst);
}

// ------------------------------------------------------------------ the arena of real slices
/// 2 read/write pages at HB (or, if that address is taken, anywhere page-aligned), one PROT_NONE page
/// before and one after.  Lives for the whole process.
fn arena() -> *mut u8 {
    static A: std::sync::OnceLock<usize> = std::sync::OnceLock::new();
    *A.get_or_init(|| {
        let total = 4 * PAGE;
        // SAFETY: MAP_FIXED_NOREPLACE never replaces an existing mapping
        let mut p = unsafe {
            libc::mmap(
                (HB - PAGE) as *mut libc::c_void,
                total,
                libc::PROT_NONE,
                libc::MAP_PRIVATE | libc::MAP_ANONYMOUS | libc::MAP_NORESERVE | libc::MAP_FIXED_NOREPLACE,
                -1,
                0,
            )
        };
        if p == libc::MAP_FAILED || p as usize != HB - PAGE {
            if p != libc::MAP_FAILED {
                unsafe { libc::munmap(p, total) };
            }
            p = unsafe {
                libc::mmap(std::ptr::null_mut(), total, libc::PROT_NONE, libc::MAP_PRIVATE | libc::MAP_ANONYMOUS | libc::MAP_NORESERVE, -1, 0)
            };
            assert!(p != libc::MAP_FAILED, "cannot map the arena");
        }
        let lo = p as usize + PAGE;
        let rc = unsafe { libc::mprotect(lo as *mut libc::c_void, 2 * PAGE, libc::PROT_READ | libc::PROT_WRITE) };
        assert_eq!(rc, 0);
        lo
    }) as *mut u8
}

// ------------------------------------------------------------------ classes
fn cr<T, E>(r: Result<T, E>) -> u64 {
    if r.is_ok() {
        0
    } else {
        1
    }
}
fn co<T>(r: Option<T>) -> u64 {
    if r.is_some() {
        0
    } else {
        1
    }
}
/// run the call; a panic inside it is class 2
fn obs(f: impl FnOnce() -> u64) -> u64 {
    util::catch(f).unwrap_or(2)
}

// ------------------------------------------------------------------ scripted streams (as in C14)
#[derive(Clone, Copy, PartialEq, Eq, Debug)]
enum Beh {
    Full,
    Short(usize),
    Zero,
    Eintr,
    HardErr,
}
fn beh_of(x: u128) -> Beh {
    match x {
        0 => Beh::Full,
        1 => Beh::Zero,
        2 => Beh::Eintr,
        3 => Beh::HardErr,
        k if k >= 16 => Beh::Short((k - 16) as usize),
        _ => panic!("bad behaviour"),
    }
}
struct Scripted {
    script: Vec<Beh>,
    idx: usize,
    src: Vec<u8>,
    pos: usize,
    sink: Vec<u8>,
}
impl Scripted {
    fn next(&mut self) -> Beh {
        if self.idx < self.script.len() {
            self.idx += 1;
            self.script[self.idx - 1]
        } else {
            Beh::Zero
        }
    }
    fn amount(b: Beh, len: usize) -> usize {
        match b {
            Beh::Full => len,
            Beh::Short(k) => k.min(len),
            _ => 0,
        }
    }
}
fn io_err(k: ErrorKind) -> VolatileMemoryError {
    VolatileMemoryError::IOError(std::io::Error::new(k, "scripted"))
}
impl ReadVolatile for Scripted {
    fn read_volatile<B: BitmapSlice>(&mut self, buf: &mut VolatileSlice<B>) -> Result<usize, VolatileMemoryError> {
        match self.next() {
            Beh::Eintr => Err(io_err(ErrorKind::Interrupted)),
            Beh::HardErr => Err(io_err(ErrorKind::Other)),
            b => {
                let k = Self::amount(b, buf.len()).min(self.src.len() - self.pos);
                if k > 0 {
                    buf.subslice(0, k).unwrap().copy_from(&self.src[self.pos..self.pos + k]);
                }
                self.pos += k;
                Ok(k)
            }
        }
    }
}
impl WriteVolatile for Scripted {
    fn write_volatile<B: BitmapSlice>(&mut self, buf: &VolatileSlice<B>) -> Result<usize, VolatileMemoryError> {
        match self.next() {
            Beh::Eintr => Err(io_err(ErrorKind::Interrupted)),
            Beh::HardErr => Err(io_err(ErrorKind::Other)),
            b => {
                let k = Self::amount(b, buf.len());
                let mut tmp = vec![0u8; k];
                if k > 0 {
                    buf.subslice(0, k).unwrap().copy_to(&mut tmp[..]);
                }
                self.sink.extend_from_slice(&tmp);
                Ok(k)
            }
        }
    }
}

// ------------------------------------------------------------------ the calls
/// VolatileMemory methods (ops 0, 4..9, 11, 12) on any implementor
fn vm_op<M: VolatileMemory>(m: &M, op: u64, ty: u64, a: usize, b: usize, c: usize) -> u64 {
    macro_rules! typed {
        ($T:ty, $A:ty) => {
            match op {
                4 => obs(|| cr(m.get_ref::<$T>(a))),
                5 => obs(|| cr(m.get_array_ref::<$T>(a, b))),
                6 => obs(|| cr(m.get_atomic_ref::<$A>(a))),
                // SAFETY (7): the reference is never used
                7 => obs(|| cr(unsafe { m.aligned_as_ref::<$T>(a) }.map(|_| ()))),
                8 => obs(|| match m.get_array_ref::<$T>(a, b) {
                    Ok(arr) => {
                        let _r = arr.ref_at(c);
                        0
                    }
                    Err(_) => 1,
                }),
                11 => obs(|| match m.get_array_ref::<$T>(a, b) {
                    Ok(arr) => {
                        let _v = arr.load(c);
                        0
                    }
                    Err(_) => 1,
                }),
                12 => obs(|| match m.get_array_ref::<$T>(a, b) {
                    Ok(arr) => {
                        arr.store(c, 0 as $T);
                        0
                    }
                    Err(_) => 1,
                }),
                _ => panic!("bad vm op"),
            }
        };
    }
    match op {
        0 => obs(|| cr(m.get_slice(a, b))),
        9 => obs(|| cr(m.compute_end_offset(a, b))),
        _ => match ty {
            0 => typed!(u8, AtomicU8),
            1 => typed!(u16, AtomicU16),
            2 => typed!(u32, AtomicU32),
            3 => typed!(u64, AtomicU64),
            _ => panic!("bad type"),
        },
    }
}

/// Bytes<A> methods (ops 13..24) on any implementor; `mk` turns the number into the address type
fn bytes_op<A: Copy, T: Bytes<A>>(t: &T, mk: impl Fn(u64) -> A, op: u64, ty: u64, a: u64, b: usize, c: usize, script: &[u128]) -> u64 {
    let addr = mk(a);
    macro_rules! typed {
        ($T:ty) => {
            match op {
                17 => obs(|| cr(t.write_obj::<$T>(0x5a as $T, addr))),
                18 => obs(|| cr(t.read_obj::<$T>(addr))),
                19 => obs(|| cr(t.store::<$T>(0x5a as $T, addr, Ordering::SeqCst))),
                20 => obs(|| cr(t.load::<$T>(addr, Ordering::SeqCst))),
                _ => panic!("bad typed op"),
            }
        };
    }
    match op {
        13 => {
            let buf = vec![0xa5u8; b];
            obs(|| cr(t.write(&buf, addr)))
        }
        14 => {
            let mut buf = vec![0u8; b];
            obs(|| cr(t.read(&mut buf, addr)))
        }
        15 => {
            let buf = vec![0xa5u8; b];
            obs(|| cr(t.write_slice(&buf, addr)))
        }
        16 => {
            let mut buf = vec![0u8; b];
            obs(|| cr(t.read_slice(&mut buf, addr)))
        }
        17..=20 => match ty {
            0 => typed!(u8),
            1 => typed!(u16),
            2 => typed!(u32),
            3 => typed!(u64),
            _ => panic!("bad type"),
        },
        21..=24 => {
            let mut s = Scripted { script: script.iter().map(|x| beh_of(*x)).collect(), idx: 0, src: vec![0u8; c], pos: 0, sink: vec![] };
            obs(|| match op {
                21 => cr(t.read_volatile_from(addr, &mut s, b)),
                22 => cr(t.read_exact_volatile_from(addr, &mut s, b)),
                23 => cr(t.write_volatile_to(addr, &mut s, b)),
                _ => cr(t.write_all_volatile_to(addr, &mut s, b)),
            })
        }
        _ => panic!("bad bytes op"),
    }
}

/// an anonymous file of `size` bytes (0x3c everywhere)
fn memfile(size: usize) -> std::fs::File {
    use std::io::Write;
    use std::os::fd::FromRawFd;
    // SAFETY: plain syscall; the fresh descriptor is owned by the File
    let mut f = unsafe {
        let fd = libc::memfd_create(b"vmh07_file\0".as_ptr() as *const libc::c_char, 0);
        assert!(fd >= 0, "memfd_create");
        std::fs::File::from_raw_fd(fd)
    };
    f.write_all(&vec![0x3cu8; size]).unwrap();
    f
}

/// ops 61..64: the stream entry points of any Bytes<A> implementor with one of the crate's own adapters as the stream
fn own_stream_op<A: Copy, T: Bytes<A>>(t: &T, addr: A, op: u64, count: usize, k: u64, dlen: usize, pos: u64) -> u64 {
    let mut data = vec![0x3cu8; dlen];
    let rd = op == 61 || op == 62;
    macro_rules! reads {
        ($s:expr) => {{
            let mut s = $s;
            obs(|| if op == 61 { cr(t.read_volatile_from(addr, &mut s, count)) } else { cr(t.read_exact_volatile_from(addr, &mut s, count)) })
        }};
    }
    macro_rules! writes {
        ($s:expr) => {{
            let mut s = $s;
            obs(|| if op == 63 { cr(t.write_volatile_to(addr, &mut s, count)) } else { cr(t.write_all_volatile_to(addr, &mut s, count)) })
        }};
    }
    match (k, rd) {
        (0, true) => {
            assert!(pos <= dlen as u64);
            let s: &[u8] = &data[pos as usize..];
            reads!(s)
        }
        (1, false) => {
            assert!(pos <= dlen as u64);
            let s: &mut [u8] = &mut data[pos as usize..];
            writes!(s)
        }
        (2, false) => writes!(data),
        (3, true) => {
            let mut c = Cursor::new(&data[..]);
            c.set_position(pos);
            reads!(c)
        }
        (4, _) => {
            let mut c = Cursor::new(&mut data[..]);
            c.set_position(pos);
            if rd {
                reads!(c)
            } else {
                writes!(c)
            }
        }
        (5, true) => {
            let mut c = Cursor::new(data);
            c.set_position(pos);
            reads!(c)
        }
        (6, _) => {
            assert!(pos <= dlen as u64 + 1);
            let mut f = memfile(dlen);
            f.seek(SeekFrom::Start(pos)).unwrap();
            if rd {
                reads!(f)
            } else {
                writes!(f)
            }
        }
        _ => panic!("endpoint kind not applicable to this operation"),
    }
}

/// ops 65..69: typed bulk copies through any VolatileMemory implementor (real memory only)
fn copy_op<M: VolatileMemory>(m: &M, op: u64, ty: u64, a: usize, b: usize, c: usize) -> u64 {
    assert!(c as u64 <= SMALL || op == 69);
    macro_rules! typed {
        ($T:ty, $z:expr) => {
            match op {
                65 => obs(|| match m.get_slice(a, b) {
                    Ok(s) => {
                        let mut buf: Vec<$T> = vec![$z; c];
                        let _ = s.copy_to::<$T>(&mut buf[..]);
                        0
                    }
                    Err(_) => 1,
                }),
                66 => obs(|| match m.get_slice(a, b) {
                    Ok(s) => {
                        let buf: Vec<$T> = vec![$z; c];
                        s.copy_from::<$T>(&buf[..]);
                        0
                    }
                    Err(_) => 1,
                }),
                67 => obs(|| match m.get_array_ref::<$T>(a, b) {
                    Ok(arr) => {
                        let mut buf: Vec<$T> = vec![$z; c];
                        let _ = arr.copy_to(&mut buf[..]);
                        0
                    }
                    Err(_) => 1,
                }),
                68 => obs(|| match m.get_array_ref::<$T>(a, b) {
                    Ok(arr) => {
                        let buf: Vec<$T> = vec![$z; c];
                        arr.copy_from(&buf[..]);
                        0
                    }
                    Err(_) => 1,
                }),
                69 => obs(|| match m.get_array_ref::<$T>(a, b) {
                    Ok(arr) => match m.get_slice(c, m.len().saturating_sub(c)) {
                        Ok(d) => {
                            arr.copy_to_volatile_slice(d);
                            0
                        }
                        Err(_) => 1,
                    },
                    Err(_) => 1,
                }),
                _ => panic!("bad copy op"),
            }
        };
    }
    match ty {
        0 => typed!(u8, 0u8),
        1 => typed!(u16, 0u16),
        2 => typed!(u32, 0u32),
        3 => typed!(u64, 0u64),
        4 => typed!([u8; 3], [0u8; 3]),
        5 => typed!([u8; 16], [0u8; 16]),
        _ => panic!("bad element type"),
    }
}

fn slice_op(vs: &VolatileSlice<()>, real: bool, op: u64, ty: u64, a: u64, b: u64, c: u64, script: &[u128]) -> u64 {
    let (ua, ub, uc) = (a as usize, b as usize, c as usize);
    match op {
        1 => obs(|| cr(vs.subslice(ua, ub))),
        2 => obs(|| cr(vs.offset(ua))),
        3 => obs(|| cr(vs.split_at(ua))),
        10 => obs(|| cr(compute_offset(ua, ub))),
        0 | 4..=9 => vm_op(vs, op, ty, ua, ub, uc),
        11 | 12 if real => vm_op(vs, op, ty, ua, ub, uc),
        13..=24 if real => bytes_op(vs, |x| x as usize, op, ty, a, ub, uc, script),
        61..=64 if real => own_stream_op(vs, ua, op, ub, script[0] as u64, script[1] as usize, script[2] as u64),
        65..=69 if real => copy_op(vs, op, ty, ua, ub, uc),
        _ => panic!("op not applicable to this slice"),
    }
}

fn region_op(r: &GuestRegionMmap<()>, op: u64, ty: u64, a: u64, b: u64, c: u64, script: &[u128]) -> u64 {
    let (ua, ub, uc) = (a as usize, b as usize, c as usize);
    match op {
        0 | 4..=9 | 11 | 12 => {
            let mr: &MmapRegion<()> = r;
            vm_op(mr, op, ty, ua, ub, uc)
        }
        13..=24 => bytes_op(r, MemoryRegionAddress, op, ty, a, ub, uc, script),
        61..=64 => own_stream_op(r, MemoryRegionAddress(a), op, ub, script[0] as u64, script[1] as usize, script[2] as u64),
        65..=69 => {
            let mr: &MmapRegion<()> = r;
            copy_op(mr, op, ty, ua, ub, uc)
        }
        30 => obs(|| co(r.check_address(MemoryRegionAddress(a)))),
        31 => obs(|| {
            let _ = r.address_in_range(MemoryRegionAddress(a));
            0
        }),
        32 => obs(|| co(r.checked_offset(MemoryRegionAddress(a), ub))),
        33 => obs(|| co(r.to_region_addr(GuestAddress(a)))),
        34 => obs(|| cr(r.get_host_address(MemoryRegionAddress(a)))),
        35 => obs(|| cr(GuestMemoryRegion::get_slice(r, MemoryRegionAddress(a), ub))),
        36 => obs(|| {
            let _ = r.last_addr();
            0
        }),
        37 => obs(|| cr(GuestMemoryRegion::as_volatile_slice(r))),
        _ => panic!("op not applicable to a region"),
    }
}

fn guest_op<M: GuestMemory>(m: &M, op: u64, ty: u64, a: u64, b: u64, c: u64, script: &[u128]) -> u64 {
    let (ub, uc) = (b as usize, c as usize);
    let ga = GuestAddress(a);
    match op {
        13..=24 => bytes_op(m, GuestAddress, op, ty, a, ub, uc, script),
        61..=64 => own_stream_op(m, ga, op, ub, script[0] as u64, script[1] as usize, script[2] as u64),
        40 => obs(|| {
            let _ = m.address_in_range(ga);
            0
        }),
        41 => obs(|| co(m.check_address(ga))),
        42 => obs(|| co(m.checked_offset(ga, ub))),
        43 => obs(|| {
            let _ = m.check_range(ga, ub);
            0
        }),
        44 => obs(|| co(m.to_region_addr(ga))),
        45 => obs(|| cr(m.get_host_address(ga))),
        46 => obs(|| cr(m.get_slice(ga, ub))),
        47 => obs(|| {
            let _ = m.last_addr();
            0
        }),
        48 => obs(|| co(m.find_region(ga))),
        49 => obs(|| cr(m.try_access(ub, ga, |_off, len, _caddr, _r| Ok(len.saturating_add(uc))))),
        _ => panic!("op not applicable to guest memory"),
    }
}

fn bitmap_op(bm: AtomicBitmap, op: u64, a: usize, b: usize, c: usize) -> u64 {
    if (72..=76).contains(&op) {
        // impl Bitmap for Option<B>
        let ob: Option<AtomicBitmap> = if op == 76 { None } else { Some(bm) };
        return obs(|| {
            match op {
                72 => ob.mark_dirty(a, b),
                73 => {
                    let _ = ob.dirty_at(a);
                }
                74 => ob.slice_at(c).mark_dirty(a, b),
                75 => {
                    let _ = ob.slice_at(c).dirty_at(a);
                }
                _ => {
                    ob.mark_dirty(a, b);
                    let _ = ob.dirty_at(a);
                    ob.slice_at(c).mark_dirty(a, b);
                }
            };
            0
        });
    }
    let bm = &bm;
    obs(|| {
        match op {
            70 => RefSlice::new(bm, c).slice_at(a).slice_at(b).mark_dirty(a, b),
            71 => {
                let _ = RefSlice::new(bm, c).slice_at(a).slice_at(b).dirty_at(b);
            }
            50 => bm.set_addr_range(a, b),
            51 => bm.reset_addr_range(a, b),
            52 => bm.set_bit(a),
            53 => bm.reset_bit(a),
            54 => {
                let _ = bm.is_bit_set(a);
            }
            55 => {
                let _ = bm.is_addr_set(a);
            }
            56 => RefSlice::new(bm, c).mark_dirty(a, b),
            57 => {
                let _ = RefSlice::new(bm, c).dirty_at(a);
            }
            58 => {
                let _ = RefSlice::new(bm, c).slice_at(a).dirty_at(b);
            }
            _ => panic!("bad bitmap op"),
        };
        0
    })
}

fn pairs(par: &[u128]) -> Vec<(u64, u64)> {
    par.chunks(2).map(|c| (c[0] as u64, c[1] as u64)).collect()
}

fn exec(case: &[Tok]) -> Vec<Tok> {
    arm();
    let r = exec_inner(case);
    disarm();
    vec![n(r)]
}

fn exec_inner(case: &[Tok]) -> u64 {
    let tgt = case[1].u();
    let par = case[2].l();
    let (op, ty, a, b, c) = (case[3].u(), case[4].u(), case[5].u(), case[6].u(), case[7].u());
    let script = case[8].l();
    // the same size limits as small07 in coq/Suite/C07.v: a candidate beyond them is not a case
    assert!(par.len() <= 16 && script.len() <= 64 && ty <= 5);
    if (13..=16).contains(&op) {
        assert!(b <= SMALL);
    }
    if (21..=24).contains(&op) {
        assert!(c <= SMALL);
    }
    if (61..=64).contains(&op) {
        assert!(script.len() == 3 && script[1] <= SMALL as u128 && script[2] <= u64::MAX as u128);
    }
    if (65..=68).contains(&op) {
        assert!(c <= SMALL);
    }
    assert!(ty <= 3 || ((65..=69).contains(&op) && ty <= 5));
    match tgt {
        0 => {
            let (pre, len) = (par[0] as u64, par[1] as u64);
            assert!(par.len() == 2 && pre <= SMALL && len <= SMALL);
            let base = arena();
            // SAFETY: [pre, pre+len) lies inside the arena's two read/write pages
            let vs = unsafe { VolatileSlice::new(base.add(pre as usize), len as usize) };
            slice_op(&vs, true, op, ty, a, b, c, script)
        }
        1 => {
            let (addr, len) = (par[0] as u64, par[1] as u64);
            assert!(par.len() == 2 && addr >= 1 && addr.checked_add(len).is_some() && len <= isize::MAX as u64 && op <= 10);
            // SAFETY: never dereferenced: only the geometry methods are called on it
            let vs = unsafe { VolatileSlice::new(addr as usize as *mut u8, len as usize) };
            slice_op(&vs, false, op, ty, a, b, c, script)
        }
        2 => {
            let (g, len) = (par[0] as u64, par[1] as u64);
            assert!(par.len() == 2 && len >= 1 && len <= SMALL);
            let r = GuestRegionMmap::<()>::new(MmapRegion::new(len as usize).unwrap(), GuestAddress(g)).unwrap();
            region_op(&r, op, ty, a, b, c, script)
        }
        3 => {
            let lay = pairs(par);
            assert!(par.len() % 2 == 0 && !lay.is_empty() && lay.iter().all(|r| r.1 >= 1 && r.1 <= SMALL));
            let ranges: Vec<(GuestAddress, usize)> = lay.iter().map(|&(s, l)| (GuestAddress(s), l as usize)).collect();
            let gm = GuestMemoryMmap::<()>::from_ranges(&ranges).unwrap();
            guest_op(&gm, op, ty, a, b, c, script)
        }
        4 => {
            let lay = pairs(par);
            assert!(par.len() % 2 == 0 && !lay.is_empty() && lay.iter().all(|r| r.1 >= 1 && r.1 <= SMALL) && op != 21 && op != 22 && op != 23 && op != 24);
            let mm = MockMem { regions: lay.iter().map(|&(s, l)| MockRegion::new(s, l)).collect() };
            guest_op(&mm, op, ty, a, b, c, script)
        }
        5 => {
            let (bs, ps) = (par[0] as u64, par[1] as u64);
            assert!(par.len() == 2 && ps >= 1 && (bs as u128).div_ceil(ps as u128) <= 4096);
            let bm = AtomicBitmap::new(bs as usize, NonZeroUsize::new(ps as usize).unwrap());
            bitmap_op(bm, op, a as usize, b as usize, c as usize)
        }
        7 => {
            let (bs, ps, k) = (par[0] as u64, par[1] as u64, par[2] as u64);
            assert!(par.len() == 3 && ps >= 1 && bs.checked_add(k).is_some());
            assert!((bs as u128).div_ceil(ps as u128) <= 4096 && ((bs + k) as u128).div_ceil(ps as u128) <= 4096);
            // creating and enlarging is part of the case: a panic there is class 2 as well
            let made = util::catch(|| {
                let mut bm = AtomicBitmap::new(bs as usize, NonZeroUsize::new(ps as usize).unwrap());
                bm.enlarge(k as usize);
                bm
            });
            match made {
                Some(bm) => bitmap_op(bm, op, a as usize, b as usize, c as usize),
                None => 2,
            }
        }
        6 => {
            assert!(op == 60);
            obs(|| co(GuestAddress(a).checked_align_up(b)))
        }
        8 => {
            let (pre, oc) = (par[0] as u64, par[1] as u64);
            assert!(par.len() == 2 && pre <= 4080 && (op <= 20 || (65..=69).contains(&op)));
            let base = arena();
            macro_rules! object {
                ($T:ty) => {{
                    assert!(pre as usize % std::mem::align_of::<$T>() == 0);
                    // SAFETY: arena + pre .. + size_of::<T>() lies inside the arena's two read/write pages, is aligned
                    // for T, and nothing else refers to it during the call
                    let obj: &mut $T = unsafe { &mut *(base.add(pre as usize) as *mut $T) };
                    let vs = obj.as_bytes();
                    slice_op(&vs, true, op, ty, a, b, c, script)
                }};
            }
            match oc {
                0 => object!(u8),
                1 => object!(u16),
                2 => object!(u32),
                3 => object!(u64),
                4 => object!([u8; 3]),
                5 => object!([u8; 16]),
                6 => object!(u128),
                _ => panic!("bad object type"),
            }
        }
        9 => {
            let oc = par[0] as u64;
            assert!(par.len() == 1 && (80..=84).contains(&op) && a.checked_add(b).map_or(false, |e| e <= 4096));
            let base = arena();
            let (ua, ub) = (a as usize, b as usize);
            macro_rules! bv {
                ($T:ty) => {
                    match op {
                        80 => {
                            // SAFETY: arena[a .. a+b] lies inside the arena's two read/write pages
                            let s: &[u8] = unsafe { std::slice::from_raw_parts(base.add(ua), ub) };
                            obs(|| co(<$T>::from_slice(s)))
                        }
                        81 => {
                            // SAFETY: as above; nothing else refers to the arena during the call
                            let s: &mut [u8] = unsafe { std::slice::from_raw_parts_mut(base.add(ua), ub) };
                            obs(|| co(<$T>::from_mut_slice(s)))
                        }
                        82 => obs(|| {
                            let _z: $T = <$T>::zeroed();
                            0
                        }),
                        83 => obs(|| {
                            let z: $T = <$T>::zeroed();
                            (z.as_slice().len() != std::mem::size_of::<$T>() || z.as_slice().iter().any(|x| *x != 0)) as u64
                        }),
                        _ => obs(|| {
                            let mut z: $T = <$T>::zeroed();
                            (z.as_mut_slice().len() != std::mem::size_of::<$T>()) as u64
                        }),
                    }
                };
            }
            match oc {
                0 => bv!(u8),
                1 => bv!(u16),
                2 => bv!(u32),
                3 => bv!(u64),
                4 => bv!([u8; 3]),
                5 => bv!([u8; 16]),
                6 => bv!(u128),
                7 => bv!(vm_memory::Be32),
                _ => panic!("bad ByteValued type"),
            }
        }
        _ => panic!("bad target"),
    }
}

// ------------------------------------------------------------------------------------------- generator
const TOP: u64 = u64::MAX;

/// the boundary set B(len) of DESIGN section 6, plus values that make base + x cross 2^64
fn bset(len: u64, base: u64) -> Vec<u64> {
    let mut v = vec![0, 1, 2, 3, 7, 8, 9, 15, 16, 17, len.wrapping_sub(1), len, len.wrapping_add(1), len.wrapping_add(2),
        len / 2, len.wrapping_sub(8), len.wrapping_sub(7), len.wrapping_add(8),
        (1 << 12) - 1, 1 << 12, (1 << 12) + 1, (1 << 31) - 1, 1 << 31, (1 << 31) + 1, (1 << 32) - 1, 1 << 32, (1 << 32) + 1,
        (1 << 63) - 1, 1 << 63, (1 << 63) + 1, isize::MAX as u64 / 8, isize::MAX as u64 / 8 + 1, isize::MAX as u64 / 2 + 1,
        (1 << 61) - 1, 1 << 61, (1 << 61) + 1, (1 << 62), 1 << 60];
    for k in 0..=9u64 {
        v.push(TOP - k);
    }
    for d in [0u64, 1, 2, 8] {
        v.push(0u64.wrapping_sub(base).wrapping_sub(d)); // base + x = 2^64 - d
        v.push(0u64.wrapping_sub(base).wrapping_add(d));
        v.push(0u64.wrapping_sub(len).wrapping_sub(d)); // x + len = 2^64 - d
        v.push(0u64.wrapping_sub(base).wrapping_sub(len).wrapping_add(d));
    }
    v.sort();
    v.dedup();
    v
}
/// a short boundary set for the second / third argument
fn bmid(len: u64) -> Vec<u64> {
    let mut v = vec![0, 1, 2, 7, 8, 9, len.wrapping_sub(1), len, len.wrapping_add(1), 1 << 12, (1 << 32) + 1, (1 << 63) - 1, 1 << 63,
        (1 << 61), (1 << 60) + 1, TOP, TOP - 1, TOP - 7, 0u64.wrapping_sub(len)];
    v.sort();
    v.dedup();
    v
}
/// real buffer lengths
fn lens(len: u64) -> Vec<u64> {
    let mut v: Vec<u64> = vec![0, 1, 2, 7, 8, 9, len.wrapping_sub(1), len, len + 1, 64, SMALL];
    v.retain(|x| *x <= SMALL);
    v.sort();
    v.dedup();
    v
}
const SCRIPTS: &[&[u128]] = &[&[], &[0], &[0, 0, 0], &[2, 0], &[17, 2, 17, 0], &[3], &[1], &[0, 3]];

struct G<'a> {
    mode: u64,
    emit: &'a mut dyn FnMut(Vec<Tok>),
    keep: u64, // keep 1 case in `keep` of the bulk streams (quick tier); priority cases are always kept
    ctr: u64,
}
impl<'a> G<'a> {
    fn put(&mut self, tgt: u64, par: &[u64], op: u64, ty: u64, a: u64, b: u64, c: u64, x: &[u128]) {
        (self.emit)(vec![n(self.mode), n(tgt), Tok::of_u64s(par), n(op), n(ty), n(a), n(b), n(c), Tok::L(x.to_vec())]);
    }
    fn bulk(&mut self, tgt: u64, par: &[u64], op: u64, ty: u64, a: u64, b: u64, c: u64, x: &[u128]) {
        self.ctr += 1;
        if self.ctr % self.keep == 0 {
            self.put(tgt, par, op, ty, a, b, c, x);
        }
    }
}

/// ops 0..12 on a slice / region root of `len` bytes at host address `base`
fn gen_geom(g: &mut G, tgt: u64, par: &[u64], len: u64, base: u64, ops: &[u64]) {
    let bs = bset(len, base);
    let bm = bmid(len);
    for &op in ops {
        let tys: &[u64] = if (4..=8).contains(&op) || op == 11 || op == 12 { &[0, 1, 2, 3] } else { &[0] };
        for &ty in tys {
            let sz = 1u64 << ty;
            match op {
                2 | 3 | 4 | 6 | 7 => {
                    for &a in &bs {
                        g.bulk(tgt, par, op, ty, a, 0, 0, &[]);
                    }
                }
                0 | 1 | 9 | 10 => {
                    for &a in &bs {
                        for &b in &bm {
                            g.bulk(tgt, par, op, ty, a, b, 0, &[]);
                        }
                    }
                    for &a in &bm {
                        for &b in &bs {
                            g.bulk(tgt, par, op, ty, a, b, 0, &[]);
                        }
                    }
                }
                5 => {
                    // element counts: around len/sz, isize::MAX/sz, 2^64/sz, isize::MAX, usize::MAX
                    let mut ns = bmid(len / sz);
                    ns.extend([(isize::MAX as u64) / sz, (isize::MAX as u64) / sz + 1, TOP / sz, (TOP / sz).wrapping_add(1), isize::MAX as u64, (isize::MAX as u64) + 1]);
                    for &a in &bs {
                        for &b in &ns {
                            g.bulk(tgt, par, op, ty, a, b, 0, &[]);
                        }
                    }
                }
                _ => {
                    // 8 / 11 / 12: array of b elements at a, index c
                    let offs = [0u64, 1, sz, len.wrapping_sub(sz), len, TOP, TOP - sz + 1];
                    let cnts = [0u64, 1, 2, len / sz, len / sz + 1, (isize::MAX as u64) / sz, TOP];
                    for &a in &offs {
                        for &b in &cnts {
                            for &c in &[0u64, 1, b.wrapping_sub(1), b, b.wrapping_add(1), 1 << 63, TOP, TOP / sz, (TOP / sz).wrapping_add(1)] {
                                g.bulk(tgt, par, op, ty, a, b, c, &[]);
                            }
                        }
                    }
                }
            }
        }
    }
}

/// ops 13..24 on a Bytes implementor whose interesting boundary is `len` (container size or region end)
fn gen_bytes(g: &mut G, tgt: u64, par: &[u64], addrs: &[u64], len: u64, streams: bool) {
    for &a in addrs {
        for op in 13..=16u64 {
            for &b in &lens(len) {
                g.bulk(tgt, par, op, 0, a, b, 0, &[]);
            }
        }
        for op in 17..=20u64 {
            for ty in 0..=3u64 {
                g.bulk(tgt, par, op, ty, a, 0, 0, &[]);
            }
        }
        if streams {
            for op in 21..=24u64 {
                for &b in &bmid(len) {
                    for (i, sc) in SCRIPTS.iter().enumerate() {
                        let c = [0u64, 5, 64, SMALL][i % 4];
                        g.bulk(tgt, par, op, 0, a, b, c, sc);
                    }
                }
                // the seeded class: an offset strictly greater than the length, any count, a willing stream
                g.put(tgt, par, op, 0, a, 1, 8, &[0]);
                g.put(tgt, par, op, 0, a, TOP, 8, &[0, 0]);
            }
        }
    }
}

/// ops 61..64 with every adapter of the crate as the stream; positions 0, mid, len, len+1, 2^63, u64::MAX (cursors)
fn gen_own(g: &mut G, tgt: u64, par: &[u64], addrs: &[u64], len: u64) {
    let counts = [0u64, 1, 8, len, len.wrapping_add(1), SMALL, 1 << 63, TOP];
    for op in 61..=64u64 {
        let kinds: &[u64] = if op <= 62 { &[0, 3, 4, 5, 6] } else { &[1, 2, 4, 6] };
        for &k in kinds {
            for &dlen in &[0u64, 5, 64] {
                let mut poss: Vec<u64> = vec![0, dlen / 2, dlen];
                if k >= 3 {
                    poss.push(dlen + 1);
                }
                if (3..=5).contains(&k) {
                    poss.extend([1 << 63, TOP, TOP - dlen, (1 << 32) + 1]);
                }
                poss.sort();
                poss.dedup();
                for &pos in &poss {
                    let x = [k as u128, dlen as u128, pos as u128];
                    let past = pos > dlen;
                    for &a in addrs {
                        for &b in &counts {
                            // the seeded class (a stream positioned past its end) is never thinned out on the first address
                            if past && a == addrs[0] && (b == 0 || b == 1 || b == 8 || b == TOP) {
                                g.put(tgt, par, op, 0, a, b, 0, &x);
                            } else {
                                g.bulk(tgt, par, op, 0, a, b, 0, &x);
                            }
                        }
                    }
                }
            }
        }
    }
}

/// ops 65..69 on a container of `len` bytes: element types incl. [u8;3] and [u8;16], huge element counts
fn gen_copy(g: &mut G, tgt: u64, par: &[u64], len: u64) {
    let offs = [0u64, 1, 3, len / 2, len.wrapping_sub(1), len, len.wrapping_add(1), 1 << 63, TOP];
    for ty in 0..=5u64 {
        let sz = [1u64, 2, 4, 8, 3, 16][ty as usize];
        let bufs = [0u64, 1, 2, len / sz, (len / sz + 1).min(SMALL), 64];
        for op in [65u64, 66] {
            for &a in &offs {
                for &b in &[0u64, 1, sz - 1, sz, sz + 1, 2 * sz + 1, len / 2, len.wrapping_sub(a), len.wrapping_sub(a).wrapping_add(1), len, TOP, TOP - a] {
                    for &c in &bufs {
                        g.bulk(tgt, par, op, ty, a, b, c, &[]);
                    }
                }
            }
            // whole container, sizes that do not divide it
            g.put(tgt, par, op, ty, 0, len, (len / sz + 1).min(SMALL), &[]);
            g.put(tgt, par, op, ty, 0, len, 1, &[]);
        }
        for op in [67u64, 68, 69] {
            let ns = [0u64, 1, 2, len / sz, len / sz + 1, (isize::MAX as u64) / sz, (isize::MAX as u64) / sz + 1, TOP / sz, (TOP / sz).wrapping_add(1), isize::MAX as u64, 1 << 63, TOP];
            for &a in &offs {
                for &b in &ns {
                    let cs: &[u64] = if op == 69 { &[0, 1, len / 2, len, len + 1, 1 << 63, TOP] } else { &bufs };
                    for &c in cs {
                        g.bulk(tgt, par, op, ty, a, b, c, &[]);
                    }
                }
            }
            g.put(tgt, par, op, ty, 0, len / sz, if op == 69 { 0 } else { (len / sz + 1).min(SMALL) }, &[]);
            g.put(tgt, par, op, ty, 0, TOP, 1, &[]);
        }
    }
}

fn gen(rng: &mut Rng, tier: Tier, emit: &mut dyn FnMut(Vec<Tok>)) {
    let quick = tier == Tier::Quick;
    let mut g = G { mode: crate::build_mode(), emit, keep: if quick { 24 } else { 2 }, ctr: 0 };
    let hb = HB as u64;

    // (a) VolatileSlice over a real buffer
    for &(pre, len) in &[(0u64, 0u64), (0, 1), (0, 8), (3, 61), (0, 4096), (4096, 4096), (4088, 8), (1, 4095)] {
        let par = [pre, len];
        let all: Vec<u64> = (0..=12).collect();
        gen_geom(&mut g, 0, &par, len, hb + pre, &all);
        gen_bytes(&mut g, 0, &par, &bset(len, hb + pre), len, true);
        gen_copy(&mut g, 0, &par, len);
    }
    for &(pre, len) in &[(0u64, 0u64), (3, 61), (4088, 8), (0, 4096)] {
        gen_own(&mut g, 0, &[pre, len], &[0, 1, len / 2, len.wrapping_sub(1), len, len + 1, 1 << 63, TOP], len);
    }
    // (a'') the VolatileSlice ByteValued::as_bytes() gives over an object of every type, then every accessor
    for oc in 0..=6u64 {
        let (sz, al) = [(1u64, 1u64), (2, 2), (4, 4), (8, 8), (3, 1), (16, 1), (16, 16)][oc as usize];
        for &pre in &[0u64, 16, 4080, 3] {
            if pre % al != 0 {
                continue;
            }
            let par = [pre, oc];
            let all: Vec<u64> = (0..=12).collect();
            gen_geom(&mut g, 8, &par, sz, hb + pre, &all);
            gen_bytes(&mut g, 8, &par, &bset(sz, hb + pre), sz, false);
            gen_copy(&mut g, 8, &par, sz);
        }
    }
    // (a') fake ranges near the top of the host address space, around 2^63, and tiny
    for &(addr, len) in &[(TOP - 8, 8u64), (TOP - 16, 9), (TOP - 4096, 4095), (1u64 << 63, 1 << 62), ((1 << 63) - 4, 8), (1, isize::MAX as u64), (4096, 0), (TOP, 0), (1 << 40, 1 << 40)] {
        let par = [addr, len];
        let all: Vec<u64> = (0..=10).collect();
        gen_geom(&mut g, 1, &par, len, addr, &all);
    }
    // (a''') ByteValued::from_slice / from_mut_slice on buffers of every length around size_of T at every misalignment
    // of a 16-aligned backing array; zeroed / as_slice / as_mut_slice
    for oc in 0..=7u64 {
        let sz = [1u64, 2, 4, 8, 3, 16, 16, 4][oc as usize];
        for a in (0..=17u64).chain([32, 4080, 4095, 4096]) {
            let mut bs = vec![0u64, 1, sz.wrapping_sub(1), sz, sz + 1, 2 * sz, 3, 15, 16, 17, 32];
            bs.sort();
            bs.dedup();
            for &b in &bs {
                if a + b <= 4096 {
                    g.put(9, &[oc], 80, 0, a, b, 0, &[]);
                    g.put(9, &[oc], 81, 0, a, b, 0, &[]);
                }
            }
        }
        for op in 82..=84u64 {
            g.put(9, &[oc], op, 0, 0, 0, 0, &[]);
        }
    }
    // (b) GuestRegionMmap: at guest address 0, ending at 2^64-2, around 2^63 and 2^32
    for &(gb, len) in &[(0u64, 16u64), (TOP - 16, 16), (TOP - 4096, 4096), ((1 << 63) - 8, 16), (0x1000, 1), ((1 << 32) - 4, 9)] {
        let par = [gb, len];
        gen_geom(&mut g, 2, &par, len, hb, &[0, 4, 5, 6, 7, 8, 9, 11, 12]);
        gen_bytes(&mut g, 2, &par, &bset(len, gb), len, true);
        for &a in &bset(len, gb) {
            for op in [30u64, 31, 33, 34] {
                g.bulk(2, &par, op, 0, a, 0, 0, &[]);
            }
            for op in [32u64, 35] {
                for &b in &bmid(len) {
                    g.bulk(2, &par, op, 0, a, b, 0, &[]);
                }
            }
            // to_region_addr takes a GUEST address: around the base too
            g.bulk(2, &par, 33, 0, gb.wrapping_add(a), 0, 0, &[]);
            g.bulk(2, &par, 33, 0, gb.wrapping_sub(a), 0, 0, &[]);
        }
        g.bulk(2, &par, 36, 0, 0, 0, 0, &[]);
        g.bulk(2, &par, 37, 0, 0, 0, 0, &[]);
        gen_copy(&mut g, 2, &par, len);
        gen_own(&mut g, 2, &par, &[0, 1, len - 1, len, len + 1, 1 << 63, TOP], len);
    }
    // (c) GuestMemoryMmap and (e) MockMem layouts: region at 0, adjacent regions, a region whose last
    // byte is 2^64-2 (mmap) / 2^64-1 (mock), regions around 2^63 and 2^32, unsorted mock collections
    let mmap_lays: Vec<Vec<u64>> = vec![
        vec![0, 16, 16, 8, 4096, 32],
        vec![0, 8, TOP - 16, 16],
        vec![TOP - 4096, 4096],
        vec![(1 << 63) - 4, 8, (1 << 63) + 4, 4],
        vec![(1 << 32) - 8, 16, 1 << 40, 1],
        vec![0, 1, 1, 1, 2, 1, 3, 1, 5, 1, TOP - 1, 1],
    ];
    let mock_lays: Vec<Vec<u64>> = vec![
        vec![TOP - 7, 8, 0, 16, 16, 4],
        vec![TOP - 15, 16],
        vec![0, 16, 16, 8, 4096, 32],
        vec![TOP, 1, 0, 1],
        vec![(1 << 63) - 4, 8, 0, 4096],
    ];
    for (tgt, lays) in [(3u64, &mmap_lays), (4u64, &mock_lays)] {
        for par in lays.iter() {
            // addresses: around every region start / end, plus the global set
            let mut addrs = bset(16, par[0]);
            for r in par.chunks(2) {
                for d in 0..=2u64 {
                    addrs.extend([r[0].wrapping_sub(d), r[0].wrapping_add(d), r[0].wrapping_add(r[1]).wrapping_sub(d), r[0].wrapping_add(r[1]).wrapping_add(d)]);
                }
            }
            addrs.sort();
            addrs.dedup();
            for &a in &addrs {
                for op in [40u64, 41, 44, 45, 48] {
                    g.bulk(tgt, par, op, 0, a, 0, 0, &[]);
                }
                for op in [42u64, 43, 46] {
                    for &b in &bmid(16) {
                        g.bulk(tgt, par, op, 0, a, b, 0, &[]);
                    }
                    g.bulk(tgt, par, op, 0, a, 0u64.wrapping_sub(a), 0, &[]);
                    g.bulk(tgt, par, op, 0, a, 0u64.wrapping_sub(a).wrapping_add(1), 0, &[]);
                    g.bulk(tgt, par, op, 0, a, 0u64.wrapping_sub(a).wrapping_sub(1), 0, &[]);
                }
                // try_access with a callback that over-reports by c
                for &b in &[0u64, 1, 8, 17, 25, 4096, 1 << 63, TOP] {
                    for &c in &[0u64, 1, 2, 8, 4096, TOP - 1, TOP] {
                        g.bulk(tgt, par, 49, 0, a, b, c, &[]);
                    }
                }
            }
            g.bulk(tgt, par, 47, 0, 0, 0, 0, &[]);
            gen_bytes(&mut g, tgt, par, &addrs, 16, tgt == 3);
            if tgt == 3 {
                // the crate's own adapters as the stream: around the first region, across adjacent regions, at the top
                let last = par.len() - 2;
                let own_addrs = [par[0], par[0].wrapping_add(1), par[0].wrapping_add(par[1]).wrapping_sub(1), par[0].wrapping_add(par[1]),
                    par[last], par[last].wrapping_add(par[last + 1]).wrapping_sub(1), TOP, 1 << 63];
                gen_own(&mut g, tgt, par, &own_addrs, par[1]);
            }
        }
    }
    // (d) AtomicBitmap / BaseSlice: page sizes 1 and 4096 (and odd ones), huge ranges.  With page size 1
    // and len = usize::MAX the range loop must stop at the page count (the `break`), not at the range end.
    for &(bsz, ps) in &[(0u64, 1u64), (1, 1), (64, 1), (65, 1), (4096, 1), (4096, 4096), (4097, 4096), (1 << 20, 4096), (10, 3), (1 << 24, 4096), (TOP, 1 << 52), (TOP, TOP), (1 << 63, 1 << 51)] {
        let par = [bsz, ps];
        let pages = ((bsz as u128 + ps as u128 - 1) / ps as u128) as u64;
        for op in [50u64, 51, 56, 70, 72, 74, 76] {
            for &(a, b) in &[(0u64, TOP), (0, 0), (TOP, TOP), (1, TOP - 1), (TOP, 0), (0, 1), (bsz, TOP), (0, bsz)] {
                g.put(5, &par, op, 0, a, b, 0, &[]);
                if op >= 70 {
                    g.put(5, &par, op, 0, a, b, TOP, &[]);
                    g.put(5, &par, op, 0, a, b, 0u64.wrapping_sub(a), &[]);
                }
            }
        }
        // the bit and address primitives at usize::MAX
        for op in [52u64, 53, 54, 55, 71, 73, 75] {
            g.put(5, &par, op, 0, TOP, TOP, TOP, &[]);
            g.put(5, &par, op, 0, TOP, 0, 1, &[]);
        }
        let mut av = bset(bsz, 0);
        av.extend([pages.wrapping_sub(1), pages, pages + 1, pages.wrapping_mul(ps), pages.wrapping_mul(ps).wrapping_sub(1), 63, 64, 65]);
        av.sort();
        av.dedup();
        for &a in &av {
            for op in [52u64, 53, 54, 55] {
                g.bulk(5, &par, op, 0, a, 0, 0, &[]);
            }
            for &b in &bmid(bsz) {
                for op in [50u64, 51] {
                    g.bulk(5, &par, op, 0, a, b, 0, &[]);
                }
                for &c in &[0u64, 1, ps, TOP, 0u64.wrapping_sub(a), 0u64.wrapping_sub(a).wrapping_add(1), 1 << 63] {
                    g.bulk(5, &par, 56, 0, a, b, c, &[]);
                    g.bulk(5, &par, 58, 0, a, b, c, &[]);
                    for op in [70u64, 71, 74, 75, 76] {
                        g.bulk(5, &par, op, 0, a, b, c, &[]);
                    }
                }
                g.bulk(5, &par, 72, 0, a, b, 0, &[]);
                g.bulk(5, &par, 73, 0, a, b, 0, &[]);
            }
            for &c in &[0u64, 1, ps, TOP, 0u64.wrapping_sub(a), 1 << 63] {
                g.bulk(5, &par, 57, 0, a, 0, c, &[]);
            }
        }
    }
    // (d') bitmaps that were ENLARGED: byte sizes before / after around multiples of 64 pages, with and without a
    // partial last page; the word vector must be sized from the rounded-up page count, so every request that
    // touches the last page (or runs over the whole range) must return
    for &ps in &[1u64, 3, 4096] {
        for &p0 in &[0u64, 1, 64, 65] {
            for &j in &[1u64, 2, 3, 63] {
                let mut fs = vec![0u64, 1, ps, ps + 1];
                if ps > 1 {
                    fs.push(ps - 1);
                    fs.push(ps / 2);
                }
                fs.sort();
                fs.dedup();
                for &f in &fs {
                    let total = 64 * j * ps + f;
                    for &bsz in &[p0 * ps, (p0 * ps).saturating_sub(1), p0 * ps + ps / 2] {
                        if bsz > total {
                            continue;
                        }
                        let k = total - bsz;
                        let par = [bsz, ps, k];
                        let pages = ((total as u128 + ps as u128 - 1) / ps as u128) as u64;
                        if pages > 4096 {
                            continue;
                        }
                        let lastp = pages.wrapping_sub(1);
                        for op in [52u64, 53, 54] {
                            g.put(7, &par, op, 0, lastp, 0, 0, &[]);
                            g.bulk(7, &par, op, 0, pages, 0, 0, &[]);
                            g.bulk(7, &par, op, 0, 64 * j, 0, 0, &[]);
                            g.bulk(7, &par, op, 0, (64 * j).wrapping_sub(1), 0, 0, &[]);
                        }
                        g.put(7, &par, 55, 0, total.wrapping_sub(1), 0, 0, &[]);
                        g.put(7, &par, 57, 0, total.wrapping_sub(1), 0, 0, &[]);
                        g.bulk(7, &par, 58, 0, lastp.wrapping_mul(ps), 0, 0, &[]);
                        for op in [70u64, 72, 74] {
                            g.bulk(7, &par, op, 0, total.wrapping_sub(1), 1, 0, &[]);
                            g.bulk(7, &par, op, 0, 0, TOP, 0, &[]);
                        }
                        for op in [50u64, 51, 56] {
                            g.put(7, &par, op, 0, total.wrapping_sub(1), 1, 0, &[]);
                            g.put(7, &par, op, 0, 0, TOP, 0, &[]);
                            g.bulk(7, &par, op, 0, lastp.wrapping_mul(ps), 1, 0, &[]);
                            g.bulk(7, &par, op, 0, 0, total, 0, &[]);
                            g.bulk(7, &par, op, 0, bsz, k, 0, &[]);
                            g.bulk(7, &par, op, 0, TOP, TOP, 0, &[]);
                        }
                    }
                }
            }
        }
    }
    // (f) checked_align_up: powers of two return, everything else is the documented panic
    for &a in &util::boundary_u64(0x1234_5678_9abc_def0) {
        for k in 0..64u32 {
            g.bulk(6, &[], 60, 0, a, 1u64 << k, 0, &[]);
        }
        for p in [0u64, 3, 6, 12, TOP, (1 << 63) + 1] {
            g.bulk(6, &[], 60, 0, a, p, 0, &[]);
        }
    }
    // random mix: random entry point, random boundary / uniform arguments
    let nrand = if quick { 6_000 } else { 400_000 };
    let slice_pars: [[u64; 2]; 3] = [[0, 64], [5, 100], [4000, 96]];
    for _ in 0..nrand {
        let pick = |rng: &mut Rng, len: u64, base: u64| -> u64 {
            match rng.below(4) {
                0 => rng.next(),
                1 => rng.below(len + 3),
                _ => {
                    let b = bset(len, base);
                    *rng.pick(&b)
                }
            }
        };
        match rng.below(6) {
            5 => {
                // an enlarged bitmap: random sizes around the 64-page multiples
                let ps = *rng.pick(&[1u64, 7, 4096]);
                let total = 64 * rng.range(1, 8) * ps + *rng.pick(&[0u64, 1, ps - 1, ps / 2, ps + 1]);
                let bsz = rng.below(total + 1);
                let par = [bsz, ps, total - bsz];
                let pages = (total + ps - 1) / ps;
                let op = *rng.pick(&[50u64, 51, 52, 53, 54, 55, 56, 57, 58, 70, 71, 72, 73, 74, 75, 76]);
                let a = match rng.below(4) {
                    0 => pages.wrapping_sub(1),
                    1 => total.wrapping_sub(rng.below(3)),
                    2 => pick(rng, total, 0),
                    _ => pages.wrapping_sub(1).wrapping_mul(ps),
                };
                g.put(7, &par, op, 0, a, pick(rng, total, 0), pick(rng, total, 0), &[]);
            }
            0 => {
                let par = *rng.pick(&slice_pars);
                let op = rng.below(25);
                let (a, mut b, mut c) = (pick(rng, par[1], hb + par[0]), pick(rng, par[1], 0), pick(rng, par[1], 0));
                if (13..=16).contains(&op) {
                    b %= SMALL + 1;
                }
                let sc: &[u128] = if op >= 21 { *rng.pick(SCRIPTS) } else { &[] };
                if op >= 21 {
                    c %= SMALL + 1;
                }
                g.put(0, &par, op, rng.below(4), a, b, c, sc);
            }
            1 => {
                let par = [rng.pick(&[0u64, 0x1000, TOP - 64, (1 << 63) - 32]).clone(), 64];
                let op = *rng.pick(&[0u64, 4, 5, 6, 7, 8, 9, 11, 12, 13, 14, 15, 16, 17, 18, 19, 20, 21, 22, 23, 24, 30, 31, 32, 33, 34, 35]);
                let (a, mut b, mut c) = (pick(rng, 64, par[0]), pick(rng, 64, 0), pick(rng, 64, 0));
                if (13..=16).contains(&op) {
                    b %= SMALL + 1;
                }
                let sc: &[u128] = if (21..=24).contains(&op) { *rng.pick(SCRIPTS) } else { &[] };
                if (21..=24).contains(&op) {
                    c %= SMALL + 1;
                }
                g.put(2, &par, op, rng.below(4), a, b, c, sc);
            }
            2 | 3 => {
                let (tgt, par) = if rng.bool() { (3u64, rng.pick(&mmap_lays).clone()) } else { (4u64, rng.pick(&mock_lays).clone()) };
                let mut ops: Vec<u64> = (13..=20).chain(40..=49).collect();
                if tgt == 3 {
                    ops.extend(21..=24u64);
                }
                let op = *rng.pick(&ops);
                let r = rng.below(par.len() as u64 / 2) as usize;
                let (a, mut b, mut c) = (pick(rng, par[2 * r + 1], 0).wrapping_add(par[2 * r]), pick(rng, 32, 0), pick(rng, 32, 0));
                if (13..=16).contains(&op) {
                    b %= SMALL + 1;
                }
                let sc: &[u128] = if (21..=24).contains(&op) { *rng.pick(SCRIPTS) } else { &[] };
                if (21..=24).contains(&op) {
                    c %= SMALL + 1;
                }
                g.put(tgt, &par, op, rng.below(4), a, b, c, sc);
            }
            _ => {
                let par = *rng.pick(&[[1000u64, 1], [1 << 20, 4096], [100, 7]]);
                let op = *rng.pick(&[50u64, 51, 52, 53, 54, 55, 56, 57, 58, 70, 71, 72, 73, 74, 75, 76]);
                g.put(5, &par, op, 0, pick(rng, par[0], 0), pick(rng, par[0], 0), pick(rng, par[0], 0), &[]);
            }
        }
    }
}
