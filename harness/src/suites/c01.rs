//! C01: every accessor handed out stays inside its parent memory and is aligned.
//!
//! case:  mode rootkind base len [gbase0,size0,...] [code,ty,a,b]*
//! obs:   first_class [class,off,len,glen,nelem,ridx]*   (one list per request; first_class repeats
//!        the class of the first answer, 3f if there is no request)
//!
//! rootkind 0: VolatileSlice over a REAL buffer, mapped at the fixed address `base` (the pages it
//!             occupies are read/write, the page before and the page after are PROT_NONE);
//!          1: VolatileSlice over a FAKE range (unsafe VolatileSlice::new, never dereferenced),
//!             used to reach the pointer-overflow branches near usize::MAX;
//!          2/3/4: MmapRegion / GuestRegionMmap / GuestMemoryMmap over the listed regions;
//!          5/6/7: third-party `VolatileMemory` implementors (struct Odd), 8: a chunked one (struct
//!             Chunked, the list then holds [chunk, gap]) - suite C01impl.
//! Requests (code): see coq/Spec/C01.v.  A chain continues from the last accessor obtained.
//! Observation of an accessor: pointer of its guard (or the reference itself) minus the root's
//! base, its own len(), the guard's len(), the element count.  For real roots the first and the
//! last designated byte are also read: an accessor reaching into a guard page kills the process
//! (SIGSEGV), which ./check reports with the case that did it.
use crate::tok::n;
use crate::{util, Rng, Suite, Tier, Tok};
use std::sync::atomic::{AtomicU16, AtomicU32, AtomicU64, AtomicU8, Ordering};
use vm_memory::volatile_memory::Error as VErr;
use vm_memory::{
    AtomicInteger, Be64, ByteValued, GuestAddress, GuestMemory, GuestMemoryError, GuestMemoryMmap, GuestMemoryRegion,
    GuestRegionMmap, Le32, MemoryRegionAddress, MmapRegion, VolatileArrayRef, VolatileMemory, VolatileRef,
    VolatileSlice,
};

pub const SUITES: &[Suite] = &[
    Suite { name: "C01", gen: gen_single, exec },
    Suite { name: "C01chain", gen: gen_chain, exec },
    Suite { name: "C01reg", gen: gen_reg, exec },
    Suite { name: "C01impl", gen: gen_impl, exec },
];

const PAGE: usize = 4096;
/// where real parents are mapped: far from the binary, the heap and the mmap area
const REAL_LO: usize = 0x2000_0000_0000;
const GUARD_PANIC: u128 = 1u128 << 64;

type VS = VolatileSlice<'static, ()>;

// ------------------------------------------------------------------ element types
// 0..8 the original nine; 9..16 wide and odd arrays (the crate provides ByteValued for arrays of up
// to 32 elements); 17, 18 the value types of the third-party atomics Pair and Quad below
const NTY: u64 = 19;
const TY_SIZE: [usize; 19] = [1, 2, 4, 8, 16, 0, 3, 4, 8, 17, 24, 31, 32, 18, 20, 32, 256, 8, 16];
const TY_ALIGN: [usize; 19] = [1, 2, 4, 8, 16, 1, 1, 4, 8, 1, 1, 1, 1, 2, 4, 8, 8, 4, 8];
/// type ids that name an atomic type in get_atomic_ref, with the ATOMIC type's alignment
const ATOMIC_TYS: [u64; 6] = [0, 1, 2, 3, 17, 18];
fn atomic_align(ty: u64) -> u64 {
    match ty {
        17 => 8,
        18 => 16,
        _ => TY_ALIGN[ty as usize] as u64,
    }
}

/// Third-party `AtomicInteger` implementors whose VALUE type is under-aligned relative to the
/// atomic itself (the trait is public and `unsafe` precisely so that users can add their own; std's
/// AtomicU64 / u64 on 32-bit x86 are such a pair too): an atomic REFERENCE must sit at a multiple
/// of align_of::<Pair>() = 8 although align_of::<[u32; 2]>() = 4.  Only references are taken in
/// this suite; load/store exist because the trait demands them.
#[repr(C, align(8))]
struct Pair(AtomicU64);
// SAFETY: consists of one std atomic integer
unsafe impl AtomicInteger for Pair {
    type V = [u32; 2];
    fn new(v: [u32; 2]) -> Self {
        Pair(AtomicU64::new((v[0] as u64) | ((v[1] as u64) << 32)))
    }
    fn load(&self, order: Ordering) -> [u32; 2] {
        let x = self.0.load(order);
        [x as u32, (x >> 32) as u32]
    }
    fn store(&self, v: [u32; 2], order: Ordering) {
        self.0.store((v[0] as u64) | ((v[1] as u64) << 32), order)
    }
}
/// 16 bytes, alignment 16, value type [u64; 2] of alignment 8
#[repr(C, align(16))]
struct Quad(AtomicU64, AtomicU64);
// SAFETY: consists of two std atomic integers
unsafe impl AtomicInteger for Quad {
    type V = [u64; 2];
    fn new(v: [u64; 2]) -> Self {
        Quad(AtomicU64::new(v[0]), AtomicU64::new(v[1]))
    }
    fn load(&self, order: Ordering) -> [u64; 2] {
        [self.0.load(order), self.1.load(order)]
    }
    fn store(&self, v: [u64; 2], order: Ordering) {
        self.0.store(v[0], order);
        self.1.store(v[1], order)
    }
}

macro_rules! with_ty {
    ($ty:expr, $T:ident => $e:expr) => {
        match $ty {
            0 => { type $T = u8; $e }
            1 => { type $T = u16; $e }
            2 => { type $T = u32; $e }
            3 => { type $T = u64; $e }
            4 => { type $T = u128; $e }
            5 => { type $T = [u8; 0]; $e }
            6 => { type $T = [u8; 3]; $e }
            7 => { type $T = Le32; $e }
            8 => { type $T = Be64; $e }
            9 => { type $T = [u8; 17]; $e }
            10 => { type $T = [u8; 24]; $e }
            11 => { type $T = [u8; 31]; $e }
            12 => { type $T = [u8; 32]; $e }
            13 => { type $T = [u16; 9]; $e }
            14 => { type $T = [u32; 5]; $e }
            15 => { type $T = [u64; 4]; $e }
            16 => { type $T = [u64; 32]; $e }
            17 => { type $T = [u32; 2]; $e }
            18 => { type $T = [u64; 2]; $e }
            _ => panic!("bad type id"),
        }
    };
}
macro_rules! with_atomic {
    ($ty:expr, $T:ident => $e:expr) => {
        match $ty {
            0 => { type $T = AtomicU8; $e }
            1 => { type $T = AtomicU16; $e }
            2 => { type $T = AtomicU32; $e }
            3 => { type $T = AtomicU64; $e }
            17 => { type $T = Pair; $e }
            18 => { type $T = Quad; $e }
            _ => panic!("bad atomic type id"),
        }
    };
}

// ------------------------------------------------------------------ type-erased refs / arrays
trait DynRef {
    fn to_slice(&self) -> VS;
    fn guard(&self) -> (usize, usize);
    fn len(&self) -> usize;
}
impl<T: ByteValued + 'static> DynRef for VolatileRef<'static, T, ()> {
    fn to_slice(&self) -> VS {
        VolatileRef::to_slice(self)
    }
    fn guard(&self) -> (usize, usize) {
        let g = self.ptr_guard();
        let gm = self.ptr_guard_mut();
        assert!(g.as_ptr() as usize == gm.as_ptr() as usize && g.len() == gm.len());
        (g.as_ptr() as usize, g.len())
    }
    fn len(&self) -> usize {
        VolatileRef::len(self)
    }
}
trait DynArr {
    fn to_slice(&self) -> VS;
    fn ref_at(&self, i: usize) -> Box<dyn DynRef>;
    fn guard(&self) -> (usize, usize);
    fn len(&self) -> usize;
    fn element_size(&self) -> usize;
}
impl<T: ByteValued + 'static> DynArr for VolatileArrayRef<'static, T, ()> {
    fn to_slice(&self) -> VS {
        VolatileArrayRef::to_slice(self)
    }
    fn ref_at(&self, i: usize) -> Box<dyn DynRef> {
        Box::new(VolatileArrayRef::ref_at(self, i))
    }
    fn guard(&self) -> (usize, usize) {
        let g = self.ptr_guard();
        let gm = self.ptr_guard_mut();
        assert!(g.as_ptr() as usize == gm.as_ptr() as usize && g.len() == gm.len());
        (g.as_ptr() as usize, g.len())
    }
    fn len(&self) -> usize {
        VolatileArrayRef::len(self)
    }
    fn element_size(&self) -> usize {
        VolatileArrayRef::element_size(self)
    }
}

// ------------------------------------------------------------------ third-party implementors
/// A `VolatileMemory` implementor the crate did not write (root kinds 5, 6, 7): its `get_slice`
/// stays inside [base, base+len) but does not return `count` bytes - it clamps the count (5),
/// returns the rest of the memory (6) or one byte less than asked (7).  The PROVIDED trait
/// methods must still not hand out a typed accessor reaching past the slice they were given.
/// The address range is never dereferenced.  Transcribed as `impl_gs` in coq/Suite/C01impl.v.
struct Odd {
    base: usize,
    len: usize,
    k: u64,
}
impl VolatileMemory for Odd {
    type B = ();
    fn len(&self) -> usize {
        self.len
    }
    fn get_slice(&self, offset: usize, count: usize) -> Result<VolatileSlice<'_, ()>, VErr> {
        if offset > self.len {
            return Err(VErr::OutOfBounds { addr: offset });
        }
        let n = match self.k {
            5 => std::cmp::min(count, self.len - offset),
            6 => self.len - offset,
            _ => {
                if (offset as u128) + (count as u128) > self.len as u128 {
                    return Err(VErr::OutOfBounds { addr: offset });
                }
                count.saturating_sub(1)
            }
        };
        // SAFETY: never dereferenced (fake parent); the range lies inside [base, base+len)
        Ok(unsafe { VolatileSlice::new((self.base + offset) as *mut u8, n) })
    }
}

/// A CHUNKED `VolatileMemory` implementor the crate did not write (root kind 8): `len` logical
/// bytes that physically are chunks of `c` bytes separated by gaps of `g >= 1` bytes which do NOT
/// belong to the memory (logical byte i lives at base + (i/c)*(c+g) + i%c).  A `VolatileSlice` is
/// contiguous, so `get_slice(o, n)` answers - as the trait documentation allows - the part of the
/// request that lies in the chunk of `o`; requests past `len` are refused.  A provided method that
/// fabricates an accessor of size_of::<T>() bytes from a shorter slice would reach into the gap.
/// The address range is never dereferenced.  Transcribed as `chunk_gs` in coq/Suite/C01impl.v.
struct Chunked {
    base: usize,
    len: usize,
    c: usize,
    g: usize,
}
impl VolatileMemory for Chunked {
    type B = ();
    fn len(&self) -> usize {
        self.len
    }
    fn get_slice(&self, offset: usize, count: usize) -> Result<VolatileSlice<'_, ()>, VErr> {
        if (offset as u128) + (count as u128) > self.len as u128 {
            return Err(VErr::OutOfBounds { addr: offset });
        }
        let phys = (offset / self.c) * (self.c + self.g) + offset % self.c;
        let n = std::cmp::min(count, self.c - offset % self.c);
        // SAFETY: never dereferenced (fake parent); the range lies inside one chunk
        Ok(unsafe { VolatileSlice::new((self.base + phys) as *mut u8, n) })
    }
}

#[derive(Clone, Copy)]
enum Acc {
    Odd(&'static Odd),
    Chunked(&'static Chunked),
    Slice(&'static VS),
    Ref(&'static dyn DynRef),
    Arr(&'static dyn DynArr),
    Typed(usize, usize),
    Host(usize),
    Region(&'static MmapRegion<()>),
    GRegion(&'static GuestRegionMmap<()>),
    GMem(&'static GuestMemoryMmap<()>),
}

/// keeps every accessor of a chain alive (children borrow their parents) until the case is done
#[derive(Default)]
struct Arena {
    slices: Vec<Box<VS>>,
    refs: Vec<Box<dyn DynRef>>,
    arrs: Vec<Box<dyn DynArr>>,
}
impl Arena {
    fn slice(&mut self, s: VS) -> Acc {
        let b = Box::new(s);
        let p: *const VS = &*b;
        self.slices.push(b);
        // SAFETY: the box is not moved or dropped before the arena, which outlives all uses
        Acc::Slice(unsafe { &*p })
    }
    fn rf(&mut self, b: Box<dyn DynRef>) -> Acc {
        let p: *const dyn DynRef = &*b;
        self.refs.push(b);
        Acc::Ref(unsafe { &*p })
    }
    fn arr(&mut self, b: Box<dyn DynArr>) -> Acc {
        let p: *const dyn DynArr = &*b;
        self.arrs.push(b);
        Acc::Arr(unsafe { &*p })
    }
}

// ------------------------------------------------------------------ real parents
struct RealMap {
    lo: usize,
    total: usize,
}
impl RealMap {
    /// maps the pages covering [base, base+len) read/write at exactly that address, with one
    /// PROT_NONE page before and one after
    fn new(base: usize, len: usize) -> RealMap {
        let lo = base & !(PAGE - 1);
        let mut hi = (base + len + PAGE - 1) & !(PAGE - 1);
        if hi == lo {
            hi = lo + PAGE;
        }
        let start = lo - PAGE;
        let total = hi + PAGE - start;
        // SAFETY: MAP_FIXED_NOREPLACE never replaces an existing mapping
        let p = unsafe {
            libc::mmap(
                start as *mut libc::c_void,
                total,
                libc::PROT_NONE,
                libc::MAP_PRIVATE | libc::MAP_ANONYMOUS | libc::MAP_NORESERVE | libc::MAP_FIXED_NOREPLACE,
                -1,
                0,
            )
        };
        if p as usize != start {
            if p != libc::MAP_FAILED {
                unsafe { libc::munmap(p, total) };
            }
            panic!("cannot map the real parent at {:#x}", start);
        }
        let rc = unsafe { libc::mprotect(lo as *mut libc::c_void, hi - lo, libc::PROT_READ | libc::PROT_WRITE) };
        assert_eq!(rc, 0);
        RealMap { lo: start, total }
    }
}
impl Drop for RealMap {
    fn drop(&mut self) {
        unsafe { libc::munmap(self.lo as *mut libc::c_void, self.total) };
    }
}

// ------------------------------------------------------------------ observation
struct Root {
    kind: u64,
    /// host base of each region (or the slice base)
    hosts: Vec<(usize, usize)>,
    gbases: Vec<u64>,
    touch: bool,
}

fn verr_class(e: &VErr) -> u64 {
    match e {
        VErr::OutOfBounds { .. } => 1,
        VErr::Overflow { .. } => 2,
        VErr::TooBig { .. } => 3,
        VErr::Misaligned { .. } => 4,
        _ => 10,
    }
}
fn gerr_class(e: &GuestMemoryError) -> u64 {
    match e {
        GuestMemoryError::InvalidGuestAddress(_) => 6,
        GuestMemoryError::InvalidBackendAddress => 9,
        _ => 10,
    }
}
fn err_obs(class: u64) -> Tok {
    Tok::L(vec![class as u128, 0, 0, 0, 0, 0])
}

/// (pointer, own length, guard length, element count) of an accessor
fn measure(a: &Acc) -> (usize, u128, u128, u128) {
    match a {
        Acc::Slice(s) => {
            let g = s.ptr_guard();
            let gm = s.ptr_guard_mut();
            assert!(g.as_ptr() as usize == gm.as_ptr() as usize && g.len() == gm.len());
            (g.as_ptr() as usize, s.len() as u128, g.len() as u128, 0)
        }
        Acc::Ref(r) => {
            let (p, gl) = r.guard();
            (p, r.len() as u128, gl as u128, 0)
        }
        Acc::Arr(x) => {
            let own = x.len() as u128 * x.element_size() as u128;
            match util::catch(|| x.guard()) {
                Some((p, gl)) => (p, own, gl as u128, x.len() as u128),
                None => (0, own, GUARD_PANIC, x.len() as u128),
            }
        }
        Acc::Typed(p, l) => (*p, *l as u128, *l as u128, 0),
        Acc::Host(p) => (*p, 1, 1, 0),
        _ => panic!("roots are not observed"),
    }
}

fn observe(root: &Root, ridx: usize, a: &Acc) -> Tok {
    let (p, own, glen, nelem) = measure(a);
    let off = if glen == GUARD_PANIC { 0 } else { p.wrapping_sub(root.hosts[ridx].0) };
    if root.touch && glen != GUARD_PANIC {
        // read the first and the last byte the accessor (and its guard) designates
        let reach = std::cmp::max(own, glen);
        if reach > 0 {
            unsafe {
                std::ptr::read_volatile(p as *const u8);
                std::ptr::read_volatile(p.wrapping_add((reach - 1) as usize) as *const u8);
            }
        }
    }
    Tok::L(vec![0, off as u128, own, glen, nelem, ridx as u128])
}

/// which region does the host pointer p (len l) lie in; `want` disambiguates adjacent mappings
fn region_of(root: &Root, p: usize, l: usize, want: Option<(usize, usize)>) -> usize {
    let fits = |i: usize| {
        let (h, sz) = root.hosts[i];
        p >= h && p - h <= sz && l <= sz - (p - h)
    };
    if let Some((i, off)) = want {
        if fits(i) && p - root.hosts[i].0 == off {
            return i;
        }
    }
    (0..root.hosts.len()).find(|&i| fits(i)).unwrap_or(0)
}

// ------------------------------------------------------------------ one request
enum Out {
    New(Acc),
    Err(u64),
}

fn vres<T>(r: Result<T, VErr>, f: impl FnOnce(T) -> Acc) -> Out {
    match r {
        Ok(x) => Out::New(f(x)),
        Err(e) => Out::Err(verr_class(&e)),
    }
}
fn gres<T>(r: Result<T, GuestMemoryError>, f: impl FnOnce(T) -> Acc) -> Out {
    match r {
        Ok(x) => Out::New(f(x)),
        Err(e) => Out::Err(gerr_class(&e)),
    }
}

/// the VolatileMemory trait methods, on any implementor
fn vm_request<M: VolatileMemory<B = ()> + 'static>(ar: &mut Arena, m: &'static M, code: u64, ty: u64, a: usize, b: usize) -> Out {
    match code {
        0 => vres(m.get_slice(a, b), |s| ar.slice(s)),
        1 => Out::New(ar.slice(m.as_volatile_slice())),
        2 => with_ty!(ty, T => vres(m.get_ref::<T>(a), |r| ar.rf(Box::new(r)))),
        3 => with_ty!(ty, T => vres(m.get_array_ref::<T>(a, b), |r| ar.arr(Box::new(r)))),
        4 => with_ty!(ty, T => vres(unsafe { m.aligned_as_ref::<T>(a) }, |r| Acc::Typed(r as *const T as usize, std::mem::size_of_val(r)))),
        5 => with_ty!(ty, T => vres(unsafe { m.aligned_as_mut::<T>(a) }, |r| Acc::Typed(r as *const T as usize, std::mem::size_of_val(r)))),
        6 => with_atomic!(ty, T => vres(m.get_atomic_ref::<T>(a), |r| Acc::Typed(r as *const T as usize, std::mem::size_of_val(r)))),
        _ => Out::Err(7),
    }
}

fn request(ar: &mut Arena, cur: Acc, code: u64, ty: u64, a: usize, b: usize) -> Out {
    match cur {
        Acc::Slice(s) => match code {
            7 => vres(s.offset(a), |x| ar.slice(x)),
            8 => vres(s.subslice(a, b), |x| ar.slice(x)),
            9 => vres(s.split_at(a), |x| ar.slice(x.0)),
            10 => vres(s.split_at(a), |x| ar.slice(x.1)),
            11 => Out::New(ar.arr(Box::new(VolatileArrayRef::<u8, ()>::from(*s)))),
            15 => {
                if (a as u128) + (b as u128) > s.len() as u128 || b > isize::MAX as usize {
                    return Out::Err(7);
                }
                let base = s.ptr_guard().as_ptr() as usize;
                // SAFETY: the range lies in the slice (checked above); for real parents it is
                // mapped memory.  from_slice only inspects pointer and length.
                let data: &'static [u8] = unsafe { std::slice::from_raw_parts((base + a) as *const u8, b) };
                let datam: &'static mut [u8] = unsafe { std::slice::from_raw_parts_mut((base + a) as *mut u8, b) };
                with_ty!(ty, T => {
                    let r1 = T::from_slice(data).map(|r| (r as *const T as usize, std::mem::size_of_val(r)));
                    let r2 = T::from_mut_slice(datam).map(|r| (r as *const T as usize, std::mem::size_of_val(r)));
                    if r1 != r2 {
                        return Out::Err(10);
                    }
                    match r1 {
                        Some((p, l)) => Out::New(Acc::Typed(p, l)),
                        None => Out::Err(8),
                    }
                })
            }
            _ => vm_request(ar, s, code, ty, a, b),
        },
        Acc::Region(r) => vm_request(ar, r, code, ty, a, b),
        // the implementor's own get_slice is not a library method
        Acc::Odd(m) => match code {
            0 => Out::Err(7),
            _ => vm_request(ar, m, code, ty, a, b),
        },
        Acc::Chunked(m) => match code {
            0 => Out::Err(7),
            _ => vm_request(ar, m, code, ty, a, b),
        },
        Acc::Ref(r) => match code {
            12 => Out::New(ar.slice(r.to_slice())),
            _ => Out::Err(7),
        },
        Acc::Arr(x) => match code {
            13 => {
                if cfg!(debug_assertions) && a < x.len() {
                    // In builds with debug assertions std checks the precondition of ptr::offset
                    // (address + signed offset within the address space) with a NON-UNWINDING
                    // panic: the process would die.  Only reachable for arrays longer than
                    // isize::MAX (fake parents).  Reported as a panic without making the call.
                    if let (Some(byteofs), Some((p, _))) = (x.element_size().checked_mul(a), util::catch(|| x.guard())) {
                        let in_range = if byteofs <= isize::MAX as usize {
                            p.checked_add(byteofs).is_some()
                        } else {
                            (p as u128) + (byteofs as u128) >= 1u128 << 64
                        };
                        if !in_range {
                            return Out::Err(5);
                        }
                    }
                }
                Out::New(ar.rf(x.ref_at(a)))
            }
            14 => Out::New(ar.slice(x.to_slice())),
            _ => Out::Err(7),
        },
        Acc::GRegion(g) => match code {
            16 => gres(g.get_slice(MemoryRegionAddress(a as u64), b), |x| ar.slice(x)),
            17 => gres(g.get_host_address(MemoryRegionAddress(a as u64)), |p| Acc::Host(p as usize)),
            18 => gres(g.as_volatile_slice(), |x| ar.slice(x)),
            _ => Out::Err(7),
        },
        Acc::GMem(m) => match code {
            19 => gres(m.get_slice(GuestAddress(a as u64), b), |x| ar.slice(x)),
            20 => gres(m.get_host_address(GuestAddress(a as u64)), |p| Acc::Host(p as usize)),
            _ => Out::Err(7),
        },
        Acc::Typed(..) | Acc::Host(_) => Out::Err(7),
    }
}

fn exec(case: &[Tok]) -> Vec<Tok> {
    let (rk, base, len) = (case[1].u(), case[2].u() as usize, case[3].u() as usize);
    let regs: Vec<u128> = case[4].l().to_vec();
    for (i, (s, a)) in TY_SIZE.iter().zip(TY_ALIGN.iter()).enumerate() {
        with_ty!(i as u64, T => assert!(std::mem::size_of::<T>() == *s && std::mem::align_of::<T>() == *a));
    }
    for &t in &ATOMIC_TYS {
        // the atomic has the size of its value type (table) and ITS OWN alignment
        with_atomic!(t, T => assert!(std::mem::size_of::<T>() == TY_SIZE[t as usize] && std::mem::align_of::<T>() as u64 == atomic_align(t)));
    }
    let mut arena = Arena::default();
    let mut _real: Option<RealMap> = None;
    let mut gregions: Vec<*mut GuestRegionMmap<()>> = Vec::new();
    let mut gmem: Option<*mut GuestMemoryMmap<()>> = None;
    let mut odd: Option<*mut Odd> = None;
    let mut chunked: Option<*mut Chunked> = None;
    let mut root = Root { kind: rk, hosts: vec![], gbases: vec![], touch: rk == 0 };
    let mut cur: Acc = match rk {
        0 | 1 => {
            assert!((base as u128) + (len as u128) <= 1u128 << 64);
            if rk == 0 {
                assert!(base >= REAL_LO && base < REAL_LO + (1 << 30) && len <= 1 << 24);
                _real = Some(RealMap::new(base, len));
            }
            root.hosts.push((base, len));
            // SAFETY: real parents are mapped; fake parents are never dereferenced
            arena.slice(unsafe { VolatileSlice::new(base as *mut u8, len) })
        }
        2 | 3 | 4 => {
            assert!(!regs.is_empty() && regs.len() % 2 == 0);
            let mut v = Vec::new();
            for ch in regs.chunks(2) {
                let r = GuestRegionMmap::<()>::from_range(GuestAddress(ch[0] as u64), ch[1] as usize, None).expect("region");
                root.hosts.push((r.as_ptr() as usize, ch[1] as usize));
                root.gbases.push(ch[0] as u64);
                v.push(r);
            }
            if rk == 4 {
                let m = Box::into_raw(Box::new(GuestMemoryMmap::from_regions(v).expect("guest memory")));
                gmem = Some(m);
                Acc::GMem(unsafe { &*m })
            } else {
                let g = Box::into_raw(Box::new(v.remove(0)));
                gregions.push(g);
                let gr: &'static GuestRegionMmap<()> = unsafe { &*g };
                if rk == 2 {
                    let mr: &'static MmapRegion<()> = &**gr;
                    Acc::Region(mr)
                } else {
                    Acc::GRegion(gr)
                }
            }
        }
        5 | 6 | 7 => {
            assert!((base as u128) + (len as u128) < 1u128 << 64 && len <= isize::MAX as usize);
            root.hosts.push((base, len));
            let m = Box::into_raw(Box::new(Odd { base, len, k: rk }));
            odd = Some(m);
            Acc::Odd(unsafe { &*m })
        }
        8 => {
            assert!(regs.len() == 2);
            let (c, g) = (regs[0] as usize, regs[1] as usize);
            assert!(c >= 1 && g >= 1 && len <= isize::MAX as usize);
            let span = ((len / c) as u128 + 1) * (c as u128 + g as u128);
            assert!((base as u128) + span < 1u128 << 64);
            root.hosts.push((base, span as usize));
            let m = Box::into_raw(Box::new(Chunked { base, len, c, g }));
            chunked = Some(m);
            Acc::Chunked(unsafe { &*m })
        }
        _ => panic!("bad root kind"),
    };
    let mut ridx = 0usize;
    let mut out = Vec::new();
    for t in &case[5..] {
        let o = t.l();
        assert!(o.len() == 4 && o[2] < 1u128 << 64 && o[3] < 1u128 << 64);
        let (code, ty, a, b) = (o[0] as u64, o[1] as u64, o[2] as usize, o[3] as usize);
        assert!(ty < NTY);
        let at_gmem = matches!(cur, Acc::GMem(_));
        match util::catch(|| request(&mut arena, cur, code, ty, a, b)) {
            None => out.push(err_obs(5)),
            Some(Out::Err(c)) => out.push(err_obs(c)),
            Some(Out::New(acc)) => {
                if at_gmem {
                    // independent of the library: which region's host mapping holds the pointer
                    let (p, own, _, _) = measure(&acc);
                    let want = root
                        .gbases
                        .iter()
                        .enumerate()
                        .find(|(i, g)| (a as u64) >= **g && ((a as u64) - **g) as u128 + (if code == 19 { b as u128 } else { 1 }) <= root.hosts[*i].1 as u128)
                        .map(|(i, g)| (i, (a as u64 - *g) as usize));
                    ridx = region_of(&root, p, own as usize, want);
                }
                out.push(observe(&root, ridx, &acc));
                cur = acc;
            }
        }
    }
    drop(arena);
    if let Some(m) = gmem {
        drop(unsafe { Box::from_raw(m) });
    }
    for g in gregions {
        drop(unsafe { Box::from_raw(g) });
    }
    if let Some(m) = odd {
        drop(unsafe { Box::from_raw(m) });
    }
    if let Some(m) = chunked {
        drop(unsafe { Box::from_raw(m) });
    }
    let _ = root.kind;
    // summary token for the evidence histogram: class of the first answer (3f: no request)
    let first = out.first().map(|t| t.l()[0]).unwrap_or(0x3f);
    out.insert(0, Tok::N(first));
    out
}

// ------------------------------------------------------------------ generators
fn op(code: u64, ty: u64, a: u64, b: u64) -> Tok {
    Tok::L(vec![code as u128, ty as u128, a as u128, b as u128])
}
fn case_slice(kind: u64, base: u64, len: u64, ops: Vec<Tok>) -> Vec<Tok> {
    let mut v = vec![n(crate::build_mode()), n(kind), n(base), n(len), Tok::L(vec![])];
    v.extend(ops);
    v
}
fn case_reg(kind: u64, regs: &[(u64, u64)], ops: Vec<Tok>) -> Vec<Tok> {
    let mut l = Vec::new();
    for (g, s) in regs {
        l.push(*g as u128);
        l.push(*s as u128);
    }
    let mut v = vec![n(crate::build_mode()), n(kind), n(0u8), n(0u8), Tok::L(l)];
    v.extend(ops);
    v
}

/// boundary values for an argument, given the accessor's length and absolute base
fn bset(len: u64, base: u64) -> Vec<u64> {
    let mut v = vec![0u64, 1, 2, 3, 4, 7, 8, 9, 15, 16, 17];
    for k in 0..=3u64 {
        v.push(len.wrapping_add(k));
        v.push(len.wrapping_sub(k));
        v.push((len / 2).wrapping_add(k));
    }
    for c in [1u64 << 12, 1 << 31, 1 << 32, 1 << 63, 0] {
        for k in 0..=2u64 {
            v.push(c.wrapping_add(k));
            v.push(c.wrapping_sub(k));
        }
    }
    for k in 0..=9u64 {
        v.push(u64::MAX - k);
    }
    // exactly at / around the point where base + x overflows
    for k in 0..=2u64 {
        v.push(base.wrapping_neg().wrapping_add(k));
        v.push(base.wrapping_neg().wrapping_sub(k));
        v.push(base.wrapping_neg().wrapping_sub(len).wrapping_add(k));
        v.push(base.wrapping_neg().wrapping_sub(len).wrapping_sub(k));
    }
    v.sort();
    v.dedup();
    v
}
/// element counts for get_array_ref
fn nset(len: u64, sz: u64) -> Vec<u64> {
    let s = sz.max(1);
    let mut v = vec![0u64, 1, 2, 3];
    for c in [len / s, (1u64 << 63) / s, u64::MAX / s, 1u64 << 63, u64::MAX, (1u64 << 62), (u64::MAX / s) / 2] {
        for k in 0..=2u64 {
            v.push(c.wrapping_add(k));
            v.push(c.wrapping_sub(k));
        }
    }
    v.sort();
    v.dedup();
    v
}

const SLICE_CODES: [u64; 13] = [0, 1, 2, 3, 4, 5, 6, 7, 8, 9, 10, 11, 15];

/// a random request for an accessor of kind k (0 slice, 1 ref, 2 arr, 6 region, 7 gregion) and length len
fn rand_op(rng: &mut Rng, k: u64, len: u64, base: u64, nelem: u64, valid_bias: bool) -> Tok {
    let code = match k {
        0 => *rng.pick(&SLICE_CODES),
        6 => rng.below(7),
        1 => 12,
        2 => 13 + rng.below(2),
        7 => 16 + rng.below(3),
        _ => rng.below(21),
    };
    let ty = if code == 6 { *rng.pick(&ATOMIC_TYS) } else if rng.chance(2, 3) { rng.below(9) } else { 9 + rng.below(NTY - 9) };
    let sz = TY_SIZE[ty as usize] as u64;
    let bs = bset(len, base);
    let small = |rng: &mut Rng| if len == 0 { 0 } else { rng.below(len + 1) };
    let (a, b) = if valid_bias {
        // mostly requests that fit
        let a = match code {
            13 => if nelem == 0 { 0 } else { rng.below(nelem) },
            4 | 5 | 6 | 15 => {
                let x = small(rng);
                // (for the value type: an under-aligned value type leaves atomic requests at
                // addresses that are aligned for the value but not for the atomic)
                let al = TY_ALIGN[ty as usize] as u64;
                // round so that base + x is aligned most of the time
                if rng.chance(3, 4) { x.wrapping_sub((base.wrapping_add(x)) % al) } else { x }
            }
            _ => small(rng),
        };
        let room = len.saturating_sub(a);
        let b = match code {
            3 => if sz == 0 { rng.below(1 << 20) } else { rng.below(room / sz + 1) },
            15 => if rng.chance(7, 8) { sz } else { rng.below(room + 1) },
            _ => rng.below(room + 1),
        };
        (a, b)
    } else {
        let a = if code == 13 && rng.bool() { nelem.wrapping_add(rng.below(3)).wrapping_sub(1) } else { *rng.pick(&bs) };
        let b = if code == 3 { *rng.pick(&nset(len.wrapping_sub(a.min(len)), sz)) } else { *rng.pick(&bs) };
        (a, b)
    };
    // requests the harness must not make (they are outside the contract of the unsafe
    // constructor / would be language UB in std's own pointer arithmetic): none for valid parents
    op(code, ty, a, b)
}

/// the generator's own bookkeeping of (kind, base, len, nelem, esz) after a request, used only to
/// choose the next request of a chain sensibly; a wrong guess only makes the next request inapplicable
fn predict(st: (u64, u64, u64, u64, u64), o: &Tok) -> (u64, u64, u64, u64, u64) {
    let (k, base, len, nelem, esz) = st;
    let l = o.l();
    let (code, ty, a, b) = (l[0] as u64, l[1] as usize, l[2] as u64, l[3] as u64);
    let sz = TY_SIZE[ty] as u64;
    let fits = |x: u128| x <= len as u128;
    match (k, code) {
        (0, 0) | (0, 8) | (6, 0) if fits(a as u128 + b as u128) => (0, base + a, b, 0, 1),
        (0, 1) | (6, 1) => (0, base, len, 0, 1),
        (0, 2) | (6, 2) if fits(a as u128 + sz as u128) => (1, base + a, sz, 0, sz),
        (0, 3) | (6, 3) if b <= i64::MAX as u64 && fits(a as u128 + b as u128 * sz as u128) => (2, base + a, b * sz, b, sz),
        (0, 7) | (0, 10) if a <= len => (0, base + a, len - a, 0, 1),
        (0, 9) if a <= len => (0, base, a, 0, 1),
        (0, 11) => (2, base, len, len, 1),
        (1, 12) => (0, base, len, 0, 1),
        (2, 13) if a < nelem => (1, base + a * esz, esz, 0, esz),
        (2, 14) => (0, base, len, 0, 1),
        (7, 16) if fits(a as u128 + b as u128) => (0, base + a, b, 0, 1),
        (7, 18) => (0, base, len, 0, 1),
        (_, 4) | (_, 5) | (_, 6) | (_, 15) | (_, 17) => (9, 0, 0, 0, 0),
        _ => st,
    }
}

fn real_parents() -> Vec<(u64, u64)> {
    let p = (REAL_LO + PAGE) as u64;
    let mut v = Vec::new();
    for &len in &[0u64, 1, 2, 3, 7, 8, 9, 16, 63, 64, 65, 4095, 4096, 4097] {
        for shift in 0..16u64 {
            v.push((p + shift, len)); // just above the low guard page
            if len + shift <= 3 * PAGE as u64 {
                v.push((p + 3 * PAGE as u64 - len - shift, len)); // ending just below the high guard page
            }
        }
    }
    v
}
fn fake_parents() -> Vec<(u64, u64)> {
    let mut v = Vec::new();
    for &len in &[0u64, 1, 8, 9, 64, 4096, 4097, (1 << 31) + 3, (1 << 32) + 5, (1 << 62) + 1, i64::MAX as u64 - 16, i64::MAX as u64] {
        for k in [1u64, 2, 3, 8, 9, 16, 17, 4096, 1 << 40] {
            // ends k bytes below the top of the address space
            if let Some(b) = (u64::MAX - len).checked_sub(k - 1) {
                v.push((b, len));
            }
        }
        for b in [1u64, 8, 4096, 4099, 1 << 32, (1 << 63) - 8, 1 << 63] {
            if (b as u128) + (len as u128) < 1u128 << 64 {
                v.push((b, len));
            }
        }
    }
    // ranges longer than isize::MAX (no Rust object is, but the accessors must still not wrap):
    // almost the whole address space
    for (b, k) in [(1u64, 1u64), (1, 2), (2, 1), (8, 8), (16, 1), (4096, 4096), (1 << 62, 3), (1 << 63, 1)] {
        v.push((b, u64::MAX - b - k + 1));
    }
    v.push((4096, (1 << 63) + 7));
    v
}

fn gen_single(rng: &mut Rng, tier: Tier, emit: &mut dyn FnMut(Vec<Tok>)) {
    let quick = tier == Tier::Quick;
    let reals = real_parents();
    let fakes = fake_parents();
    // boundary sweep: every request code x boundary arguments, on a rotating subset of parents
    let per = if quick { 14 } else { 200 };
    for (kind, parents) in [(0u64, &reals), (1u64, &fakes)] {
        for &(base, len) in parents.iter() {
            for &code in &SLICE_CODES {
                for _ in 0..per {
                    let vb = rng.chance(1, 3);
                    let mut o = rand_op(rng, 0, len, base, 0, vb);
                    if let Tok::L(l) = &mut o {
                        l[0] = code as u128;
                        if code == 6 {
                            l[1] = ATOMIC_TYS[(l[1] % 6) as usize] as u128;
                        }
                    }
                    emit(case_slice(kind, base, len, vec![o]));
                }
            }
        }
    }
    // parents ending exactly at the top of the address space: only requests that test the
    // pointer sum before using it (offset / split_at)
    for &len in &[0u64, 1, 9, 4096, i64::MAX as u64] {
        let base = (0u64).wrapping_sub(len);
        if len == 0 {
            continue;
        }
        for &a in &bset(len, base) {
            for code in [7u64, 9, 10] {
                emit(case_slice(1, base, len, vec![op(code, 0, a, 0)]));
            }
        }
    }
    // small parents exhaustively: (offset, count) in [0, len+2]^2 plus extremes, all types
    let maxlen = if quick { 5 } else { 9 };
    let p = (REAL_LO + PAGE) as u64;
    for len in 0..=maxlen {
        for shift in if quick { vec![0u64, 1, 4] } else { (0..16).collect::<Vec<u64>>() } {
            let base = p + 3 * PAGE as u64 - len - shift;
            let mut args: Vec<u64> = (0..=len + 2).collect();
            args.extend([u64::MAX, u64::MAX - 1, 1 << 63, (1 << 63) - 1, base.wrapping_neg(), base.wrapping_neg() - 1]);
            for &a in &args {
                for &b in &args {
                    for code in [0u64, 8] {
                        emit(case_slice(0, base, len, vec![op(code, 0, a, b)]));
                    }
                    for ty in 0..9u64 {
                        if !quick || a.wrapping_add(b).wrapping_add(ty) % 3 == 0 {
                            emit(case_slice(0, base, len, vec![op(3, ty, a, b)]));
                        }
                        emit(case_slice(0, base, len, vec![op(15, ty, a, b)]));
                    }
                }
                for code in [7u64, 9, 10] {
                    emit(case_slice(0, base, len, vec![op(code, 0, a, 0)]));
                }
                for ty in 0..9u64 {
                    for code in [2u64, 4, 5] {
                        emit(case_slice(0, base, len, vec![op(code, ty, a, 0)]));
                    }
                    if ty < 4 {
                        emit(case_slice(0, base, len, vec![op(6, ty, a, 0)]));
                    }
                }
            }
        }
    }
    gen_wide_and_atomic(quick, emit);
}

/// under-aligned value types: the third-party atomics Pair ([u32;2], atomic alignment 8, value
/// alignment 4) and Quad ([u64;2], 16 / 8) and their value types at EVERY offset of real parents at
/// all 16 base alignments - an atomic reference at a multiple of the value alignment only is a
/// violation; wide element types (17..256 bytes) at every offset of parents around their size
fn gen_wide_and_atomic(quick: bool, emit: &mut dyn FnMut(Vec<Tok>)) {
    let p = (REAL_LO + PAGE) as u64;
    for &len in if quick { &[8u64, 16, 17, 40][..] } else { &[0u64, 7, 8, 9, 15, 16, 17, 24, 32, 40, 64][..] } {
        for shift in 0..16u64 {
            for base in [p + shift, p + 3 * PAGE as u64 - len - shift] {
                if quick && base != p + shift && shift % 4 != 0 {
                    continue;
                }
                for a in 0..=len + 1 {
                    for ty in [17u64, 18] {
                        emit(case_slice(0, base, len, vec![op(6, ty, a, 0)]));
                        emit(case_slice(0, base, len, vec![op(4, ty, a, 0)]));
                        emit(case_slice(0, base, len, vec![op(5, ty, a, 0)]));
                    }
                }
            }
        }
    }
    for ty in 9..17u64 {
        let sz = TY_SIZE[ty as usize] as u64;
        for len in [sz - 1, sz, sz + 1, sz + 9, 2 * sz + 3] {
            for shift in if quick { vec![0u64, 1, 4, 8] } else { (0..16).collect::<Vec<u64>>() } {
                let base = p + 3 * PAGE as u64 - len - shift;
                let mut args: Vec<u64> = (0..=std::cmp::min(len - sz.min(len) + 2, 12)).collect();
                args.extend([len - sz.min(len), len, u64::MAX]);
                for &a in &args {
                    for code in [2u64, 4, 5] {
                        emit(case_slice(0, base, len, vec![op(code, ty, a, 0)]));
                    }
                    emit(case_slice(0, base, len, vec![op(15, ty, a, sz)]));
                    for nn in [0u64, 1, 2, 3] {
                        emit(case_slice(0, base, len, vec![op(3, ty, a, nn), op(13, 0, nn.saturating_sub(1), 0)]));
                    }
                }
            }
        }
    }
}

/// third-party implementors: every provided trait method x element type x boundary offsets /
/// counts on small and large fake parents at several base alignments, for the three get_slice
/// flavours; a third of the cases continue with one or two requests on the accessor that came back
fn gen_impl(rng: &mut Rng, tier: Tier, emit: &mut dyn FnMut(Vec<Tok>)) {
    let quick = tier == Tier::Quick;
    let mut parents: Vec<(u64, u64)> = Vec::new();
    for len in 0..=(if quick { 9u64 } else { 18 }) {
        for shift in if quick { vec![0u64, 1, 2, 4, 8] } else { (0..16).collect::<Vec<u64>>() } {
            parents.push((0x7000_0000_0000 + 4096 - shift, len));
        }
    }
    for &(b, l) in &[(4096u64, 4096u64), (4099, 65536), (1 << 40, 1 << 33), (8, i64::MAX as u64 - 7), (4096, (1 << 62) + 5)] {
        parents.push((b, l));
    }
    for k in 5..=7u64 {
        for &(base, len) in &parents {
            let mut offs: Vec<u64> = (0..=std::cmp::min(len, 18) + 2).collect();
            if len > 18 {
                offs.extend(bset(len, base));
            }
            offs.extend([u64::MAX, u64::MAX - 7, 1 << 63]);
            for &a in &offs {
                emit(case_slice(k, base, len, vec![op(1, 0, 0, 0)]));
                for ty in 0..9u64 {
                    for code in [2u64, 4, 5] {
                        let mut ops = vec![op(code, ty, a, 0)];
                        if code == 2 && rng.chance(1, 3) {
                            ops.push(op(12, 0, 0, 0));
                            ops.push(op(8, 0, rng.below(3), rng.below(4)));
                        }
                        emit(case_slice(k, base, len, ops));
                    }
                    if ty < 4 {
                        emit(case_slice(k, base, len, vec![op(6, ty, a, 0)]));
                    }
                    if ty < 2 {
                        emit(case_slice(k, base, len, vec![op(6, 17 + ty, a, 0)]));
                    }
                    let sz = TY_SIZE[ty as usize] as u64;
                    for &nn in &nset(len.saturating_sub(std::cmp::min(a, len)), sz) {
                        if !quick || rng.chance(1, 6) {
                            let mut ops = vec![op(3, ty, a, nn)];
                            if rng.chance(1, 3) {
                                ops.push(op(13, 0, rng.below(nn.saturating_add(2).min(1 << 20)), 0));
                            } else if rng.chance(1, 3) {
                                ops.push(op(14, 0, 0, 0));
                            }
                            emit(case_slice(k, base, len, ops));
                        }
                    }
                }
            }
            // the own get_slice: answered "not applicable" by the harness, not judged
            emit(case_slice(k, base, len, vec![op(0, 0, 0, len)]));
        }
    }
    gen_impl_chunked(rng, quick, emit);
}

/// chunked implementors: (logical length, chunk, gap) x base alignments x every provided method x
/// element type x every offset around the chunk boundaries
fn gen_impl_chunked(rng: &mut Rng, quick: bool, emit: &mut dyn FnMut(Vec<Tok>)) {
    let case_chunk = |base: u64, len: u64, c: u64, g: u64, ops: Vec<Tok>| {
        let mut v = vec![n(crate::build_mode()), n(8u8), n(base), n(len), Tok::L(vec![c as u128, g as u128])];
        v.extend(ops);
        v
    };
    // (L, c, g): the demonstration of seed C01-7 first; a partial last chunk; chunk sizes on
    // both sides of the element sizes; gaps smaller and larger than an element
    let mut geos: Vec<(u64, u64, u64)> = vec![(24, 12, 4), (16, 8, 8), (20, 8, 1), (7, 3, 5), (32, 16, 16), (48, 20, 12)];
    if !quick {
        geos.extend([(64, 32, 32), (9, 1, 1), (40, 24, 8), (0, 4, 4), (4096, 4096, 4096), (8192, 4096, 16)]);
    }
    let big: [(u64, u64, u64, u64); 3] = [(4096, 1 << 33, 1 << 20, 1 << 12), (8, i64::MAX as u64 - 7, 1 << 62, 8), (4099, 65536, 4096, 4096)];
    for &(len, c, g) in &geos {
        for shift in if quick { vec![0u64, 4, 1] } else { vec![0u64, 1, 2, 4, 8] } {
            let base = 0x7100_0000_0000 + 4096 - shift;
            emit(case_chunk(base, len, c, g, vec![op(1, 0, 0, 0)]));
            emit(case_chunk(base, len, c, g, vec![op(0, 0, 0, len)]));
            let mut offs: Vec<u64> = if len <= 64 { (0..=len + 2).collect() } else { bset(len, base) };
            if len > 64 {
                for k in 0..=20u64 {
                    offs.push(c.wrapping_sub(k));
                    offs.push(c + k);
                }
            }
            offs.extend([u64::MAX, u64::MAX - 7, 1 << 63]);
            for &a in &offs {
                for ty in 0..9u64 {
                    for code in [2u64, 4, 5] {
                        let mut ops = vec![op(code, ty, a, 0)];
                        if code == 2 && rng.chance(1, 4) {
                            ops.push(op(12, 0, 0, 0));
                            ops.push(op(8, 0, rng.below(3), rng.below(4)));
                        }
                        emit(case_chunk(base, len, c, g, ops));
                    }
                    if ty < 4 {
                        emit(case_chunk(base, len, c, g, vec![op(6, ty, a, 0)]));
                    }
                    if ty < 2 {
                        emit(case_chunk(base, len, c, g, vec![op(6, 17 + ty, a, 0)]));
                    }
                    if ty < 3 && c >= 16 {
                        // wide elements: [u8;17], [u16;9], [u64;4]
                        let w = [9u64, 13, 15][ty as usize];
                        emit(case_chunk(base, len, c, g, vec![op(2, w, a, 0)]));
                        emit(case_chunk(base, len, c, g, vec![op(4 + (a & 1), w, a, 0)]));
                    }
                    let sz = TY_SIZE[ty as usize] as u64;
                    // element counts around what is left of the chunk and of the memory
                    let left_chunk = if a <= len { c - a % c } else { 0 };
                    let mut ns = vec![0u64, 1, 2];
                    for room in [left_chunk, len.saturating_sub(a)] {
                        let q = room / sz.max(1);
                        ns.extend([q, q + 1, q.saturating_sub(1)]);
                    }
                    ns.sort();
                    ns.dedup();
                    for &nn in &ns {
                        if !quick || rng.chance(1, 3) {
                            let mut ops = vec![op(3, ty, a, nn)];
                            if rng.chance(1, 4) {
                                ops.push(op(13, 0, rng.below(nn + 2), 0));
                            } else if rng.chance(1, 4) {
                                ops.push(op(14, 0, 0, 0));
                            }
                            emit(case_chunk(base, len, c, g, ops));
                        }
                    }
                }
            }
        }
    }
    for &(base, len, c, g) in &big {
        let mut offs = bset(len, base);
        for k in 0..=17u64 {
            offs.push(c - k);
            offs.push(c + k);
            offs.push(2 * c - k);
        }
        for &a in &offs {
            for ty in 0..9u64 {
                if quick && !rng.chance(1, 3) {
                    continue;
                }
                for code in [2u64, 4, 5] {
                    emit(case_chunk(base, len, c, g, vec![op(code, ty, a, 0)]));
                }
                if ty < 4 {
                    emit(case_chunk(base, len, c, g, vec![op(6, ty, a, 0)]));
                }
                let sz = TY_SIZE[ty as usize] as u64;
                let left_chunk = if a <= len { c - a % c } else { 0 };
                let q = left_chunk / sz.max(1);
                for nn in [q, q + 1] {
                    emit(case_chunk(base, len, c, g, vec![op(3, ty, a, nn)]));
                }
            }
        }
    }
}

fn gen_chain_from(rng: &mut Rng, st0: (u64, u64, u64, u64, u64), depth: u64) -> Vec<Tok> {
    let mut st = st0;
    let mut ops = Vec::new();
    for _ in 0..depth {
        let (k, base, len, nelem, _) = st;
        if k == 9 {
            break;
        }
        let vb = rng.chance(4, 5);
        let o = rand_op(rng, k, len, base, nelem, vb);
        st = predict(st, &o);
        ops.push(o);
    }
    ops
}

fn gen_chain(rng: &mut Rng, tier: Tier, emit: &mut dyn FnMut(Vec<Tok>)) {
    let quick = tier == Tier::Quick;
    let reals = real_parents();
    let fakes = fake_parents();
    let nrand = if quick { 6_000 } else { 1_000_000 };
    for i in 0..nrand {
        let (kind, (base, len)) = if i % 3 == 2 { (1u64, *rng.pick(&fakes)) } else { (0u64, *rng.pick(&reals)) };
        let depth = 1 + rng.below(8);
        let ops = gen_chain_from(rng, (0, base, len, 0, 1), depth);
        emit(case_slice(kind, base, len, ops));
    }
    // exhaustive depth-2 chains of (offset|subslice|split) on small real parents
    let p = (REAL_LO + PAGE) as u64;
    let maxlen = if quick { 3 } else { 6 };
    for len in 0..=maxlen {
        let base = p + 3 * PAGE as u64 - len;
        for a1 in 0..=len + 1 {
            for c1 in [7u64, 9, 10] {
                for a2 in 0..=len + 1 {
                    for c2 in [7u64, 9, 10] {
                        emit(case_slice(0, base, len, vec![op(c1, 0, a1, 0), op(c2, 0, a2, 0)]));
                    }
                    for b2 in 0..=len + 1 {
                        emit(case_slice(0, base, len, vec![op(c1, 0, a1, 0), op(8, 0, a2, b2)]));
                    }
                }
            }
        }
    }
}

fn gen_reg(rng: &mut Rng, tier: Tier, emit: &mut dyn FnMut(Vec<Tok>)) {
    let quick = tier == Tier::Quick;
    let sizes = [1u64, 9, 4095, 4096, 4097, 0x1800, 0x2000, 0x10000];
    let gbases = [0u64, 0x1000, 0x1234, 1 << 32, 1 << 63, u64::MAX - 0x20000];
    let nrand = if quick { 2_500 } else { 300_000 };
    for i in 0..nrand {
        let kind = 2 + (i % 3) as u64;
        let size = *rng.pick(&sizes);
        let gb = *rng.pick(&gbases);
        if kind < 4 {
            let k0 = if kind == 2 { 6 } else { 7 };
            let depth = 1 + rng.below(4);
            let mut ops = gen_chain_from(rng, (k0, 0, size, 0, 1), depth);
            // absolute base unknown to the generator: keep away from the band where only the
            // real base decides between Overflow and OutOfBounds
            ops = ops.into_iter().map(sanitize).collect();
            emit(case_reg(kind, &[(gb, size)], ops));
        } else {
            // 1..3 regions, sorted, non-overlapping, sometimes adjacent
            let nreg = 1 + rng.below(3);
            let mut regs = Vec::new();
            let mut g = gb;
            for _ in 0..nreg {
                let s = *rng.pick(&sizes);
                if g.checked_add(s).is_none() {
                    break;
                }
                regs.push((g, s));
                g = match g.checked_add(s + if rng.bool() { 0 } else { *rng.pick(&[1u64, 0x1000, 0x12345]) }) {
                    Some(x) => x,
                    None => break,
                };
            }
            let (rg, rs) = *rng.pick(&regs);
            // a guest address in / around one of the regions
            let addr = match rng.below(5) {
                0 => rg.wrapping_add(rng.below(rs)),
                1 => rg.wrapping_add(rs).wrapping_sub(rng.below(3)),
                2 => rg.wrapping_add(rs).wrapping_add(rng.below(3)),
                3 => rg.wrapping_sub(rng.below(3)),
                _ => *rng.pick(&bset(rs, rg)),
            };
            let room = (rg.wrapping_add(rs)).wrapping_sub(addr);
            let cnt = match rng.below(4) {
                0 => room,
                1 => room.wrapping_add(1),
                2 => if room == 0 || room > rs { 0 } else { rng.below(room + 1) },
                _ => *rng.pick(&bset(room, 0)),
            };
            let first = if rng.chance(3, 4) { op(19, 0, addr, cnt) } else { op(20, 0, addr, 0) };
            let mut ops = vec![first];
            let depth = rng.below(4);
            let more = gen_chain_from(rng, (0, 0, if cnt <= rs { cnt } else { 0 }, 0, 1), depth);
            ops.extend(more.into_iter().map(sanitize));
            emit(case_reg(4, &regs, ops));
        }
    }
}

/// moves an argument out of [2^64 - 2^48, 2^64 - 2^12): whether `host base + argument` overflows
/// there depends on the OS-chosen host address, which the case cannot name
fn sanitize(o: Tok) -> Tok {
    let mut l = o.l().to_vec();
    for i in 2..4 {
        let x = l[i] as u64;
        if x >= (0u64).wrapping_sub(1 << 48) && x < (0u64).wrapping_sub(1 << 12) {
            l[i] = (x | 0x0000_ffff_ffff_f000) as u128;
        }
    }
    Tok::L(l)
}
