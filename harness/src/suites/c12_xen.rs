//! C12 (xen build): a mapping lives exactly as long as something can still reach it - histories of create / build /
//! insert / remove / clone / snapshot / drop AND guarded accesses on real Xen regions (unix, foreign, grant mapped in
//! advance, grant mapped on demand) over the emulated gntdev / privcmd of c17_xen.rs (hook H3: device log + live set).
//!
//! case: mode [code,a,b,c,d,e, ...]   (six numbers per operation, see coq/Suite/C12xen.v)
//!   0 Create kind=a slot=b: region number id = count so far, size_of_region(id) bytes, guest start b*0x10000,
//!     MmapRange.addr = (id*16+b)*0x10000 (distinct grant references per region); kinds 1-3 are backed by a memfd of
//!     their own named vmh12x_r<id> that plays the device (index = grant reference * page); kind 0 is anonymous
//!   1 Build from_arc_regions | 2 Insert | 3 Remove | 4 Clone | 5 Snapshot | 6 Drop          (as in c12.rs)
//!   7 Access through handle a: a region handle (b = 0): ak=e 0 write / 1 read (Bytes<MemoryRegionAddress>), 2 / 3
//!     get_slice(c, d) + ptr_guard / ptr_guard_mut with every byte touched through the guard; a map or snapshot:
//!     GuestMemory write / read at GuestAddress(b*0x10000 + c)
//! obs: one list per operation [st, val, live, gnt, stray, ev*]
//!   st 1 done / 2 library Err / 0 not possible / 4 panicked / 3 the child process died during the operation
//!   val: bit set of region ids reachable through the handle just returned (ids from the backing file's inode or the
//!     tag bytes read through the raw host pointer); for an access: 1 = the bytes moved are what the backing holds
//!   live: bit r iff region r's backing still has a mapping in /proc/self/maps (memfd name; address span for the
//!     anonymous kind) - for an on-demand region ANY mapping of its memfd counts (a window left open)
//!   gnt: bit r iff the device's live set holds region r's own grant mapping; stray: other entries of the live set
//!   ev: the device log of the operation (1 gref count index | 2 index count)
//! After every operation every region reachable from every live handle is read (raw pointer for the kinds mapped in
//! advance, pread of the backing for on-demand regions).  Each history runs in a forked child: an access or a read
//! through a wrongly unmapped region faults and is reported as st = 3 of that operation.
//! F6b is not triggered: no Bytes::load/store, no copy_to_volatile_slice.
//! In the xen build this file also provides the empty stand-in for suite C12 (the unix backend is not compiled).
use super::c17_xen::{dev_install, dev_reset, dev_take, file_offset_of, DevEv, DEV};
use crate::tok::n;
use crate::{util, Rng, Suite, Tier, Tok};
use std::fs::File;
use std::io::Write;
use std::os::unix::io::{AsRawFd, FromRawFd};
use std::sync::Arc;
use vm_memory::{
    Bytes, GuestAddress, GuestMemory, GuestMemoryMmap, GuestMemoryRegion, GuestRegionMmap, MemoryRegionAddress, MmapRange,
    MmapRegion, VolatileMemory,
};

fn nogen(_: &mut Rng, _: Tier, _: &mut dyn FnMut(Vec<Tok>)) {}
fn noexec(_: &[Tok]) -> Vec<Tok> {
    vec![Tok::N(0xbad0bad)]
}
pub const SUITES: &[Suite] = &[Suite { name: "C12xen", gen, exec }, Suite { name: "C12", gen: nogen, exec: noexec }];

type M = GuestMemoryMmap<()>;
type R = GuestRegionMmap<()>;
const PAGE: usize = 0x1000;
fn size_of_region(id: u64) -> usize {
    [0x1000usize, 0x800, 0x1001, 0x3800, 0x2000, 0x1fff][(id % 6) as usize]
}
fn span_of(size: usize) -> usize {
    (size + PAGE - 1) / PAGE * PAGE
}
const MAGIC: u64 = 0x0c12_0c12_5eed_0000;

enum H {
    Region(Arc<R>),
    Map(M),
    Snap(Arc<M>),
}
struct Info {
    kind: u64,
    size: usize,
    gaddr: u64,
    fd: i32,
    ino: u64,
    data_base: u64,
    name: String,
    addr: usize,
    dead_seen: bool,
}

fn maps() -> String {
    std::fs::read_to_string("/proc/self/maps").unwrap()
}
fn covered(mp: &str, addr: usize, len: usize) -> bool {
    for l in mp.lines() {
        let range = l.split(' ').next().unwrap_or("");
        let mut it = range.split('-');
        if let (Some(a), Some(b)) = (it.next(), it.next()) {
            if let (Ok(a), Ok(b)) = (usize::from_str_radix(a, 16), usize::from_str_radix(b, 16)) {
                if a <= addr && addr + len <= b {
                    return true;
                }
            }
        }
    }
    false
}
fn ino_of(fd: i32) -> u64 {
    let mut st: libc::stat = unsafe { std::mem::zeroed() };
    assert!(unsafe { libc::fstat(fd, &mut st) } == 0);
    st.st_ino as u64
}

fn create(id: u64, kind: u64, slot: u64) -> (Arc<R>, Info) {
    let size = size_of_region(id);
    let gaddr = (id * 16 + slot) * 0x10000;
    let name = format!("vmh12x_r{}", id);
    let tag: [u64; 2] = [id, MAGIC ^ id];
    let (range, fd, data_base) = if kind == 0 {
        (MmapRange::new_unix(size, None, GuestAddress(gaddr)), -1, 0)
    } else {
        let cname = std::ffi::CString::new(name.clone()).unwrap();
        let fd = unsafe { libc::memfd_create(cname.as_ptr(), 0) };
        assert!(fd >= 0);
        assert!(unsafe { libc::ftruncate(fd, (gaddr as usize + span_of(size) + 16 * PAGE) as libc::off_t) } == 0);
        let data_base = if kind == 1 { 0 } else { gaddr };
        let w = unsafe { libc::pwrite(fd, tag.as_ptr() as *const libc::c_void, 16, data_base as libc::off_t) };
        assert!(w == 16);
        (MmapRange::new(size, Some(file_offset_of(fd, 0)), GuestAddress(gaddr), [0, 1, 2, 0xA][kind as usize], 0), fd, data_base)
    };
    let region: MmapRegion<()> = MmapRegion::from_range(range).unwrap();
    let addr = region.as_ptr() as usize;
    if kind == 0 {
        // SAFETY: fresh anonymous mapping of at least 16 bytes
        unsafe {
            std::ptr::write_volatile(addr as *mut u64, tag[0]);
            std::ptr::write_volatile((addr as *mut u64).add(1), tag[1]);
        }
    }
    let r = Arc::new(GuestRegionMmap::new(region, GuestAddress(slot * 0x10000)).unwrap());
    let ino = if fd >= 0 { ino_of(fd) } else { 0 };
    (r, Info { kind, size, gaddr, fd, ino, data_base, name, addr, dead_seen: false })
}

/// which region is this? (127 = cannot tell / its bytes are not what was put there)
fn ident(r: &R, infos: &[Info]) -> u64 {
    let id = match r.file_offset() {
        Some(fo) => {
            let ino = ino_of(fo.file().as_raw_fd());
            match infos.iter().position(|i| i.fd >= 0 && i.ino == ino) {
                Some(p) => p as u64,
                None => return 127,
            }
        }
        None => {
            // anonymous unix region: the tag bytes, through the raw host pointer
            let p = r.as_ptr() as *const u64;
            // SAFETY: independent route; faults if the mapping is gone (observed as st = 3)
            let t = unsafe { std::ptr::read_volatile(p) };
            if t < infos.len() as u64 && infos[t as usize].kind == 0 {
                t
            } else {
                return 127;
            }
        }
    };
    let inf = &infos[id as usize];
    let (t, m) = if inf.kind == 3 {
        let mut b = [0u64; 2];
        let k = unsafe { libc::pread(inf.fd, b.as_mut_ptr() as *mut libc::c_void, 16, inf.data_base as libc::off_t) };
        assert!(k == 16);
        (b[0], b[1])
    } else {
        let p = r.as_ptr() as *const u64;
        // SAFETY: as above - a wrongly unmapped region faults here
        unsafe { (std::ptr::read_volatile(p), std::ptr::read_volatile(p.add(1))) }
    };
    if t == id && m == MAGIC ^ id {
        id
    } else {
        127
    }
}
fn mask_regions<'a>(it: impl Iterator<Item = &'a R>, infos: &[Info]) -> u128 {
    let mut m = 0u128;
    for r in it {
        m |= 1u128 << ident(r, infos);
    }
    m
}
fn mask_h(h: &H, infos: &[Info]) -> u128 {
    match h {
        H::Region(r) => 1u128 << ident(r, infos),
        H::Map(m) => mask_regions(m.iter(), infos),
        H::Snap(m) => mask_regions(m.iter(), infos),
    }
}
fn live_mask(infos: &mut [Info]) -> u128 {
    let mp = maps();
    let mut mask = 0u128;
    for (r, inf) in infos.iter_mut().enumerate() {
        let alive = if inf.kind == 0 {
            let any = (0..span_of(inf.size) / PAGE).any(|k| covered(&mp, inf.addr + k * PAGE, PAGE));
            if !inf.dead_seen && !any {
                inf.dead_seen = true;
            }
            !inf.dead_seen
        } else {
            mp.contains(&format!("memfd:{} (deleted)", inf.name))
        };
        if alive {
            mask |= 1u128 << r;
        }
    }
    mask
}
/// (gnt mask, stray) from the device's own live set
fn dev_masks(infos: &[Info]) -> (u128, u128) {
    let mut live: Vec<(u64, u64)> = DEV.lock().unwrap().live.clone();
    let mut mask = 0u128;
    for (r, inf) in infos.iter().enumerate() {
        if inf.kind == 2 {
            let key = (inf.gaddr, (span_of(inf.size) / PAGE) as u64);
            if let Some(p) = live.iter().position(|x| *x == key) {
                live.remove(p);
                mask |= 1u128 << r;
            }
        }
    }
    (mask, live.len() as u128)
}
/// the bytes [off, off+n) of a region, not through the accessors under test
fn backing(inf: &Info, off: usize, n: usize) -> Vec<u8> {
    let mut v = vec![0u8; n];
    if inf.kind == 0 {
        for i in 0..n {
            // SAFETY: inside the region's mapping (faults if it was wrongly unmapped)
            v[i] = unsafe { std::ptr::read_volatile((inf.addr + off + i) as *const u8) };
        }
    } else if n > 0 {
        let k = unsafe { libc::pread(inf.fd, v.as_mut_ptr() as *mut libc::c_void, n, (inf.data_base + off as u64) as libc::off_t) };
        assert!(k == n as isize);
    }
    v
}
fn pattern(step: usize, n: usize) -> Vec<u8> {
    (0..n).map(|i| (step as u8).wrapping_mul(31).wrapping_add(i as u8).wrapping_add(1)).collect()
}

/// (st, val) of an access through a region handle
fn access_region(r: &R, inf: &Info, off: usize, len: usize, ak: u64, step: usize) -> (u128, u128) {
    match ak {
        0 => {
            let buf = pattern(step, len);
            match util::catch(|| r.write(&buf, MemoryRegionAddress(off as u64))) {
                None => (4, 0),
                Some(Err(_)) => (2, 0),
                Some(Ok(w)) => {
                    let exp = if len == 0 { 0 } else { len.min(inf.size - off) };
                    (1, (w == exp && backing(inf, off, w) == buf[..w]) as u128)
                }
            }
        }
        1 => {
            let mut buf = vec![0u8; len];
            match util::catch(|| r.read(&mut buf, MemoryRegionAddress(off as u64))) {
                None => (4, 0),
                Some(Err(_)) => (2, 0),
                Some(Ok(w)) => {
                    let exp = if len == 0 { 0 } else { len.min(inf.size - off) };
                    (1, (w == exp && backing(inf, off, w) == buf[..w]) as u128)
                }
            }
        }
        _ => {
            let res = util::catch(|| {
                let s = match VolatileMemory::get_slice(&**r, off, len) {
                    Ok(s) => s,
                    Err(_) => return None,
                };
                if ak == 3 {
                    let pat = pattern(step, len);
                    {
                        let g = s.ptr_guard_mut();
                        for i in 0..len {
                            // SAFETY: inside the guard's range
                            unsafe { std::ptr::write_volatile(g.as_ptr().add(i), pat[i]) };
                        }
                        if g.len() != len {
                            return Some(false);
                        }
                    }
                    Some(backing(inf, off, len) == pat)
                } else {
                    let want = backing(inf, off, len);
                    let g = s.ptr_guard();
                    let mut ok = g.len() == len;
                    for i in 0..len {
                        // SAFETY: inside the guard's range
                        ok &= unsafe { std::ptr::read_volatile(g.as_ptr().add(i)) } == want[i];
                    }
                    Some(ok)
                }
            });
            match res {
                None => (4, 0),
                Some(None) => (2, 0),
                Some(Some(ok)) => (1, ok as u128),
            }
        }
    }
}
/// (st, val) of an access through a map / snapshot
fn access_map(m: &M, infos: &[Info], sel: u64, off: usize, len: usize, ak: u64, step: usize) -> (u128, u128) {
    if ak >= 2 {
        return (0, 0);
    }
    let addr = GuestAddress(sel * 0x10000 + off as u64);
    // the region the address falls into, found without the library's lookup
    let target = m.iter().find(|r| r.start_addr().0 == sel * 0x10000 && (off as u64) < r.len());
    let check = |w: usize, buf: &[u8]| -> u128 {
        match target {
            None => (w == 0) as u128,
            Some(r) => {
                let id = ident(r, infos);
                if id >= infos.len() as u64 {
                    return 0;
                }
                let inf = &infos[id as usize];
                let exp = if len == 0 { 0 } else { len.min(inf.size - off) };
                (w == exp && backing(inf, off, w) == buf[..w]) as u128
            }
        }
    };
    if ak == 0 {
        let buf = pattern(step, len);
        match util::catch(|| m.write(&buf, addr)) {
            None => (4, 0),
            Some(Err(_)) => (2, 0),
            Some(Ok(w)) => (1, check(w, &buf)),
        }
    } else {
        let mut buf = vec![0u8; len];
        match util::catch(|| m.read(&mut buf, addr)) {
            None => (4, 0),
            Some(Err(_)) => (2, 0),
            Some(Ok(w)) => (1, check(w, &buf)),
        }
    }
}

fn child(case: &[Tok], out: &mut File) {
    let ops: Vec<u128> = case[1].l().to_vec();
    assert!(ops.len() % 6 == 0 && ops.len() <= 1800);
    assert!(unsafe { libc::sysconf(libc::_SC_PAGESIZE) } as usize == PAGE);
    dev_install();
    dev_reset(false);
    let mut handles: Vec<Option<H>> = Vec::new();
    let mut infos: Vec<Info> = Vec::new();
    let idx = |x: u128| if x < 1 << 16 { x as usize } else { usize::MAX };
    for (step, p) in ops.chunks(6).enumerate() {
        let (code, a, b, c, d, e) = (p[0], p[1], p[2], p[3], p[4], p[5]);
        writeln!(out, "S").unwrap();
        let mut res: (u128, u128) = (0, 0);
        match code {
            0 if infos.len() < 100 && a < 4 && b < 16 => {
                let id = infos.len() as u64;
                let (r, inf) = create(id, a as u64, b as u64);
                infos.push(inf);
                res = (1, 1u128 << ident(&r, &infos));
                handles.push(Some(H::Region(r)));
            }
            1 => {
                let cnt = b.min(8) as usize;
                let mut v: Vec<Arc<R>> = Vec::new();
                let mut ok = true;
                let mut x = a;
                for _ in 0..cnt {
                    match handles.get((x % 32) as usize) {
                        Some(Some(H::Region(r))) => v.push(r.clone()),
                        _ => ok = false,
                    }
                    x /= 32;
                }
                if ok {
                    match GuestMemoryMmap::from_arc_regions(v) {
                        Ok(m) => {
                            res = (1, mask_regions(m.iter(), &infos));
                            handles.push(Some(H::Map(m)));
                        }
                        Err(_) => res = (2, 0),
                    }
                }
            }
            2 => {
                if let (Some(Some(H::Map(m))), Some(Some(H::Region(r)))) = (handles.get(idx(a)), handles.get(idx(b))) {
                    match m.insert_region(r.clone()) {
                        Ok(m2) => {
                            res = (1, mask_regions(m2.iter(), &infos));
                            handles.push(Some(H::Map(m2)));
                        }
                        Err(_) => res = (2, 0),
                    }
                }
            }
            3 => {
                if let Some(Some(H::Map(m))) = handles.get(idx(a)) {
                    let base = (b / 2) as u64 * 0x10000;
                    let actual = m.iter().find(|r| r.start_addr().0 == base).map(|r| r.len()).unwrap_or(PAGE as u64);
                    let size = if b % 2 == 0 { actual } else { actual + PAGE as u64 };
                    match m.remove_region(GuestAddress(base), size) {
                        Ok((m2, arc)) => {
                            res = (1, 1u128 << ident(&arc, &infos));
                            handles.push(Some(H::Map(m2)));
                            handles.push(Some(H::Region(arc)));
                        }
                        Err(_) => res = (2, 0),
                    }
                }
            }
            4 => {
                let new = match handles.get(idx(a)) {
                    Some(Some(H::Region(r))) => Some(H::Region(r.clone())),
                    Some(Some(H::Map(m))) => Some(H::Map(m.clone())),
                    Some(Some(H::Snap(m))) => Some(H::Snap(m.clone())),
                    _ => None,
                };
                if let Some(h) = new {
                    res = (1, mask_h(&h, &infos));
                    handles.push(Some(h));
                }
            }
            5 => {
                if let Some(Some(H::Map(m))) = handles.get(idx(a)) {
                    let s = Arc::new(m.clone());
                    res = (1, mask_regions(s.iter(), &infos));
                    handles.push(Some(H::Snap(s)));
                }
            }
            6 => {
                if let Some(Some(_)) = handles.get(idx(a)) {
                    handles[idx(a)] = None;
                    res = (1, 0);
                }
            }
            7 => {
                let (sel, off, len, ak) = (b as u64, c as usize, d as usize, e as u64);
                assert!(sel < 16 && off < 65536 && len < 65536 && ak < 4);
                res = match handles.get(idx(a)) {
                    Some(Some(H::Region(r))) if sel == 0 => {
                        let id = ident(r, &infos);
                        if id >= infos.len() as u64 {
                            (1, 0)
                        } else {
                            access_region(r, &infos[id as usize], off, len, ak, step)
                        }
                    }
                    Some(Some(H::Map(m))) => access_map(m, &infos, sel, off, len, ak, step),
                    Some(Some(H::Snap(m))) => access_map(m, &infos, sel, off, len, ak, step),
                    _ => (0, 0),
                };
            }
            _ => {}
        }
        let evs = dev_take();
        // reads through every surviving handle
        let mut corrupt = false;
        for h in handles.iter().flatten() {
            if mask_h(h, &infos) >> 127 != 0 {
                corrupt = true;
            }
        }
        let live = if corrupt { u128::MAX } else { live_mask(&mut infos) };
        let (gnt, stray) = dev_masks(&infos);
        let mut v = vec![res.0, res.1, live, gnt, stray];
        for e in &evs {
            match *e {
                DevEv::Map { gref, count, index } => v.extend([1, gref as u128, count as u128, index as u128]),
                DevEv::Unmap { index, count } => v.extend([2, index as u128, count as u128]),
                DevEv::Foreign { .. } => {}
            }
        }
        writeln!(out, "O {}", crate::tok::show(&Tok::L(v))).unwrap();
    }
}

fn exec(case: &[Tok]) -> Vec<Tok> {
    assert!(case.len() == 2);
    let nops = {
        let l = case[1].l();
        assert!(l.len() % 6 == 0 && l.len() <= 1800);
        for p in l.chunks(6) {
            assert!(p[0] <= 7 && p.iter().all(|x| *x < (1 << 40)));
            if p[0] == 7 {
                assert!(p[2] < 16 && p[3] < 65536 && p[4] < 65536 && p[5] < 4);
            }
        }
        l.len() / 6
    };
    let mut fds = [0i32; 2];
    assert!(unsafe { libc::pipe(fds.as_mut_ptr()) } == 0);
    let pid = unsafe { libc::fork() };
    assert!(pid >= 0);
    if pid == 0 {
        unsafe { libc::close(fds[0]) };
        let mut out = unsafe { File::from_raw_fd(fds[1]) };
        let ok = util::catch(|| child(case, &mut out)).is_some();
        unsafe { libc::_exit(if ok { 0 } else { 7 }) };
    }
    unsafe { libc::close(fds[1]) };
    let mut text = String::new();
    {
        use std::io::Read;
        let mut f = unsafe { File::from_raw_fd(fds[0]) };
        f.read_to_string(&mut text).unwrap();
    }
    let mut status = 0i32;
    unsafe { libc::waitpid(pid, &mut status, 0) };
    let mut out: Vec<Tok> = Vec::new();
    let mut started = 0usize;
    for l in text.lines() {
        let mut w = l.split_whitespace();
        match w.next() {
            Some("S") => started += 1,
            Some("O") => out.push(crate::tok::parse(w.next().unwrap())),
            _ => panic!("bad child line"),
        }
    }
    let died = libc::WIFSIGNALED(status);
    if !died && !(libc::WIFEXITED(status) && libc::WEXITSTATUS(status) == 0) {
        panic!("child failed"); // the case could not be decoded / set up: not an observation
    }
    if died {
        // the operation that was running (or the reads after it) faulted; nothing after it was observed
        assert!(started == out.len() + 1 && started <= nops);
        out.push(Tok::L(vec![3, 0, 0, 0, 0]));
    }
    out
}

// ------------------------------------------------------------------ generators
fn perms(k: usize) -> Vec<Vec<usize>> {
    if k == 0 {
        return vec![vec![]];
    }
    let mut out = Vec::new();
    for p in perms(k - 1) {
        for i in 0..=p.len() {
            let mut q = p.clone();
            q.insert(i, k - 1);
            out.push(q);
        }
    }
    out
}

type Op = (u64, u64, u64, u64, u64, u64);

fn gen(rng: &mut Rng, tier: Tier, emit: &mut dyn FnMut(Vec<Tok>)) {
    let mode = crate::build_mode();
    let mut case = |ops: &[Op]| {
        emit(vec![n(mode), Tok::L(ops.iter().flat_map(|o| [o.0 as u128, o.1 as u128, o.2 as u128, o.3 as u128, o.4 as u128, o.5 as u128]).collect())])
    };
    let acc = |h: u64, sel: u64, off: u64, len: u64, ak: u64| -> Op { (7, h, sel, off, len, ak) };
    // ---- every drop order of 4 handles sharing one region, for every kind, with an access through a surviving handle
    // after every drop (and before the first one): region, map of it, clone of the map, snapshot of the map
    for k in 0..4u64 {
        for (variant, p) in perms(4).into_iter().enumerate() {
            let mut ops: Vec<Op> = vec![(0, k, 1, 0, 0, 0), (1, 0, 1, 0, 0, 0), (4, 1, 0, 0, 0, 0), (5, 1, 0, 0, 0, 0)];
            let through = |h: usize, i: usize| -> Op {
                // handle 0 is the region itself, 1..3 reach it through a map
                let (off, len) = [(16u64, 8u64), (0x7f0, 0x20), (100, 1), (0xff0, 0x40)][(i + variant) % 4];
                if h == 0 {
                    acc(0, 0, off, len, ((i + variant) % 4) as u64)
                } else {
                    acc(h as u64, 1, off, len, ((i + variant) % 2) as u64)
                }
            };
            ops.push(through(p[3], 0));
            for (i, h) in p.iter().enumerate() {
                ops.push((6, *h as u64, 0, 0, 0, 0));
                if i + 1 < p.len() {
                    ops.push(through(p[3], i + 1));
                }
            }
            case(&ops);
        }
        // two regions (kinds k and k2) in one map; remove_region; accesses through the derived map and the removed handle
        for k2 in 0..4u64 {
            for p in perms(3) {
                let mut ops: Vec<Op> = vec![
                    (0, k, 1, 0, 0, 0),
                    (0, k2, 2, 0, 0, 0),
                    (1, 0 | 1 << 5, 2, 0, 0, 0),
                    (3, 2, 4, 0, 0, 0), // handles 3 (map without slot 2), 4 (the removed region)
                    (6, 0, 0, 0, 0, 0),
                    (6, 1, 0, 0, 0, 0),
                    acc(2, 2, 0x20, 0x10, 0),
                    acc(4, 0, 0x30, 0x10, 3),
                    acc(3, 1, 0x7e0, 0x40, 1),
                ];
                // remaining handles: 2, 3, 4
                for (i, h) in p.iter().enumerate() {
                    ops.push((6, [2u64, 3, 4][*h], 0, 0, 0, 0));
                    if i == 0 {
                        let last = [2u64, 3, 4][p[2]];
                        ops.push(if last == 4 { acc(4, 0, 16, 4, 2) } else { acc(last, if last == 2 { 2 } else { 1 }, 16, 4, 1) });
                    }
                }
                case(&ops);
            }
        }
    }
    // ---- error paths: overlapping / empty builds and inserts, accesses outside every region, through dead handles
    case(&[(0, 2, 1, 0, 0, 0), (0, 3, 1, 0, 0, 0), (1, 0 | 1 << 5, 2, 0, 0, 0), (1, 0, 0, 0, 0, 0), (1, 0, 1, 0, 0, 0), (2, 2, 1, 0, 0, 0),
           acc(2, 1, 0x900, 8, 0), acc(2, 3, 16, 8, 1), acc(2, 1, 0xfff, 8, 1), acc(0, 0, 0x1000, 4, 0), acc(0, 0, 0xffc, 8, 2), acc(1, 0, 0x7fc, 8, 3),
           acc(7, 0, 16, 1, 0), acc(0, 1, 16, 1, 0), acc(2, 1, 16, 1, 2), acc(2, 1, 16, 0, 0), acc(2, 5, 16, 0, 1),
           (6, 0, 0, 0, 0, 0), acc(0, 0, 16, 1, 1), (6, 2, 0, 0, 0, 0), (6, 1, 0, 0, 0, 0)]);
    // ---- random histories, steered by a shadow of the handle table (the shadow only guides the choice)
    #[derive(Clone)]
    enum Sh {
        R(u64, u64),         // slot, region id
        M(Vec<(u64, u64)>),  // (slot, id)
        S(Vec<(u64, u64)>),
        Dead,
    }
    let ncases = if tier == Tier::Quick { 900 } else { 30_000 };
    for _ in 0..ncases {
        let maxlen = if rng.chance(1, 8) { 50 } else { 22 };
        let len = rng.range(2, maxlen);
        let mut ops: Vec<Op> = Vec::new();
        let mut sh: Vec<Sh> = Vec::new();
        let nslots = rng.range(2, 6);
        let kinds = rng.below(6); // 0..3: only that kind, 4, 5: mixed
        let mut nreg = 0u64;
        for i in 0..len {
            let of = |rng: &mut Rng, sh: &Vec<Sh>, want: u8| -> u64 {
                let c: Vec<u64> = sh
                    .iter()
                    .enumerate()
                    .filter(|(_, h)| match (h, want) {
                        (Sh::R(..), 0) | (Sh::M(_), 1) | (Sh::S(_), 2) => true,
                        (Sh::Dead, _) => false,
                        (_, 3) => true,
                        _ => false,
                    })
                    .map(|(i, _)| i as u64)
                    .collect();
                if c.is_empty() || rng.chance(1, 15) {
                    rng.below(sh.len() as u64 + 2)
                } else {
                    *rng.pick(&c)
                }
            };
            let c = if i < 2 { 0 } else { rng.below(22) };
            match c {
                0..=2 if nreg < 40 => {
                    let k = if kinds >= 4 { rng.below(4) } else { kinds };
                    let slot = rng.range(1, nslots);
                    ops.push((0, k, slot, 0, 0, 0));
                    sh.push(Sh::R(slot, nreg));
                    nreg += 1;
                }
                3..=4 => {
                    let lo = if rng.chance(1, 10) { 0 } else { 1 };
                    let cnt = rng.range(lo, 3);
                    let mut hs: Vec<u64> = (0..cnt).map(|_| of(rng, &sh, 0) % 32).collect();
                    let slot = |h: &u64| match sh.get(*h as usize) {
                        Some(Sh::R(s, id)) => Some((*s, *id)),
                        _ => None,
                    };
                    if rng.chance(5, 6) {
                        hs.sort_by_key(|h| slot(h).map(|x| x.0).unwrap_or(0));
                    }
                    let slots: Vec<Option<(u64, u64)>> = hs.iter().map(slot).collect();
                    let packed = hs.iter().rev().fold(0u64, |acc, h| acc * 32 + h);
                    ops.push((1, packed, cnt, 0, 0, 0));
                    if cnt > 0 && slots.iter().all(|s| s.is_some()) && slots.windows(2).all(|w| w[0].unwrap().0 < w[1].unwrap().0) {
                        sh.push(Sh::M(slots.iter().map(|s| s.unwrap()).collect()));
                    }
                }
                5..=6 => {
                    let (m, r) = (of(rng, &sh, 1), of(rng, &sh, 0));
                    ops.push((2, m, r, 0, 0, 0));
                    if let (Some(Sh::M(v)), Some(Sh::R(s, id))) = (sh.get(m as usize), sh.get(r as usize)) {
                        if !v.iter().any(|x| x.0 == *s) {
                            let mut v2 = v.clone();
                            v2.push((*s, *id));
                            v2.sort();
                            sh.push(Sh::M(v2));
                        }
                    }
                }
                7..=8 => {
                    let m = of(rng, &sh, 1);
                    let slot = match sh.get(m as usize) {
                        Some(Sh::M(v)) if !v.is_empty() && rng.chance(7, 8) => rng.pick(v).0,
                        _ => rng.range(1, nslots),
                    };
                    let wrong = rng.chance(1, 10) as u64;
                    ops.push((3, m, 2 * slot + wrong, 0, 0, 0));
                    if let Some(Sh::M(v)) = sh.get(m as usize) {
                        if wrong == 0 {
                            if let Some(x) = v.iter().find(|x| x.0 == slot).copied() {
                                let v2: Vec<(u64, u64)> = v.iter().copied().filter(|y| y.0 != slot).collect();
                                sh.push(Sh::M(v2));
                                sh.push(Sh::R(x.0, x.1));
                            }
                        }
                    }
                }
                9..=10 => {
                    let h = of(rng, &sh, 3);
                    ops.push((4, h, 0, 0, 0, 0));
                    if let Some(x) = sh.get(h as usize).cloned() {
                        if !matches!(x, Sh::Dead) {
                            sh.push(x);
                        }
                    }
                }
                11..=12 => {
                    let h = of(rng, &sh, 1);
                    ops.push((5, h, 0, 0, 0, 0));
                    if let Some(Sh::M(v)) = sh.get(h as usize) {
                        sh.push(Sh::S(v.clone()));
                    }
                }
                13..=17 => {
                    // an access through any handle: offsets within / across pages, at / past the end of the region
                    let h = of(rng, &sh, 3);
                    let (sel, size, region) = match sh.get(h as usize) {
                        Some(Sh::R(_, id)) => (0, size_of_region(*id) as u64, true),
                        Some(Sh::M(v)) | Some(Sh::S(v)) if !v.is_empty() && rng.chance(9, 10) => {
                            let x = rng.pick(v);
                            (x.0, size_of_region(x.1) as u64, false)
                        }
                        _ => (rng.below(nslots + 1), 0x1000, rng.bool()),
                    };
                    let ak = if region { rng.below(4) } else { rng.below(2) };
                    let off = match rng.below(7) {
                        0 => 16,
                        1 => rng.range(16, size),
                        2 => (PAGE as u64).min(size) - rng.range(1, 9),
                        3 => PAGE as u64 + rng.below(8),
                        4 => size - rng.range(1, 17).min(size - 1),
                        5 => size + rng.below(3),
                        _ => 16 + rng.below(0x7e0),
                    };
                    let off = if (ak == 0 || ak == 3) && off < 16 { 16 } else { off };
                    let len = match rng.below(6) {
                        0 => 0,
                        1 => rng.range(1, 9),
                        2 => rng.range(1, 0x40),
                        3 => size.saturating_sub(off) + rng.below(3),
                        4 => 0x1000 - off % 0x1000 + rng.below(4),
                        _ => rng.range(1, 0x1200),
                    };
                    ops.push(acc(h, if region && rng.chance(19, 20) { 0 } else { sel }, off, len, ak));
                }
                _ => {
                    let h = of(rng, &sh, 3);
                    ops.push((6, h, 0, 0, 0, 0));
                    if let Some(x) = sh.get_mut(h as usize) {
                        *x = Sh::Dead;
                    }
                }
            }
        }
        // finally drop everything in a random order (quiescence: nothing may be left mapped / granted)
        if rng.chance(3, 4) {
            let mut hs: Vec<u64> = (0..sh.len() as u64 + 1).collect();
            for i in (1..hs.len()).rev() {
                hs.swap(i, rng.below(i as u64 + 1) as usize);
            }
            for h in hs {
                ops.push((6, h, 0, 0, 0, 0));
            }
        }
        case(&ops);
    }
}
