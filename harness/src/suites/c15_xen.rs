//! C15 (xen build): MmapRegion::from_range over every Xen mapping-type flag word 0..31 plus words
//! with high bits, missing file / non-zero offset, MAP_FIXED, prot/flags defaults, guest bases near
//! 2^64, accepted and refused ioctls; the hypervisor interface is the emulated gntdev/privcmd of
//! c17_xen.rs (hook H3) over a memfd.
//! case:  mode size hasfile filelen start hasprot prot hasflags flags addr mflags mdata hasbase base page ioctl
//! obs:   probe res size prot flags hasfile start samefd xflags xdata ptrnull pos d1 d2 [ev*] live
//! Suite C15xm (w9): the same requests, observing WHAT WAS MAPPED - the permission column of /proc/self/maps at
//! as_ptr(), coherence with the file for Xen-UNIX file ranges, and the whole privcmd request of a foreign range.
//! Suite C15xenfind (NOT part of ./check C15) holds the candidate finding "a failed mmap after an
//! accepted map ioctl leaves the grant mapping in the device".
use super::c15::{mapped_bytes, maps_perms, memfd};
use super::c17_xen::{dev_install, dev_live, dev_reset, dev_take, dev_take_foreign, DevEv};
use crate::tok::n;
use crate::{util, Rng, Suite, Tier, Tok};
use std::fs::File;
use std::os::unix::io::{AsRawFd, FromRawFd};
use vm_memory::mmap::MmapRegionError;
use vm_memory::{
    Bytes, FileOffset, GuestAddress, GuestMemory, GuestMemoryMmap, GuestRegionMmap, MemoryRegionAddress, MmapRange,
    MmapRegion,
};

pub const SUITES: &[Suite] = &[
    Suite { name: "C15xen", gen, exec },
    Suite { name: "C15xenfind", gen: gen_find, exec },
    Suite { name: "C15xu", gen: gen_u, exec: exec_u },
    Suite { name: "C15xm", gen: gen_m, exec: exec_m },
];

fn code(e: &MmapRegionError) -> u64 {
    match e {
        MmapRegionError::InvalidOffsetLength => 1,
        MmapRegionError::MapFixed => 3,
        MmapRegionError::MappingPastEof => 4,
        MmapRegionError::Mmap(_) => 5,
        MmapRegionError::InvalidFileOffset => 7,
        MmapRegionError::MappedInAdvance => 8,
        MmapRegionError::MmapFlags(_) => 9,
        MmapRegionError::UnexpectedError => 10,
        MmapRegionError::SeekEnd(_) => 12,
        MmapRegionError::SeekStart(_) => 13,
        MmapRegionError::Fam(_) => 15,
    }
}

fn exec(case: &[Tok]) -> Vec<Tok> {
    assert!(case.len() == 16);
    let size = case[1].u() as usize;
    let (hasfile, flen, start) = (case[2].u() != 0, case[3].u(), case[4].u());
    let (hasprot, prot) = (case[5].u() != 0, case[6].u() as u32 as i32);
    let (hasflags, flags) = (case[7].u() != 0, case[8].u() as u32 as i32);
    let (addr, mflags, mdata) = (case[9].u(), case[10].u() as u32, case[11].u() as u32);
    let (hasbase, base) = (case[12].u() != 0, case[13].u());
    let page = unsafe { libc::sysconf(libc::_SC_PAGESIZE) } as u64;
    assert!(case[14].u() == page);
    let ioctl_ok = case[15].u() != 0;
    // keep the number of grant references an emulated request can carry small
    assert!(size as u64 <= (1 << 30) || !(hasfile && start == 0 && (mflags == 1 || mflags == 2)));

    dev_install();
    dev_reset(!ioctl_ok);
    let fd = if hasfile { Some(memfd(flen).expect("file length refused")) } else { None };
    if let Some(fd) = fd {
        unsafe { libc::lseek(fd, 7, libc::SEEK_SET) };
    }
    // independent probe of the mmap the back end will issue
    let eprot = if hasprot { prot } else { libc::PROT_READ | libc::PROT_WRITE };
    let eflags = if hasflags { flags } else { libc::MAP_NORESERVE | libc::MAP_SHARED };
    let rounded = (size as u64).div_ceil(page).wrapping_mul(page) as usize;
    let try_map = |len: usize, fl: i32, fd: i32, off: u64| -> u64 {
        let p = unsafe { libc::mmap(std::ptr::null_mut(), len, eprot, fl, fd, off as libc::off_t) };
        if p == libc::MAP_FAILED {
            0
        } else {
            unsafe { libc::munmap(p, len) };
            1
        }
    };
    let probe: u64 = if eflags & libc::MAP_FIXED != 0 {
        2
    } else if mflags & 1 != 0 {
        fd.map_or(2, |fd| try_map(rounded, eflags | libc::MAP_SHARED, fd, 0))
    } else if mflags & 2 != 0 {
        if mflags & 8 != 0 {
            2
        } else {
            let gref = ((addr & !(1u64 << 63)) / page) as u32 as u64;
            fd.map_or(2, |fd| try_map(rounded, eflags, fd, gref * page))
        }
    } else {
        try_map(size, eflags, fd.unwrap_or(-1), if hasfile { start } else { 0 })
    };

    let mut passed_fd = -1;
    let fo = fd.map(|fd| {
        let d = unsafe { libc::dup(fd) };
        assert!(d >= 0);
        passed_fd = d;
        FileOffset::new(unsafe { File::from_raw_fd(d) }, start)
    });
    let m0 = mapped_bytes();
    let built: Option<Result<Built, u64>> = util::catch(|| {
        let mut range = MmapRange::new(size, fo.clone(), GuestAddress(addr), mflags, mdata);
        if hasprot {
            range.set_prot(prot);
        }
        if hasflags {
            range.set_flags(flags);
        }
        match MmapRegion::<()>::from_range(range) {
            Err(e) => Err(code(&e)),
            Ok(r) => {
                if hasbase {
                    match GuestRegionMmap::new(r, GuestAddress(base)) {
                        Ok(g) => Ok(Built::Guest(g)),
                        Err(vm_memory::mmap::Error::InvalidGuestRegion) => Err(6),
                        Err(_) => Err(14),
                    }
                } else {
                    Ok(Built::Plain(r))
                }
            }
        }
    });
    drop(fo);
    let m1 = mapped_bytes();
    let mut out: Vec<Tok> = vec![n(probe)];
    match &built {
        None => out.extend([99u64, 0, 0, 0, 0, 0, 0, 0, 0, 0].iter().map(|x| n(*x))),
        Some(Err(c)) => out.extend([*c, 0, 0, 0, 0, 0, 0, 0, 0, 0].iter().map(|x| n(*x))),
        Some(Ok(b)) => {
            let r: &MmapRegion<()> = match b {
                Built::Guest(g) => g,
                Built::Plain(r) => r,
            };
            let (hf, st, same) = match r.file_offset() {
                Some(f) => (1u64, f.start(), (f.file().as_raw_fd() == passed_fd) as u64),
                None => (0, 0, 0),
            };
            out.extend(
                [0, r.size() as u64, r.prot() as u32 as u64, r.flags() as u32 as u64, hf, st, same,
                 r.xen_mmap_flags() as u64, r.xen_mmap_data() as u64, r.as_ptr().is_null() as u64]
                    .iter()
                    .map(|x| n(*x)),
            );
        }
    }
    let alive = matches!(built, Some(Ok(_)));
    drop(built);
    let m2 = mapped_bytes();
    let pos = match fd {
        Some(fd) => unsafe { libc::lseek(fd, 0, libc::SEEK_CUR) as u64 },
        None => 0,
    };
    out.push(n(pos));
    out.push(n(if alive { m1.wrapping_sub(m0) } else { 0 }));
    out.push(n(m2.wrapping_sub(m0)));
    let mut evs: Vec<u128> = Vec::new();
    for e in dev_take() {
        match e {
            DevEv::Map { gref, count, index } => evs.extend([1, gref as u128, count as u128, index as u128]),
            DevEv::Unmap { index, count } => evs.extend([2, index as u128, count as u128]),
            DevEv::Foreign { count, ok } => evs.extend([3, count as u128, ok as u128]),
        }
    }
    out.push(Tok::L(evs));
    out.push(n(dev_live()));
    if let Some(fd) = fd {
        unsafe { libc::close(fd) };
    }
    out
}

enum Built {
    Plain(MmapRegion<()>),
    Guest(GuestRegionMmap<()>),
}

fn gen(rng: &mut Rng, tier: Tier, emit: &mut dyn FnMut(Vec<Tok>)) {
    let mode = crate::build_mode();
    let page = unsafe { libc::sysconf(libc::_SC_PAGESIZE) } as u64;
    let mut case = |size: u64, file: Option<(u64, u64)>, prot: Option<i32>, flags: Option<i32>, addr: u64, mflags: u32, mdata: u32, base: Option<u64>, ioc: bool| {
        let (hf, fl, st) = match file {
            Some((l, s)) => (1u64, l, s),
            None => (0, 0, 0),
        };
        emit(vec![
            n(mode), n(size), n(hf), n(fl), n(st), n(prot.is_some() as u64), n(prot.unwrap_or(0) as u32),
            n(flags.is_some() as u64), n(flags.unwrap_or(0) as u32), n(addr), n(mflags), n(mdata),
            n(base.is_some() as u64), n(base.unwrap_or(0)), n(page), n(ioc as u64),
        ])
    };
    let dev = Some((64 * page, 0u64));
    let shared = libc::MAP_SHARED;
    let anon = libc::MAP_ANONYMOUS | libc::MAP_PRIVATE;
    // every flag word 0..31 and words with high bits x file / no file / non-zero offset x ioctl answer
    let mut words: Vec<u32> = (0..64).collect();
    for b in 6..32 {
        for low in [0u32, 1, 2, 0xA] {
            words.push((1 << b) | low);
        }
    }
    words.extend([0xFFFF_FFFF, 0x8000_0000, 0x7FFF_FFF5, 0xFFFF_FFF4, 0x10, 0x1A, 0x4A]);
    for &w in &words {
        for &size in &[1u64, page, 3 * page + 5] {
            case(size, dev, None, None, 0x10 * page, w, 7, None, true);
            case(size, None, None, None, 0x10 * page, w, 7, None, true);
            case(size, Some((64 * page, page)), None, None, 0x10 * page, w, 0, None, true);
            case(size, dev, None, None, 0x10 * page, w, 0, None, false);
            case(size, None, None, Some(anon), 0x10 * page, w, 0, None, true);
            case(size, dev, Some(libc::PROT_READ), Some(shared), 0x10 * page, w, 0x1234, None, true);
            case(size, dev, None, Some(shared | libc::MAP_FIXED), 0x10 * page, w, 0, None, true);
        }
    }
    // unix type: file ranges around EOF and the overflow boundary (same decision as the unix build)
    for &fl in &[0u64, 1, page, page + 1, 3 * page + 5] {
        for &st in &[0u64, page, 2 * page, 1] {
            for d in -2i64..=2 {
                let end = fl as i64 + d;
                if end >= st as i64 {
                    case((end - st as i64) as u64, Some((fl, st)), None, None, 0, 0, 0, None, true);
                    case((end - st as i64) as u64, Some((fl, st)), None, Some(libc::MAP_PRIVATE), 0, 0, 0, Some(0x1000), true);
                }
            }
        }
    }
    for &st in &[u64::MAX, u64::MAX - page + 1, 1 << 63] {
        for &size in &[0u64, 1, page, u64::MAX - st, (u64::MAX - st).wrapping_add(1)] {
            case(size, Some((page, st)), None, None, 0, 0, 0, None, true);
            case(size, Some((page, st)), None, None, 0, 1, 0, None, true);
            case(size.min(1 << 20), Some((page, st)), None, None, 0, 2, 0, None, true);
        }
    }
    // sizes the kernel refuses, anonymous unix type
    for &size in &[0u64, 1 << 47, u64::MAX] {
        case(size, None, None, Some(anon), 0, 0, 0, None, true);
    }
    case(0, dev, None, None, 0x10 * page, 1, 0, None, true);
    case(0, dev, None, None, 0x10 * page, 2, 0, None, true);
    case(0, dev, None, None, 0x10 * page, 0xA, 0, None, true);
    // guest base + size around 2^64, every valid type
    for &w in &[0u32, 1, 2, 0xA] {
        for &size in &[1u64, page, 2 * page + 1] {
            for d in -2i64..=2 {
                let base = 0u64.wrapping_sub(size).wrapping_add(d as u64);
                let file = if w == 0 { None } else { dev };
                let flags = if w == 0 { Some(anon) } else { None };
                case(size, file, None, flags, 0x20 * page, w, 0, Some(base), true);
            }
        }
    }
    let nrand = if tier == Tier::Quick { 1500 } else { 50_000 };
    for _ in 0..nrand {
        let w = match rng.below(4) {
            0 => rng.below(16) as u32,
            1 => *rng.pick(&[0u32, 1, 2, 0xA]),
            2 => rng.next() as u32,
            _ => (rng.below(16) as u32) | (1 << rng.range(4, 31)),
        };
        let size = match rng.below(3) {
            0 => rng.below(8 * page),
            1 => page * rng.below(9),
            _ => rng.range(1, 64),
        };
        let file = match rng.below(5) {
            0 => None,
            1 => Some((64 * page, page * rng.below(3))),
            2 => Some((rng.below(8 * page), rng.below(2 * page))),
            _ => dev,
        };
        let xen_advance_grant = (w & 0xB) == 2;
        let flags = match rng.below(4) {
            0 => None,
            1 => Some(shared),
            2 => Some(if xen_advance_grant { shared } else { anon }),
            _ => Some(shared | if rng.chance(1, 3) { libc::MAP_FIXED } else { libc::MAP_NORESERVE }),
        };
        let prot = if rng.bool() { None } else { Some(*rng.pick(&[1, 3, 3])) };
        let base = if rng.chance(1, 3) { Some(if rng.bool() { rng.below(1 << 40) } else { 0u64.wrapping_sub(size).wrapping_add(rng.below(5)).wrapping_sub(2) }) } else { None };
        case(size, file, prot, flags, page * rng.below(1 << 16) + if rng.chance(1, 4) { rng.below(page) } else { 0 }, w, rng.next() as u32 & 0xFFFF, base, rng.chance(5, 6));
    }
}

/// candidate finding: grant mapped in advance, map ioctl accepted, mmap refused (flags without
/// MAP_SHARED / MAP_PRIVATE): from_range fails and the grant mapping stays in the device
fn gen_find(_rng: &mut Rng, _tier: Tier, emit: &mut dyn FnMut(Vec<Tok>)) {
    let mode = crate::build_mode();
    let page = unsafe { libc::sysconf(libc::_SC_PAGESIZE) } as u64;
    for &flags in &[0u32, libc::MAP_NORESERVE as u32] {
        emit(vec![
            n(mode), n(2 * page), n(1u8), n(64 * page), n(0u8), n(0u8), n(0u8), n(1u8), n(flags), n(0x10 * page), n(2u8),
            n(0u8), n(0u8), n(0u8), n(page), n(1u8),
        ]);
    }
}

// ------------------------------------------------------------------------------------------------
// C15xu: the constructors an ordinary caller of a Xen build reaches for a Xen-UNIX range, in particular
// FILE-BACKED ones: MmapRange::new_unix(size, Some(file), ..), GuestRegionMmap::from_range(.., Some(file)),
// GuestMemoryMmap::from_ranges_with_files.
// case:  mode route size hasfile filelen start hasbase base page huge
// obs:   probe res size prot flags hasfile start samefd xflags xdata pos d1 d2 coh1 coh2 huge mprot
//   route 0 MmapRegion::from_range(new_unix(..)) [+ set_hugetlbfs] [+ GuestRegionMmap::new(base)], 1 GuestRegionMmap::from_range,
//   2 from_ranges_with_files (one range).  coh1/coh2: pwrite -> region / region -> pread (1 equal, 0 different,
//   2 not examined); mprot: permission column of /proc/self/maps at as_ptr() (r 1, w 2, x 4, shared 8).
enum BuiltU {
    Plain(MmapRegion<()>),
    Guest(GuestRegionMmap<()>),
    Map(GuestMemoryMmap<()>),
}
fn gcode_u(e: &vm_memory::mmap::Error) -> u64 {
    match e {
        vm_memory::mmap::Error::InvalidGuestRegion => 6,
        vm_memory::mmap::Error::MmapRegion(e) => code(e),
        _ => 14,
    }
}
fn exec_u(case: &[Tok]) -> Vec<Tok> {
    assert!(case.len() == 10);
    let route = case[1].u();
    let size = case[2].u() as usize;
    let (hasfile, flen, start) = (case[3].u() != 0, case[4].u(), case[5].u());
    let (hasbase, base) = (case[6].u() != 0, case[7].u());
    let page = unsafe { libc::sysconf(libc::_SC_PAGESIZE) } as u64;
    assert!(case[8].u() == page);
    let huge = case[9].u();
    assert!(route < 3 && (route == 0 || hasbase) && huge < 3 && (route == 0 || huge == 0));

    let fd = if hasfile { Some(memfd(flen).expect("file length refused")) } else { None };
    if let Some(fd) = fd {
        unsafe { libc::lseek(fd, 7, libc::SEEK_SET) };
    }
    // independent probe: would the kernel grant a mapping of this range at all?  (shared for a file, private
    // anonymous otherwise - the kinds of mapping the property speaks about)
    let probe: u64 = {
        let fl = if hasfile { libc::MAP_SHARED } else { libc::MAP_ANONYMOUS | libc::MAP_PRIVATE };
        let p = unsafe {
            libc::mmap(std::ptr::null_mut(), size, libc::PROT_READ | libc::PROT_WRITE, fl,
                       fd.unwrap_or(-1), if hasfile { start as libc::off_t } else { 0 })
        };
        if p == libc::MAP_FAILED {
            0
        } else {
            unsafe { libc::munmap(p, size) };
            1
        }
    };
    let mut passed_fd = -1;
    let fo = fd.map(|fd| {
        let d = unsafe { libc::dup(fd) };
        assert!(d >= 0);
        passed_fd = d;
        FileOffset::new(unsafe { File::from_raw_fd(d) }, start)
    });
    let m0 = mapped_bytes();
    let built: Option<Result<BuiltU, u64>> = util::catch(|| match route {
        0 => {
            let mut range = MmapRange::new_unix(size, fo.clone(), GuestAddress(if hasbase { base } else { 0 }));
            if huge != 0 {
                range.set_hugetlbfs(huge == 2);
            }
            match MmapRegion::<()>::from_range(range) {
                Err(e) => Err(code(&e)),
                Ok(r) => {
                    if hasbase {
                        GuestRegionMmap::new(r, GuestAddress(base)).map(BuiltU::Guest).map_err(|e| gcode_u(&e))
                    } else {
                        Ok(BuiltU::Plain(r))
                    }
                }
            }
        }
        1 => GuestRegionMmap::<()>::from_range(GuestAddress(base), size, fo.clone())
            .map(BuiltU::Guest)
            .map_err(|e| gcode_u(&e)),
        _ => GuestMemoryMmap::<()>::from_ranges_with_files(vec![(GuestAddress(base), size, fo.clone())])
            .map(BuiltU::Map)
            .map_err(|e| gcode_u(&e)),
    });
    drop(fo);
    let m1 = mapped_bytes();
    let mut out: Vec<Tok> = vec![n(probe)];
    let mut tail = (2u64, 2u64, 0u64, 0u64); // coh1 coh2 huge mprot
    match &built {
        None => out.extend([99u64, 0, 0, 0, 0, 0, 0, 0, 0].iter().map(|x| n(*x))),
        Some(Err(c)) => out.extend([*c, 0, 0, 0, 0, 0, 0, 0, 0].iter().map(|x| n(*x))),
        Some(Ok(b)) => {
            let g: Option<&GuestRegionMmap<()>> = match b {
                BuiltU::Plain(_) => None,
                BuiltU::Guest(g) => Some(g),
                BuiltU::Map(m) => Some(m.iter().next().expect("one region")),
            };
            let r: &MmapRegion<()> = match b {
                BuiltU::Plain(r) => r,
                _ => g.unwrap(),
            };
            let (hf, st, same) = match r.file_offset() {
                Some(f) => (1u64, f.start(), (f.file().as_raw_fd() == passed_fd) as u64),
                None => (0, 0, 0),
            };
            out.extend(
                [0, r.size() as u64, r.prot() as u32 as u64, r.flags() as u32 as u64, hf, st, same,
                 r.xen_mmap_flags() as u64, r.xen_mmap_data() as u64]
                    .iter()
                    .map(|x| n(*x)),
            );
            tail.2 = match r.is_hugetlbfs() {
                None => 0,
                Some(false) => 1,
                Some(true) => 2,
            };
            tail.3 = if r.as_ptr().is_null() { 16 } else { maps_perms(r.as_ptr() as u64) };
            // a file was handed in: byte i of the region is byte start+i of the file, both directions
            // (examined whatever the region says about itself)
            if hasfile && r.size() > 0 && r.size() <= (1 << 20) && !r.as_ptr().is_null() && (tail.3 & 3) == 3 {
                let sz = r.size();
                let fd = fd.unwrap();
                let mut rng = Rng::new(size as u64 ^ start ^ 0xC15);
                let pat = rng.bytes(sz);
                let w = unsafe { libc::pwrite(fd, pat.as_ptr() as *const libc::c_void, sz, start as libc::off_t) };
                assert!(w == sz as isize);
                let raw: Vec<u8> = (0..sz).map(|i| unsafe { std::ptr::read_volatile(r.as_ptr().add(i)) }).collect();
                let mut via = vec![0u8; sz];
                let lib_ok = match g {
                    Some(g) => g.read_slice(&mut via, MemoryRegionAddress(0)).is_ok() && via == pat,
                    None => true,
                };
                tail.0 = (raw == pat && lib_ok) as u64;
                let pat2 = rng.bytes(sz);
                match g {
                    // through the library where there is a guest region, else through the raw pointer
                    Some(g) => g.write_slice(&pat2, MemoryRegionAddress(0)).expect("write_slice"),
                    None => {
                        for i in 0..sz {
                            unsafe { std::ptr::write_volatile(r.as_ptr().add(i), pat2[i]) };
                        }
                    }
                }
                let mut back = vec![0u8; sz];
                let rd = unsafe { libc::pread(fd, back.as_mut_ptr() as *mut libc::c_void, sz, start as libc::off_t) };
                tail.1 = (rd == sz as isize && back == pat2) as u64;
            }
        }
    }
    let alive = matches!(built, Some(Ok(_)));
    drop(built);
    let m2 = mapped_bytes();
    let pos = match fd {
        Some(fd) => unsafe { libc::lseek(fd, 0, libc::SEEK_CUR) as u64 },
        None => 0,
    };
    out.push(n(pos));
    out.push(n(if alive { m1.wrapping_sub(m0) } else { 0 }));
    out.push(n(m2.wrapping_sub(m0)));
    out.extend([n(tail.0), n(tail.1), n(tail.2), n(tail.3)]);
    if let Some(fd) = fd {
        unsafe { libc::close(fd) };
    }
    out
}

fn gen_u(rng: &mut Rng, tier: Tier, emit: &mut dyn FnMut(Vec<Tok>)) {
    let mode = crate::build_mode();
    let page = unsafe { libc::sysconf(libc::_SC_PAGESIZE) } as u64;
    let mut case = |route: u64, size: u64, file: Option<(u64, u64)>, base: Option<u64>, huge: u64| {
        let (hf, fl, st) = match file {
            Some((l, s)) => (1u64, l, s),
            None => (0, 0, 0),
        };
        let base = if route != 0 && base.is_none() { Some(0x10000) } else { base };
        let huge = if route == 0 { huge } else { 0 };
        emit(vec![
            n(mode), n(route), n(size), n(hf), n(fl), n(st), n(base.is_some() as u64), n(base.unwrap_or(0)),
            n(page), n(huge),
        ])
    };
    // 1. file ranges around EOF, every route, with / without a guest base, every label
    let lens = [0u64, 1, 5, page - 1, page, page + 1, 2 * page, 3 * page + 5];
    for &fl in &lens {
        for &st in &[0u64, page, 2 * page, 1, page + 7] {
            for d in -2i64..=2 {
                let end = fl as i64 + d;
                if end < st as i64 {
                    continue;
                }
                let size = (end - st as i64) as u64;
                for route in 0..3u64 {
                    case(route, size, Some((fl, st)), Some(0x1000), (size + st / page + route) % 3);
                }
                case(0, size, Some((fl, st)), None, (size + 1) % 3);
            }
        }
    }
    // 2. file ranges around the 2^64 overflow boundary
    for &st in &[u64::MAX, u64::MAX - page + 1, 1 << 63, (1 << 63) - page] {
        for &size in &[0u64, 1, page, u64::MAX - st, (u64::MAX - st).wrapping_add(1), (u64::MAX - st).wrapping_sub(1)] {
            for route in 0..3u64 {
                case(route, size, Some((page, st)), Some(0), 0);
            }
        }
    }
    // 3. anonymous ranges: sizes the kernel refuses, ordinary sizes, labels
    for &size in &[0u64, 1, page - 1, page, page + 1, 5 * page, 1 << 30, 1 << 47, u64::MAX] {
        for route in 0..3u64 {
            case(route, size, None, Some(0x2000), 0);
        }
        for h in 0..3u64 {
            case(0, size, None, None, h);
        }
    }
    // 4. guest base + size around 2^64, every route, with and without a file
    for &size in &[0u64, 1, page, 3 * page + 1] {
        for d in -3i64..=3 {
            let base = 0u64.wrapping_sub(size).wrapping_add(d as u64);
            for route in 0..3u64 {
                case(route, size, None, Some(base), 0);
                case(route, size, Some((8 * page, page)), Some(base), 2);
                case(route, size, Some((size, 0)), Some(base), 1);
            }
        }
    }
    // 5. random requests
    let nrand = if tier == Tier::Quick { 1200 } else { 40_000 };
    for _ in 0..nrand {
        let route = rng.below(3);
        let fl = *rng.pick(&lens) + if rng.chance(1, 4) { rng.below(3 * page) } else { 0 };
        let st = match rng.below(4) {
            0 => 0,
            1 | 2 => page * rng.below(4),
            _ => rng.below(2 * page),
        };
        let size = match rng.below(4) {
            0 => rng.below(4 * page),
            1 | 2 => fl.wrapping_sub(st).wrapping_add(rng.below(5)).wrapping_sub(2) % (1 << 40),
            _ => page * rng.below(6),
        };
        let file = if rng.chance(3, 4) { Some((fl, st)) } else { None };
        let base = if rng.chance(2, 3) {
            Some(if rng.bool() { rng.below(1 << 40) } else { 0u64.wrapping_sub(size).wrapping_add(rng.below(5)).wrapping_sub(2) })
        } else {
            None
        };
        case(route, size, file, base, rng.below(3));
    }
}

// ------------------------------------------------------------------------------------------------
// C15xm (w9): the requests of C15xen (explicit prot / flags x file x mapping type), observing what the kernel was
// asked to map and what the hypervisor interface was asked for.
// case:  mode size hasfile filelen start hasprot prot hasflags flags addr mflags mdata hasbase base page ioctl
// obs:   probe res prot flags ptrnull mprot coh1 coh2 [fev]
//   mprot: permission column of /proc/self/maps at as_ptr() (r 1, w 2, x 4, shared 8; 16 = null pointer / no line);
//   coh1 / coh2 (Xen-UNIX file ranges, rw, 0 < size <= 1 MiB): pwrite -> region / region -> pread (1 equal, 0 different,
//   2 not examined);  fev: [] or the ONE privcmd batch request: [dom, addr_ok, num, frame*] - addr_ok 1 the request
//   names the address of the region that was built, 0 another address, 2 no region to compare with.
fn exec_m(case: &[Tok]) -> Vec<Tok> {
    assert!(case.len() == 16);
    let size = case[1].u() as usize;
    let (hasfile, flen, start) = (case[2].u() != 0, case[3].u(), case[4].u());
    let (hasprot, prot) = (case[5].u() != 0, case[6].u() as u32 as i32);
    let (hasflags, flags) = (case[7].u() != 0, case[8].u() as u32 as i32);
    let (addr, mflags, mdata) = (case[9].u(), case[10].u() as u32, case[11].u() as u32);
    let (hasbase, base) = (case[12].u() != 0, case[13].u());
    let page = unsafe { libc::sysconf(libc::_SC_PAGESIZE) } as u64;
    assert!(case[14].u() == page);
    let ioctl_ok = case[15].u() != 0;
    assert!(size as u64 <= (1 << 20));

    dev_install();
    dev_reset(!ioctl_ok);
    let fd = if hasfile { Some(memfd(flen).expect("file length refused")) } else { None };
    // independent probe of the mmap the back end will issue (as in C15xen)
    let eprot = if hasprot { prot } else { libc::PROT_READ | libc::PROT_WRITE };
    let eflags = if hasflags { flags } else { libc::MAP_NORESERVE | libc::MAP_SHARED };
    let rounded = (size as u64).div_ceil(page).wrapping_mul(page) as usize;
    let try_map = |len: usize, fl: i32, fd: i32, off: u64| -> u64 {
        let p = unsafe { libc::mmap(std::ptr::null_mut(), len, eprot, fl, fd, off as libc::off_t) };
        if p == libc::MAP_FAILED {
            0
        } else {
            unsafe { libc::munmap(p, len) };
            1
        }
    };
    let probe: u64 = if eflags & libc::MAP_FIXED != 0 {
        2
    } else if mflags & 1 != 0 {
        fd.map_or(2, |fd| try_map(rounded, eflags | libc::MAP_SHARED, fd, 0))
    } else if mflags & 2 != 0 {
        if mflags & 8 != 0 {
            2
        } else {
            let gref = ((addr & !(1u64 << 63)) / page) as u32 as u64;
            fd.map_or(2, |fd| try_map(rounded, eflags, fd, gref * page))
        }
    } else {
        try_map(size, eflags, fd.unwrap_or(-1), if hasfile { start } else { 0 })
    };

    let fo = fd.map(|fd| {
        let d = unsafe { libc::dup(fd) };
        assert!(d >= 0);
        FileOffset::new(unsafe { File::from_raw_fd(d) }, start)
    });
    let built: Option<Result<Built, u64>> = util::catch(|| {
        let mut range = MmapRange::new(size, fo.clone(), GuestAddress(addr), mflags, mdata);
        if hasprot {
            range.set_prot(prot);
        }
        if hasflags {
            range.set_flags(flags);
        }
        match MmapRegion::<()>::from_range(range) {
            Err(e) => Err(code(&e)),
            Ok(r) => {
                if hasbase {
                    match GuestRegionMmap::new(r, GuestAddress(base)) {
                        Ok(g) => Ok(Built::Guest(g)),
                        Err(vm_memory::mmap::Error::InvalidGuestRegion) => Err(6),
                        Err(_) => Err(14),
                    }
                } else {
                    Ok(Built::Plain(r))
                }
            }
        }
    });
    drop(fo);
    let reqs = dev_take_foreign();
    let mut out: Vec<Tok> = vec![n(probe)];
    let mut region_ptr: Option<u64> = None;
    match &built {
        None => out.extend([99u64, 0, 0, 0, 0, 2, 2].iter().map(|x| n(*x))),
        Some(Err(c)) => out.extend([*c, 0, 0, 0, 0, 2, 2].iter().map(|x| n(*x))),
        Some(Ok(b)) => {
            let r: &MmapRegion<()> = match b {
                Built::Guest(g) => g,
                Built::Plain(r) => r,
            };
            let ptr = r.as_ptr();
            region_ptr = Some(ptr as u64);
            let mprot = if ptr.is_null() { 16 } else { maps_perms(ptr as u64) };
            let (mut coh1, mut coh2) = (2u64, 2u64);
            // a Xen-UNIX range with a file: byte i of the region against byte start+i of the file, both directions
            // (examined whatever the region says about itself)
            if mflags == 0 && hasfile && r.size() > 0 && r.size() <= (1 << 20) && !ptr.is_null() && (mprot & 3) == 3 {
                let sz = r.size();
                let fd = fd.unwrap();
                let mut rng = Rng::new(size as u64 ^ start ^ 0xC15A);
                let pat: Vec<u8> = rng.bytes(sz).iter().map(|b| b | 1).collect();
                let w = unsafe { libc::pwrite(fd, pat.as_ptr() as *const libc::c_void, sz, start as libc::off_t) };
                assert!(w == sz as isize);
                let raw: Vec<u8> = (0..sz).map(|i| unsafe { std::ptr::read_volatile(ptr.add(i)) }).collect();
                coh1 = (raw == pat) as u64;
                let pat2: Vec<u8> = pat.iter().map(|b| !b).collect();
                for i in 0..sz {
                    unsafe { std::ptr::write_volatile(ptr.add(i), pat2[i]) };
                }
                let mut back = vec![0u8; sz];
                let rd = unsafe { libc::pread(fd, back.as_mut_ptr() as *mut libc::c_void, sz, start as libc::off_t) };
                coh2 = (rd == sz as isize && back == pat2) as u64;
            }
            out.extend(
                [0, r.prot() as u32 as u64, r.flags() as u32 as u64, ptr.is_null() as u64, mprot, coh1, coh2]
                    .iter()
                    .map(|x| n(*x)),
            );
        }
    }
    let mut fev: Vec<u128> = Vec::new();
    assert!(reqs.len() <= 1, "more than one privcmd request for one range");
    for q in &reqs {
        let aok = match region_ptr {
            Some(p) => (p == q.addr) as u128,
            None => 2,
        };
        fev.extend([q.dom as u128, aok, q.frames.len() as u128]);
        fev.extend(q.frames.iter().map(|f| *f as u128));
    }
    out.push(Tok::L(fev));
    drop(built);
    dev_take();
    if let Some(fd) = fd {
        unsafe { libc::close(fd) };
    }
    out
}

fn gen_m(rng: &mut Rng, tier: Tier, emit: &mut dyn FnMut(Vec<Tok>)) {
    let mode = crate::build_mode();
    let page = unsafe { libc::sysconf(libc::_SC_PAGESIZE) } as u64;
    let mut case = |size: u64, file: Option<(u64, u64)>, prot: Option<i32>, flags: Option<i32>, addr: u64, mflags: u32, mdata: u32, base: Option<u64>, ioc: bool| {
        let (hf, fl, st) = match file {
            Some((l, s)) => (1u64, l, s),
            None => (0, 0, 0),
        };
        emit(vec![
            n(mode), n(size), n(hf), n(fl), n(st), n(prot.is_some() as u64), n(prot.unwrap_or(0) as u32),
            n(flags.is_some() as u64), n(flags.unwrap_or(0) as u32), n(addr), n(mflags), n(mdata),
            n(base.is_some() as u64), n(base.unwrap_or(0)), n(page), n(ioc as u64),
        ])
    };
    let dev = Some((64 * page, 0u64));
    let (sh, pr, nr) = (libc::MAP_SHARED, libc::MAP_PRIVATE, libc::MAP_NORESERVE);
    let anon = libc::MAP_ANONYMOUS | libc::MAP_PRIVATE;
    let prots = [None, Some(0), Some(1), Some(2), Some(3)];
    let fl_file = [None, Some(sh), Some(pr), Some(sh | nr), Some(pr | nr)];
    // 1. every valid mapping type x protection {default, 0, 1, 2, 3} x {default, shared, private (+ NORESERVE)} with a file
    for &w in &[0u32, 1, 2, 0xA] {
        for &size in &[1u64, page, 3 * page + 5] {
            for &p in &prots {
                for &f in &fl_file {
                    case(size, dev, p, f, 0x10 * page, w, 7, None, true);
                }
            }
        }
    }
    // 2. Xen-UNIX: file at a non-zero offset, range ending at EOF; anonymous (with and without a file handed in)
    for &size in &[1u64, page - 1, page, 2 * page + 7] {
        for &p in &prots {
            for &f in &fl_file {
                case(size, Some((page + size, page)), p, f, 0, 0, 0, Some(0x1000), true);
            }
            case(size, None, p, Some(anon), 0, 0, 0, None, true);
            case(size, dev, p, Some(anon), 0, 0, 0, None, true);
            case(size, None, p, Some(libc::MAP_ANONYMOUS | sh), 0, 0, 0, None, true);
        }
    }
    // 3. foreign: page counts 1..9, guest addresses, domain ids (also above 16 bits), refused ioctl, refused base
    for np in 1..=9u64 {
        for &a in &[0u64, page, 0x10 * page, 0x12345 * page + 5, (1 << 52) - page, u64::MAX - 7 * page] {
            for &(dom, f) in &[(0u32, None), (7, Some(sh)), (0xFFFF, Some(pr)), (0x1_0005, None)] {
                case(np * page - (np % 3), dev, None, f, a, 1, dom, None, true);
            }
        }
        case(np * page, dev, None, None, 0x40 * page, 1, 3, None, false);
        case(np * page, dev, Some(1), None, 0x40 * page, 1, 3, Some(0u64.wrapping_sub(np * page)), true);
    }
    let nrand = if tier == Tier::Quick { 800 } else { 30_000 };
    for _ in 0..nrand {
        let w = *rng.pick(&[0u32, 0, 1, 1, 2, 0xA]);
        let size = match rng.below(3) {
            0 => 1 + rng.below(8 * page),
            1 => page * (1 + rng.below(9)),
            _ => rng.range(1, 64),
        };
        let file = if w == 0 {
            match rng.below(4) {
                0 => None,
                1 => Some((64 * page, page * rng.below(3))),
                _ => dev,
            }
        } else {
            dev
        };
        // grant mapped in advance: keep to flags the kernel grants (a refused mmap after an accepted map ioctl is the
        // candidate finding of C15xenfind)
        let flags = if file.is_none() {
            Some(anon)
        } else {
            *rng.pick(&fl_file)
        };
        let prot = *rng.pick(&prots);
        let base = if rng.chance(1, 4) { Some(rng.below(1 << 40)) } else { None };
        case(size, file, prot, flags, page * rng.below(1 << 20) + if rng.chance(1, 4) { rng.below(page) } else { 0 }, w,
             rng.next() as u32 & 0x1FFFF, base, rng.chance(7, 8));
    }
}
