//! C18 (xen build): every zero-length entry point of suite C18 on Xen regions - unix, foreign, grant mapped in
//! advance, grant mapped ON DEMAND (GRANT | NO_ADVANCE_MAP) - at page-aligned and unaligned offsets, over the
//! emulated gntdev / privcmd of c17_xen.rs (hook H3; the "device" is a memfd, index = grant reference * page).
//!
//! case:  mode rkind size gbase page layer op sub_off sub_len addr esz n k sk      (layer / op / esz.. as in c18.rs)
//!   rkind 0 unix (anonymous) | 1 foreign | 2 grant, mapped in advance | 3 grant, mapped on demand
//! obs:   class(0 Ok,1 Err,2 panic) ecode count ext [changed byte indices] [device events] live mapped
//!   device events: the log of the emulated device DURING the call (1 gref count index = map ioctl | 2 index count =
//!   unmap ioctl): must be empty; live = grant mappings the device holds afterwards; mapped = bytes of the device
//!   file mapped into the process afterwards (/proc/self/maps).
//! Observation does not use the accessors under test: the bytes of the region are written before and read after the
//! call through the backing device file (pwrite / pread; raw pointer for the anonymous unix region).
//! Not run on on-demand regions: ops 16/17 (copy_to_volatile_slice takes no guard there: known finding F6b).
//! In the xen build this file also provides the empty stand-in for suite C18 (c18.rs is not compiled there).
use super::c17_xen::{dev_install, dev_live, dev_mapped, dev_memfd, dev_reset, dev_take, file_offset_of, DevEv};
use crate::tok::n;
use crate::{util, Rng, Suite, Tier, Tok};
use std::io::{Cursor, Seek, SeekFrom, Write};
use std::os::fd::FromRawFd;
use vm_memory::bitmap::BitmapSlice;
use vm_memory::{
    ByteValued, Bytes, GuestAddress, GuestMemory, GuestMemoryError, GuestMemoryMmap, GuestMemoryRegion, GuestRegionMmap,
    MemoryRegionAddress, MmapRange, MmapRegion, VolatileMemory, VolatileMemoryError, VolatileSlice,
};

fn nogen(_: &mut Rng, _: Tier, _: &mut dyn FnMut(Vec<Tok>)) {}
fn noexec(_: &[Tok]) -> Vec<Tok> {
    vec![Tok::N(0xbad0bad)]
}

pub const SUITES: &[Suite] = &[
    Suite { name: "C18xen", gen, exec },
    Suite { name: "C18", gen: nogen, exec: noexec },
    Suite { name: "C18huge", gen: nogen, exec: noexec },
];

const FILL: u8 = 0xaa;
const SRC: u8 = 0x5a;

type R4 = (u64, u64, u64, u64); // class, ecode, count, ext

fn vcode(e: &VolatileMemoryError) -> u64 {
    match e {
        VolatileMemoryError::OutOfBounds { .. } => 10,
        VolatileMemoryError::Overflow { .. } => 11,
        VolatileMemoryError::TooBig { .. } => 12,
        VolatileMemoryError::Misaligned { .. } => 13,
        VolatileMemoryError::IOError(_) => 2,
        VolatileMemoryError::PartialBuffer { .. } => 3,
    }
}
fn gcode(e: &GuestMemoryError) -> u64 {
    match e {
        GuestMemoryError::InvalidGuestAddress(_) => 1,
        GuestMemoryError::IOError(_) => 2,
        GuestMemoryError::PartialBuffer { .. } => 3,
        GuestMemoryError::InvalidBackendAddress => 4,
        GuestMemoryError::HostAddressNotAvailable => 5,
        GuestMemoryError::CallbackOutOfRange => 6,
        GuestMemoryError::GuestAddressOverflow => 7,
    }
}

fn fin<T, E>(r: Option<Result<T, E>>, cnt: impl FnOnce(T) -> u64, code: fn(&E) -> u64, ext: bool) -> R4 {
    match r {
        None => (2, 0, 0, 0),
        Some(Ok(v)) => (0, 0, cnt(v), ext as u64),
        Some(Err(e)) => (1, code(&e), 0, 0),
    }
}

fn memfd(content: &[u8]) -> std::fs::File {
    let fd = unsafe { libc::memfd_create(b"vmh18\0".as_ptr() as *const libc::c_char, 0) };
    assert!(fd >= 0);
    let mut f = unsafe { std::fs::File::from_raw_fd(fd) };
    f.write_all(content).unwrap();
    f.rewind().unwrap();
    f
}
fn file_state(f: &mut std::fs::File) -> (u64, u64) {
    let pos = f.stream_position().unwrap();
    let len = f.seek(SeekFrom::End(0)).unwrap();
    (pos, len)
}

/// ops 0..=9 on any implementor of Bytes<A>
fn bytes_op<A: Copy, E, T: Bytes<A, E = E>>(t: &T, a: A, op: u64, k: usize, sk: u64, code: fn(&E) -> u64) -> R4 {
    match op {
        0 => fin(util::catch(|| t.write(&[], a)), |v| v as u64, code, false),
        1 => {
            let mut b: [u8; 0] = [];
            fin(util::catch(|| t.read(&mut b, a)), |v| v as u64, code, false)
        }
        2 => fin(util::catch(|| t.write_slice(&[], a)), |_| 0, code, false),
        3 => {
            let mut b: [u8; 0] = [];
            fin(util::catch(|| t.read_slice(&mut b, a)), |_| 0, code, false)
        }
        4 => fin(util::catch(|| t.write_obj::<[u8; 0]>([], a)), |_| 0, code, false),
        5 => fin(util::catch(|| t.read_obj::<[u8; 0]>(a)), |_| 0, code, false),
        6 | 7 => {
            let src = vec![SRC; k];
            match sk {
                0 => {
                    let mut s: &[u8] = &src[..];
                    let r = util::catch(|| if op == 6 { t.read_volatile_from(a, &mut s, 0).map(|v| v as u64) } else { t.read_exact_volatile_from(a, &mut s, 0).map(|_| 0) });
                    let ext = s.len() != k;
                    fin(r, |v| v, code, ext)
                }
                1 => {
                    let mut s = Cursor::new(&src[..]);
                    let r = util::catch(|| if op == 6 { t.read_volatile_from(a, &mut s, 0).map(|v| v as u64) } else { t.read_exact_volatile_from(a, &mut s, 0).map(|_| 0) });
                    let ext = s.position() != 0;
                    fin(r, |v| v, code, ext)
                }
                _ => {
                    let mut f = memfd(&src);
                    let r = util::catch(|| if op == 6 { t.read_volatile_from(a, &mut f, 0).map(|v| v as u64) } else { t.read_exact_volatile_from(a, &mut f, 0).map(|_| 0) });
                    let ext = file_state(&mut f) != (0, k as u64);
                    fin(r, |v| v, code, ext)
                }
            }
        }
        8 | 9 => match sk {
            0 => {
                let mut buf = vec![SRC; k];
                let left;
                let r;
                {
                    let mut s: &mut [u8] = &mut buf[..];
                    r = util::catch(|| if op == 8 { t.write_volatile_to(a, &mut s, 0).map(|v| v as u64) } else { t.write_all_volatile_to(a, &mut s, 0).map(|_| 0) });
                    left = s.len();
                }
                let ext = left != k || buf.iter().any(|b| *b != SRC);
                fin(r, |v| v, code, ext)
            }
            1 => {
                let mut v: Vec<u8> = Vec::new();
                let r = util::catch(|| if op == 8 { t.write_volatile_to(a, &mut v, 0).map(|v| v as u64) } else { t.write_all_volatile_to(a, &mut v, 0).map(|_| 0) });
                let ext = !v.is_empty();
                fin(r, |v| v, code, ext)
            }
            _ => {
                let mut f = memfd(&[]);
                let r = util::catch(|| if op == 8 { t.write_volatile_to(a, &mut f, 0).map(|v| v as u64) } else { t.write_all_volatile_to(a, &mut f, 0).map(|_| 0) });
                let ext = file_state(&mut f) != (0, 0);
                fin(r, |v| v, code, ext)
            }
        },
        _ => panic!("bad op"),
    }
}

fn novc(_: &VolatileMemoryError) -> u64 {
    0
}

fn zst_copy<Z: ByteValued, S: BitmapSlice>(sl: &VolatileSlice<S>, op: u64, k: usize) -> R4 {
    assert_eq!(std::mem::size_of::<Z>(), 0);
    let mut buf: Vec<Z> = (0..k).map(|_| Z::zeroed()).collect();
    if op == 10 {
        fin(util::catch(|| Ok::<usize, VolatileMemoryError>(sl.copy_to::<Z>(&mut buf))), |v| v as u64, novc, buf.len() != k)
    } else {
        fin(util::catch(|| Ok::<(), VolatileMemoryError>(sl.copy_from::<Z>(&buf))), |_| 0, novc, false)
    }
}

/// get_array_ref::<T>(0, nel) on the slice, then copy_to / copy_from with a k-element buffer of 0x5a bytes
fn arr_copy<T: ByteValued, S: BitmapSlice>(sl: &VolatileSlice<S>, op: u64, nel: usize, k: usize) -> R4 {
    let mk = || {
        let mut v = T::zeroed();
        for b in v.as_mut_slice() {
            *b = SRC;
        }
        v
    };
    let mut buf: Vec<T> = (0..k).map(|_| mk()).collect();
    let r = util::catch(|| {
        sl.get_array_ref::<T>(0, nel).map(|arr| {
            if op == 12 {
                arr.copy_to(&mut buf) as u64
            } else {
                arr.copy_from(&buf);
                0
            }
        })
    });
    let ext = buf.len() != k || buf.iter().any(|v| v.as_slice().iter().any(|b| *b != SRC));
    fin(r, |v| v, vcode, ext)
}

/// ops 10..=17 on the slice the layer's get_slice returned; `whole` = the enclosing container
fn acc_op<S: BitmapSlice>(sl: &VolatileSlice<S>, whole: &VolatileSlice<S>, op: u64, esz: u64, nel: usize, k: usize, sk: u64) -> R4 {
    match op {
        10 | 11 => {
            if sk == 0 {
                zst_copy::<[u8; 0], S>(sl, op, k)
            } else {
                zst_copy::<[u64; 0], S>(sl, op, k)
            }
        }
        12 | 13 => match (esz, sk) {
            (0, 0) => arr_copy::<[u8; 0], S>(sl, op, nel, k),
            (0, _) => arr_copy::<[u64; 0], S>(sl, op, nel, k),
            (1, _) => arr_copy::<u8, S>(sl, op, nel, k),
            (2, _) => arr_copy::<u16, S>(sl, op, nel, k),
            (4, _) => arr_copy::<u32, S>(sl, op, nel, k),
            (8, _) => arr_copy::<u64, S>(sl, op, nel, k),
            _ => panic!("bad esz"),
        },
        14 => {
            if sk == 0 {
                fin(util::catch(|| sl.get_ref::<[u8; 0]>(0).map(|r| r.store([]))), |_| 0, vcode, false)
            } else {
                fin(util::catch(|| sl.get_ref::<[u64; 0]>(0).map(|r| r.store([]))), |_| 0, vcode, false)
            }
        }
        15 => {
            if sk == 0 {
                fin(util::catch(|| sl.get_ref::<[u8; 0]>(0).map(|r| r.load())), |_| 0, vcode, false)
            } else {
                fin(util::catch(|| sl.get_ref::<[u64; 0]>(0).map(|r| r.load())), |_| 0, vcode, false)
            }
        }
        16 => fin(util::catch(|| Ok::<(), VolatileMemoryError>(whole.copy_to_volatile_slice(sl.offset(0).unwrap()))), |_| 0, novc, false),
        17 => fin(util::catch(|| Ok::<(), VolatileMemoryError>(sl.copy_to_volatile_slice(whole.offset(0).unwrap()))), |_| 0, novc, false),
        _ => panic!("bad op"),
    }
}


fn bad() -> Vec<Tok> {
    vec![Tok::N(0xbad)]
}

fn exec(case: &[Tok]) -> Vec<Tok> {
    if case.len() != 14 {
        return bad();
    }
    let (rkind, size, gbase, page) = (case[1].u(), case[2].u() as usize, case[3].u(), case[4].u());
    let (layer, op, sub_off, sub_len) = (case[5].u(), case[6].u(), case[7].u() as usize, case[8].u() as usize);
    let (addr, esz, nel, k, sk) = (case[9].u(), case[10].u(), case[11].u() as usize, case[12].u() as usize, case[13].u());
    let host_page = unsafe { libc::sysconf(libc::_SC_PAGESIZE) } as u64;
    if page != host_page || rkind > 3 || size == 0 || size > 65536 || gbase >= (1 << 40) || gbase % page != 0 || k > 4096 || nel > 4096 || op > 17 {
        return bad();
    }
    if rkind == 3 && op >= 16 {
        return bad();
    }
    dev_install();
    dev_reset(false);
    let rounded = (size as u64 + page - 1) / page * page;
    let fd = dev_memfd(gbase + rounded + 16 * page);
    let data_base = if rkind == 1 { 0 } else { gbase };
    let fill = vec![FILL; size];
    if rkind != 0 {
        let w = unsafe { libc::pwrite(fd, fill.as_ptr() as *const libc::c_void, size, data_base as libc::off_t) };
        assert!(w == size as isize);
    }
    let range = match rkind {
        0 => MmapRange::new_unix(size, None, GuestAddress(gbase)),
        kk => MmapRange::new(size, Some(file_offset_of(fd, 0)), GuestAddress(gbase), [0, 1, 2, 0xA][kk as usize], 0),
    };
    let region = match MmapRegion::<()>::from_range(range).ok().and_then(|r| GuestRegionMmap::new(r, GuestAddress(gbase)).ok()) {
        Some(r) => r,
        None => {
            unsafe { libc::close(fd) };
            return bad();
        }
    };
    if rkind == 0 {
        unsafe { std::ptr::write_bytes(region.as_ptr(), FILL, size) };
    }
    let gm: GuestMemoryMmap<()> = match GuestMemoryMmap::from_regions(vec![region]) {
        Ok(g) => g,
        Err(_) => {
            unsafe { libc::close(fd) };
            return bad();
        }
    };
    let reg: &GuestRegionMmap<()> = gm.iter().next().unwrap();
    dev_take();

    let res: Option<R4> = match layer {
        0 => {
            let root = reg.as_volatile_slice().unwrap();
            match root.subslice(sub_off, sub_len) {
                Err(_) => None,
                Ok(cont) => Some(if op <= 9 {
                    bytes_op(&cont, addr as usize, op, k, sk, vcode)
                } else {
                    let nb = nbytes(op, esz, nel);
                    match util::catch(|| cont.get_slice(addr as usize, nb)) {
                        None => (2, 0, 0, 0),
                        Some(Err(e)) => (1, vcode(&e), 0, 0),
                        Some(Ok(s)) => acc_op(&s, &cont, op, esz, nel, k, sk),
                    }
                }),
            }
        }
        1 => Some(if op <= 9 {
            bytes_op(reg, MemoryRegionAddress(addr), op, k, sk, gcode)
        } else {
            let nb = nbytes(op, esz, nel);
            match util::catch(|| reg.get_slice(MemoryRegionAddress(addr), nb)) {
                None => (2, 0, 0, 0),
                Some(Err(e)) => (1, gcode(&e), 0, 0),
                Some(Ok(s)) => {
                    let whole = reg.as_volatile_slice().unwrap();
                    acc_op(&s, &whole, op, esz, nel, k, sk)
                }
            }
        }),
        2 => Some(if op <= 9 {
            bytes_op(&gm, GuestAddress(addr), op, k, sk, gcode)
        } else {
            let nb = nbytes(op, esz, nel);
            match util::catch(|| gm.get_slice(GuestAddress(addr), nb)) {
                None => (2, 0, 0, 0),
                Some(Err(e)) => (1, gcode(&e), 0, 0),
                Some(Ok(s)) => {
                    let whole = reg.as_volatile_slice().unwrap();
                    acc_op(&s, &whole, op, esz, nel, k, sk)
                }
            }
        }),
        _ => None,
    };

    // independent observation
    let evs = dev_take();
    let live = dev_live();
    let mapped = dev_mapped();
    let mut mem = vec![0u8; size];
    if rkind == 0 {
        for i in 0..size {
            mem[i] = unsafe { std::ptr::read_volatile(reg.as_ptr().add(i)) };
        }
    } else {
        let r = unsafe { libc::pread(fd, mem.as_mut_ptr() as *mut libc::c_void, size, data_base as libc::off_t) };
        assert!(r == size as isize);
    }
    let changed: Vec<u128> = mem.iter().enumerate().filter(|(_, b)| **b != FILL).map(|(i, _)| i as u128).collect();
    drop(gm);
    unsafe { libc::close(fd) };
    let res = match res {
        Some(r) => r,
        None => return bad(),
    };
    let mut ev: Vec<u128> = Vec::new();
    for e in &evs {
        match *e {
            DevEv::Map { gref, count, index } => ev.extend([1, gref as u128, count as u128, index as u128]),
            DevEv::Unmap { index, count } => ev.extend([2, index as u128, count as u128]),
            DevEv::Foreign { .. } => {}
        }
    }
    vec![n(res.0), n(res.1), n(res.2), n(res.3), Tok::L(changed), Tok::L(ev), n(live), n(mapped)]
}

fn nbytes(op: u64, esz: u64, nel: usize) -> usize {
    match op {
        10 | 11 => nel,
        12 | 13 => nel * esz as usize,
        _ => 0,
    }
}


/// (esz, n, k, sk) variants of one op
fn variants(op: u64) -> Vec<(u64, u64, u64, u64)> {
    match op {
        0..=5 => vec![(0, 0, 0, 0)],
        6 | 7 => vec![(0, 0, 5, 0), (0, 0, 0, 0), (0, 0, 5, 1), (0, 0, 5, 2), (0, 0, 0, 2)],
        8 | 9 => vec![(0, 0, 5, 0), (0, 0, 0, 0), (0, 0, 0, 1), (0, 0, 0, 2)],
        10 | 11 => vec![(0, 0, 3, 0), (0, 0, 0, 0), (0, 5, 3, 0), (0, 9, 4, 1), (0, 0, 2, 1)],
        12 | 13 => vec![
            (0, 4, 3, 0),
            (0, 2, 5, 0),
            (0, 0, 3, 0),
            (0, 3, 3, 1),
            (0, 64, 0, 0),
            (1, 0, 3, 0),
            (2, 0, 2, 0),
            (4, 0, 3, 0),
            (8, 0, 1, 0),
            (4, 0, 0, 0),
        ],
        14 | 15 => vec![(0, 0, 0, 0), (0, 0, 0, 1)],
        _ => vec![(0, 0, 0, 0)],
    }
}


fn gen(rng: &mut Rng, tier: Tier, emit: &mut dyn FnMut(Vec<Tok>)) {
    let mode = crate::build_mode();
    let page = unsafe { libc::sysconf(libc::_SC_PAGESIZE) } as u64;
    let mut all: Vec<Vec<Tok>> = Vec::new();
    for rkind in 0..4u64 {
        for (size, gbase) in [(2 * page + 100, 0x40 * page), (page / 2 + 7, 0x1234 * page)] {
            let mk = |layer: u64, op: u64, so: u64, sl: u64, a: u64, v: (u64, u64, u64, u64)| -> Vec<Tok> {
                vec![n(mode), n(rkind), n(size), n(gbase), n(page), n(layer), n(op), n(so), n(sl), n(a), n(v.0), n(v.1), n(v.2), n(v.3)]
            };
            // offsets relative to a container of `len` bytes: page aligned AND unaligned, the end, past the end
            let offs = |len: u64| -> Vec<u64> {
                let mut v = vec![0u64, 1, 3, 8, 0x10, page - 1, page, page + 1, page + 8, 2 * page, 2 * page + 3, len / 2, len.saturating_sub(1), len, len + 1, len + page];
                v.retain(|x| *x <= len + page);
                v.sort();
                v.dedup();
                v
            };
            for op in 0..=17u64 {
                if rkind == 3 && op >= 16 {
                    continue;
                }
                for v in variants(op) {
                    let mut subs = vec![(0, size), (3, size - 3), (size, 0), (5, 0), (size / 2, 0)];
                    if page + 2 < size {
                        subs.push((page, size - page));
                        subs.push((page + 2, (size - page - 2).min(page + 5)));
                        subs.push((page, 0));
                    }
                    for (so, sl) in subs {
                        for a in offs(sl) {
                            all.push(mk(0, op, so, sl, a, v));
                        }
                    }
                    for a in offs(size) {
                        all.push(mk(1, op, 0, size, a, v));
                    }
                    let mut ga: Vec<u64> = offs(size).iter().map(|x| gbase + x).collect();
                    ga.extend([0, 1, gbase - 1, gbase - page, 1u64 << 63, (1u64 << 63) - 1]);
                    for a in ga {
                        all.push(mk(2, op, 0, 0, a, v));
                    }
                }
            }
        }
    }
    let total = all.len();
    match tier {
        Tier::Quick => {
            let phase = rng.below(3) as usize;
            for (i, c) in all.iter().enumerate() {
                if i % 3 == phase {
                    emit(c.clone());
                }
            }
            for _ in 0..3000 {
                let c = all[rng.below(total as u64) as usize].clone();
                emit(perturb(rng, c));
            }
        }
        Tier::Thorough => {
            for c in &all {
                emit(c.clone());
            }
            for _ in 0..100_000 {
                let c = all[rng.below(total as u64) as usize].clone();
                emit(perturb(rng, c));
            }
        }
    }
}

/// random variation that stays inside the suite: another address near the original one, other buffer / element counts
fn perturb(rng: &mut Rng, mut c: Vec<Tok>) -> Vec<Tok> {
    let a = c[9].u();
    let d = rng.below(9);
    let na = if rng.bool() { a.wrapping_add(d) } else { a.wrapping_sub(d) };
    if na <= (1u64 << 63) {
        c[9] = n(na);
    }
    match c[6].u() {
        6..=9 => c[12] = n(rng.below(9)),
        10 | 11 => {
            c[11] = n(rng.below(12));
            c[12] = n(rng.below(9));
        }
        12 | 13 => {
            if c[10].u() == 0 {
                c[11] = n(rng.below(65));
            }
            c[12] = n(rng.below(9));
        }
        _ => {}
    }
    c
}
