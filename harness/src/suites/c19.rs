//! C19: every Address operation x boundary-biased operand pairs x all 64 alignments.
//! case:  mode op a b [c]    obs: kind(0 None,1 value,2 panic,9 the two address types differ,
//!        a the trait route and the method-call route on the concrete type differ) value flag
//! ops 0-14: arithmetic / masks / cmp / ==;  15 partial_cmp, 16 <, 17 <=, 18 >, 19 >=, 20 !=, 21 max, 22 min,
//! 23 clamp(b, c), 24 == with the operands exchanged.  EVERY op runs on GuestAddress and on MemoryRegionAddress.
use crate::tok::n;
use crate::{util, Rng, Suite, Tier, Tok};
use vm_memory::{Address, GuestAddress, MemoryRegionAddress};

pub const SUITES: &[Suite] = &[Suite { name: "C19", gen, exec }];

fn opt(o: Option<u64>) -> Vec<Tok> {
    match o {
        Some(v) => vec![n(1u8), n(v), n(0u8)],
        None => vec![n(0u8), n(0u8), n(0u8)],
    }
}
fn val(v: u64) -> Vec<Tok> {
    vec![n(1u8), n(v), n(0u8)]
}
fn pan(o: Option<u64>) -> Vec<Tok> {
    match o {
        Some(v) => val(v),
        None => vec![n(2u8), n(0u8), n(0u8)],
    }
}

fn ord(o: std::cmp::Ordering) -> u64 {
    match o {
        std::cmp::Ordering::Less => 0,
        std::cmp::Ordering::Equal => 1,
        std::cmp::Ordering::Greater => 2,
    }
}

fn exec(case: &[Tok]) -> Vec<Tok> {
    let (op, a, b) = (case[1].u(), case[2].u(), case[3].u());
    let c = if case.len() > 4 { case[4].u() } else { 0 };
    // both address types are instantiations of the same macro and carry the same derives: run both,
    // they must agree (kind 9 otherwise, which neither the model nor the checker accepts)
    // two ROUTES per type: the generic instance can only resolve a method call to the TRAIT method
    // (`<T as Address>::op`), the concrete instance is method-call syntax on the concrete type as a user writes it -
    // an inherent method of the same name shadows the trait method there.  The two answers must be identical
    // (kind 0xa otherwise: the trait route's value, the concrete route's value).
    let g = exec_one::<GuestAddress>(op, a, b, c);
    let gc = exec_one_guest(op, a, b, c);
    if g != gc {
        return vec![n(10u8), n(g[1].u()), n(gc[1].u())];
    }
    let r = exec_one::<MemoryRegionAddress>(op, a, b, c);
    let rc = exec_one_region(op, a, b, c);
    if r != rc {
        return vec![n(10u8), n(r[1].u()), n(rc[1].u())];
    }
    if g != r {
        // kind 9; the value GuestAddress gave, the value MemoryRegionAddress gave (for the reader of a replay)
        return vec![n(9u8), n(g[1].u()), n(r[1].u())];
    }
    g
}

// the body of exec_one, instantiated generically (trait route) and for the two concrete types (method-call route)
macro_rules! def_exec_one {
    ($name:ident, [$($g:tt)*], $A:ty) => {
        #[allow(clippy::eq_op, clippy::nonminimal_bool)]
        fn $name<$($g)*>(op: u64, a: u64, b: u64, c: u64) -> Vec<Tok> {
            let x = <$A>::new(a);
            let y = <$A>::new(b);
            match op {
                0 => opt(x.checked_add(b).map(|v| v.raw_value())),
                1 => opt(x.checked_sub(b).map(|v| v.raw_value())),
                2 => opt(x.checked_offset_from(<$A>::new(b))),
                3 => {
                    let (v, f) = x.overflowing_add(b);
                    vec![n(1u8), n(v.raw_value()), Tok::b(f)]
                }
                4 => {
                    let (v, f) = x.overflowing_sub(b);
                    vec![n(1u8), n(v.raw_value()), Tok::b(f)]
                }
                5 => match util::catch(|| x.checked_align_up(b).map(|v| v.raw_value())) {
                    Some(o) => opt(o),
                    None => vec![n(2u8), n(0u8), n(0u8)],
                },
                6 => val(x.mask(b)),
                7 => val((x & b).raw_value()),
                8 => val((x | b).raw_value()),
                9 => val(ord(x.cmp(&y))),
                10 => val((x == <$A>::new(b)) as u64),
                11 => pan(util::catch(|| x.unchecked_add(b).raw_value())),
                12 => pan(util::catch(|| x.unchecked_sub(b).raw_value())),
                13 => pan(util::catch(|| x.unchecked_offset_from(<$A>::new(b)))),
                14 => pan(util::catch(|| x.unchecked_align_up(b).raw_value())),
                // the comparison surface callers actually write: operators (PartialOrd / PartialEq provided methods)
                // and the Ord provided methods
                15 => opt(x.partial_cmp(&y).map(ord)),
                16 => val((x < y) as u64),
                17 => val((x <= y) as u64),
                18 => val((x > y) as u64),
                19 => val((x >= y) as u64),
                20 => val((x != y) as u64),
                21 => val(x.max(y).raw_value()),
                22 => val(x.min(y).raw_value()),
                23 => pan(util::catch(|| x.clamp(y, <$A>::new(c)).raw_value())),
                24 => val((y == x) as u64),
                _ => panic!("bad op"),
            }
        }
    };
}
def_exec_one!(exec_one, [A: Address<V = u64> + std::panic::RefUnwindSafe], A);
def_exec_one!(exec_one_guest, [], GuestAddress);
def_exec_one!(exec_one_region, [], MemoryRegionAddress);

fn gen(rng: &mut Rng, tier: Tier, emit: &mut dyn FnMut(Vec<Tok>)) {
    let mode = crate::build_mode();
    let bs = util::boundary_u64(0x1234_5678_9abc_def0);
    let mut case = |op: u64, a: u64, b: u64| emit(vec![n(mode), n(op), n(a), n(b)]);
    // all ops x boundary pairs (subsampled deterministically for the quick tier)
    let stride = if tier == Tier::Quick { 7 } else { 1 };
    let mut i = 0usize;
    for op in 0..=24u64 {
        if op == 5 || op == 14 || op == 23 {
            continue;
        }
        for &a in &bs {
            for &b in &bs {
                i += 1;
                if i % stride == 0 {
                    case(op, a, b);
                }
            }
        }
    }
    // align-up: every address of the boundary set x all 64 powers of two, plus non powers of two
    for &a in &bs {
        for k in 0..64u32 {
            case(5, a, 1u64 << k);
            case(14, a, 1u64 << k);
        }
        for p in [0u64, 3, 6, 12, u64::MAX, (1 << 63) + 1] {
            case(5, a, p);
        }
    }
    // clamp(lo, hi): three operands; the values 2^63 apart and the neighbours of a matter most
    let nclamp = if tier == Tier::Quick { 12_000 } else { 400_000 };
    for _ in 0..nclamp {
        let a = if rng.chance(1, 4) { rng.next() } else { *rng.pick(&bs) };
        let near = |rng: &mut Rng, v: u64| v.wrapping_add(rng.below(5)).wrapping_sub(2);
        let mut lo = match rng.below(4) {
            0 => near(rng, a),
            1 => rng.next(),
            _ => *rng.pick(&bs),
        };
        let mut hi = match rng.below(4) {
            0 => near(rng, a),
            1 => near(rng, lo),
            2 => rng.next(),
            _ => *rng.pick(&bs),
        };
        if lo > hi && !rng.chance(1, 8) {
            std::mem::swap(&mut lo, &mut hi); // mostly well-formed bounds; lo > hi is the documented panic
        }
        emit(vec![n(mode), n(23u8), n(a), n(lo), n(hi)]);
    }
    let mut case = |op: u64, a: u64, b: u64| emit(vec![n(mode), n(op), n(a), n(b)]);
    let nrand = if tier == Tier::Quick { 20_000 } else { 2_000_000 };
    for _ in 0..nrand {
        let mut op = rng.below(24);
        if op == 23 {
            op = 24;
        }
        let a = if rng.bool() { rng.next() } else { *rng.pick(&bs) };
        let b = match rng.below(4) {
            0 => rng.next(),
            1 => *rng.pick(&bs),
            2 => 1u64 << rng.below(64),
            _ => a.wrapping_neg().wrapping_add(rng.below(5)).wrapping_sub(2),
        };
        case(op, a, b);
    }
}
