//! C17 (xen build): histories of access operations on advance-mapped (unix, foreign, grant) and
//! on-demand (grant + NO_ADVANCE_MAP) regions, over an emulated gntdev/privcmd (hook H3,
//! `vm_memory::verif::set_xen_ioctl`).  The "device" is a memfd: the library mmaps the device fd at
//! the offset (`index`) the map ioctl hands out; the emulation hands out index = grant reference *
//! page size, so guest page g lives at byte g * page of the memfd and every byte the library writes
//! can be read back with pread (independent of the accessors), and logs every map / unmap request - a map request
//! with its FULL list of (domid, reference): page i of a window has to be the page named by reference i.  Regions
//! are built with a non-zero domid (`case_domid`).
//! Opcodes 15-18 are the stream entry points with a DESCRIPTOR as the other end (read_volatile_from /
//! read_exact_volatile_from out of a memfd holding known bytes, write_volatile_to / write_all_volatile_to into an
//! empty memfd): the transfer is a read(2)/write(2) on the guarded pointer, so the window must stay mapped across
//! the system call.  Observed: result class (EFAULT from the kernel = r 4: no mapping covered the guest bytes when
//! the transfer ran), device log, the bytes stored (backing memfd, pread) and the bytes the sink received (pread).
//! case:  mode rkind size gbase page [code,off,a,b,c]*
//! obs:   built [r,data,live,ev*]* mapped_alive mapped_end live_end      (see coq/Spec/C17.v)
//! Every history runs in a forked child (an access outside its window would SIGSEGV); a child
//! killed by a signal is the observation r = 3 of the operation that was running.
//! Suite C17xenfind holds the known finding F6b (listed in known_findings.txt; printed as KNOWN-FINDING by ./check C17).
use crate::tok::n;
use crate::{util, Rng, Suite, Tier, Tok};
use std::fs::File;
use std::io::Write;
use std::os::unix::io::FromRawFd;
use std::sync::atomic::Ordering;
use std::sync::Mutex;
use vm_memory::{
    ByteValued, Bytes, FileOffset, GuestAddress, GuestRegionMmap, MemoryRegionAddress, MmapRange, MmapRegion,
    VolatileMemory, VolatileSlice,
};

pub const SUITES: &[Suite] = &[
    Suite { name: "C17xen", gen, exec },
    Suite { name: "C17xenfind", gen: gen_find, exec },
    Suite { name: "C17xenchain", gen: gen_chain, exec: exec_chain },
];

// ------------------------------------------------------------------ emulated device
#[derive(Clone, Copy, Debug, PartialEq)]
pub enum DevEv {
    Map { gref: u64, count: u64, index: u64 },
    Unmap { index: u64, count: u64 },
    Foreign { count: u64, ok: bool },
}
pub struct Dev {
    /// the full (domid, reference) list of every ACCEPTED map request, in the order of the Map events of `log`
    pub refs: Vec<Vec<(u32, u32)>>,
    pub log: Vec<DevEv>,
    pub live: Vec<(u64, u64)>,
    pub fail: bool,
    pub page: u64,
    /// the whole request of every privcmd batch (accepted or not), in the order of the Foreign events of `log` (w9)
    pub foreign: Vec<ForeignReq>,
}
/// one IOCTL_PRIVCMD_MMAPBATCH_V2 request as the device received it: target domain, the virtual address the frames
/// are to be installed at, and the guest frame list `arr[0..num]`
#[derive(Clone, Debug, PartialEq)]
pub struct ForeignReq {
    pub dom: u64,
    pub addr: u64,
    pub frames: Vec<u64>,
}
pub static DEV: Mutex<Dev> =
    Mutex::new(Dev { refs: Vec::new(), log: Vec::new(), live: Vec::new(), fail: false, page: 4096, foreign: Vec::new() });

pub fn dev_reset(fail: bool) {
    let mut d = DEV.lock().unwrap();
    d.log.clear();
    d.refs.clear();
    d.live.clear();
    d.foreign.clear();
    d.fail = fail;
    d.page = unsafe { libc::sysconf(libc::_SC_PAGESIZE) } as u64;
}
pub fn dev_take() -> Vec<DevEv> {
    let mut d = DEV.lock().unwrap();
    d.refs.clear();
    std::mem::take(&mut d.log)
}
/// like dev_take, with the reference list of every Map event
pub fn dev_take_named() -> (Vec<DevEv>, Vec<Vec<(u32, u32)>>) {
    let mut d = DEV.lock().unwrap();
    let r = std::mem::take(&mut d.refs);
    (std::mem::take(&mut d.log), r)
}
/// the privcmd requests received since the last dev_reset / dev_take_foreign (w9)
pub fn dev_take_foreign() -> Vec<ForeignReq> {
    std::mem::take(&mut DEV.lock().unwrap().foreign)
}
pub fn dev_live() -> u64 {
    DEV.lock().unwrap().live.len() as u64
}

/// gntdev / privcmd over the memfd.  Struct layouts from src/mmap/xen.rs (#[repr(C)]):
///   GntDevMapGrantRef   { count: u32 @0, pad: u32 @4, index: u64 @8 (OUT), refs: [{domid u32, ref u32}] @16 }
///   GntDevUnmapGrantRef { index: u64 @0, count: u32 @8, pad: u32 @12 }
///   PrivCmdMmapBatchV2  { num: u32 @0, domid: u16 @4, addr @8, arr @16, err @24 }
/// request number = _IOC(_IOC_NONE, type, nr, size): type = bits 8..15, nr = bits 0..7.
pub fn dev_install() {
    vm_memory::verif::set_xen_ioctl(Some(Box::new(|_fd, req, arg, _size| {
        let ty = (req >> 8) & 0xff;
        let nr = req & 0xff;
        let mut d = DEV.lock().unwrap();
        unsafe {
            match (ty as u8, nr) {
                (b'G', 0) => {
                    let count = std::ptr::read_unaligned(arg as *const u32) as u64;
                    // like the real gntdev: count <= 0 is EINVAL
                    if d.fail || count == 0 {
                        return -1;
                    }
                    let gref = std::ptr::read_unaligned(arg.add(20) as *const u32) as u64;
                    // the whole request: refs[i] = { domid u32 @16+8i, reference u32 @20+8i }
                    let refs: Vec<(u32, u32)> = (0..count as usize)
                        .map(|i| {
                            (
                                std::ptr::read_unaligned(arg.add(16 + 8 * i) as *const u32),
                                std::ptr::read_unaligned(arg.add(20 + 8 * i) as *const u32),
                            )
                        })
                        .collect();
                    // The memfd device can only expose CONSECUTIVE guest pages at one index (page i of the mapping is
                    // file page index/page + i).  A request whose page i is not named by reference first + i (or that
                    // mixes domains) cannot be honoured by it: refused, like a gntdev that cannot map the grants.
                    if refs.iter().enumerate().any(|(i, r)| r.0 != refs[0].0 || r.1 as u64 != gref + i as u64) {
                        return -1;
                    }
                    d.refs.push(refs);
                    let index = gref * d.page;
                    std::ptr::write_unaligned(arg.add(8) as *mut u64, index);
                    d.log.push(DevEv::Map { gref, count, index });
                    d.live.insert(0, (index, count));
                    0
                }
                (b'G', 1) => {
                    let index = std::ptr::read_unaligned(arg as *const u64);
                    let count = std::ptr::read_unaligned(arg.add(8) as *const u32) as u64;
                    d.log.push(DevEv::Unmap { index, count });
                    if let Some(p) = d.live.iter().position(|x| *x == (index, count)) {
                        d.live.remove(p);
                    }
                    0
                }
                (b'P', 4) => {
                    let num = std::ptr::read_unaligned(arg as *const u32) as u64;
                    // the whole request: domid u16 @4, addr @8, arr @16 -> num frame numbers (w9)
                    let dom = std::ptr::read_unaligned(arg.add(4) as *const u16) as u64;
                    let addr = std::ptr::read_unaligned(arg.add(8) as *const u64);
                    let arr = std::ptr::read_unaligned(arg.add(16) as *const *const u64);
                    let frames: Vec<u64> = if arr.is_null() {
                        Vec::new()
                    } else {
                        (0..(num as usize).min(1 << 20)).map(|i| std::ptr::read_unaligned(arr.add(i))).collect()
                    };
                    if d.foreign.len() >= 64 {
                        d.foreign.remove(0); // suites that never take the list: keep it bounded
                    }
                    d.foreign.push(ForeignReq { dom, addr, frames });
                    let ok = !d.fail;
                    d.log.push(DevEv::Foreign { count: num, ok });
                    if ok {
                        0
                    } else {
                        -1
                    }
                }
                _ => -1,
            }
        }
    })));
}

pub fn dev_memfd(len: u64) -> i32 {
    unsafe {
        let fd = libc::memfd_create(b"vmh-xendev\0".as_ptr() as *const libc::c_char, 0);
        assert!(fd >= 0);
        assert!(libc::ftruncate(fd, len as libc::off_t) == 0);
        fd
    }
}

/// bytes of the device memfd currently mapped in this process (from /proc/self/maps)
pub fn dev_mapped() -> u64 {
    let s = std::fs::read_to_string("/proc/self/maps").unwrap();
    let mut t = 0u64;
    for l in s.lines() {
        if l.contains("vmh-xendev") {
            let r = l.split_whitespace().next().unwrap();
            let mut it = r.split('-');
            let a = u64::from_str_radix(it.next().unwrap(), 16).unwrap();
            let b = u64::from_str_radix(it.next().unwrap(), 16).unwrap();
            t += b - a;
        }
    }
    t
}

pub fn file_offset_of(fd: i32, start: u64) -> FileOffset {
    let d = unsafe { libc::dup(fd) };
    assert!(d >= 0);
    FileOffset::new(unsafe { File::from_raw_fd(d) }, start)
}

// ------------------------------------------------------------------ one history (runs in the child)
struct Ctx {
    region: std::sync::Arc<GuestRegionMmap<()>>,
    /// a guest memory holding exactly that region (the guest-memory level of `Bytes`)
    gm: vm_memory::GuestMemoryMmap<()>,
    gbase: u64,
    rkind: u64,
    fd: i32,
    data_base: u64,
    size: usize,
    shadow: Vec<u8>,
    rng: Rng,
    /// set by a descriptor operation whose system call was refused with EFAULT
    efault: bool,
}

/// a memfd (NOT named like the device) holding `bytes`, positioned at its start
fn mem_file(bytes: &[u8]) -> File {
    unsafe {
        let fd = libc::memfd_create(b"vmh-c17stream\0".as_ptr() as *const libc::c_char, 0);
        assert!(fd >= 0);
        if !bytes.is_empty() {
            let w = libc::pwrite(fd, bytes.as_ptr() as *const libc::c_void, bytes.len(), 0);
            assert!(w == bytes.len() as isize);
        }
        File::from_raw_fd(fd)
    }
}
/// everything a descriptor sink received (independent of the library: fstat + pread)
fn file_content(f: &File) -> Vec<u8> {
    use std::os::unix::io::AsRawFd;
    unsafe {
        let mut st: libc::stat = std::mem::zeroed();
        assert!(libc::fstat(f.as_raw_fd(), &mut st) == 0);
        let mut v = vec![0u8; st.st_size as usize];
        if !v.is_empty() {
            let r = libc::pread(f.as_raw_fd(), v.as_mut_ptr() as *mut libc::c_void, v.len(), 0);
            assert!(r == v.len() as isize);
        }
        v
    }
}
fn is_efault(e: &vm_memory::GuestMemoryError) -> bool {
    matches!(e, vm_memory::GuestMemoryError::IOError(io) if io.raw_os_error() == Some(libc::EFAULT))
}
impl Ctx {
    fn backing(&self) -> Vec<u8> {
        let mut v = vec![0u8; self.size];
        if self.rkind == 0 {
            for i in 0..self.size {
                v[i] = unsafe { std::ptr::read_volatile(self.region.as_ptr().add(i)) };
            }
        } else {
            let r = unsafe { libc::pread(self.fd, v.as_mut_ptr() as *mut libc::c_void, self.size, self.data_base as libc::off_t) };
            assert!(r == self.size as isize);
        }
        v
    }
}

macro_rules! with_k {
    ($k:expr, $T:ident => $e:expr) => {
        match $k {
            1 => { type $T = [u8; 1]; $e }
            2 => { type $T = [u8; 2]; $e }
            3 => { type $T = [u8; 3]; $e }
            4 => { type $T = [u8; 4]; $e }
            5 => { type $T = [u8; 5]; $e }
            6 => { type $T = [u8; 6]; $e }
            7 => { type $T = [u8; 7]; $e }
            8 => { type $T = [u8; 8]; $e }
            9 => { type $T = [u8; 9]; $e }
            10 => { type $T = [u8; 10]; $e }
            11 => { type $T = [u8; 11]; $e }
            12 => { type $T = [u8; 12]; $e }
            13 => { type $T = [u8; 13]; $e }
            14 => { type $T = [u8; 14]; $e }
            15 => { type $T = [u8; 15]; $e }
            16 => { type $T = [u8; 16]; $e }
            _ => panic!("bad element size"),
        }
    };
}
/// Some(true) = done and the data is right, Some(false) = done, wrong data, None = returned Err
fn typed<T: ByteValued>(cx: &mut Ctx, code: u64, off: usize, nn: usize, c: usize) -> Option<bool> {
    let t = std::mem::size_of::<T>();
    let mk = |bytes: &[u8]| -> T {
        let mut v: T = unsafe { std::mem::zeroed() };
        v.as_mut_slice().copy_from_slice(bytes);
        v
    };
    match code {
        3 => {
            let r = cx.region.get_ref::<T>(off).ok()?;
            let b = cx.rng.bytes(t);
            r.store(mk(&b));
            cx.shadow[off..off + t].copy_from_slice(&b);
            Some(true)
        }
        4 => {
            let r = cx.region.get_ref::<T>(off).ok()?;
            let v = r.load();
            Some(v.as_slice() == &cx.shadow[off..off + t])
        }
        5 => {
            let a = cx.region.get_array_ref::<T>(off, nn).ok()?;
            let b = cx.rng.bytes(t);
            a.store(c, mk(&b));
            cx.shadow[off + c * t..off + c * t + t].copy_from_slice(&b);
            Some(true)
        }
        6 => {
            let a = cx.region.get_array_ref::<T>(off, nn).ok()?;
            let v = a.load(c);
            Some(v.as_slice() == &cx.shadow[off + c * t..off + c * t + t])
        }
        7 => {
            let a = cx.region.get_array_ref::<T>(off, nn).ok()?;
            let bytes = cx.rng.bytes(t * c);
            let buf: Vec<T> = (0..c).map(|i| mk(&bytes[i * t..i * t + t])).collect();
            a.copy_from(&buf);
            let m = c.min(nn) * t;
            cx.shadow[off..off + m].copy_from_slice(&bytes[..m]);
            Some(true)
        }
        8 => {
            let a = cx.region.get_array_ref::<T>(off, nn).ok()?;
            let mut buf: Vec<T> = (0..c).map(|_| unsafe { std::mem::zeroed() }).collect();
            let got = a.copy_to(&mut buf);
            let m = c.min(nn);
            let mut ok = got == m;
            for i in 0..m {
                ok &= buf[i].as_slice() == &cx.shadow[off + i * t..off + i * t + t];
            }
            Some(ok)
        }
        13 => {
            // nn = slice length in bytes
            let sl = VolatileMemory::get_slice(&**cx.region, off, nn).ok()?;
            let bytes = cx.rng.bytes(t * c);
            let buf: Vec<T> = (0..c).map(|i| mk(&bytes[i * t..i * t + t])).collect();
            sl.copy_from(&buf);
            let m = if t == 1 { c.min(nn) } else { c.min(nn / t) * t };
            cx.shadow[off..off + m].copy_from_slice(&bytes[..m]);
            Some(true)
        }
        14 => {
            let sl = VolatileMemory::get_slice(&**cx.region, off, nn).ok()?;
            let mut buf: Vec<T> = (0..c).map(|_| unsafe { std::mem::zeroed() }).collect();
            let got = sl.copy_to(&mut buf);
            let m = if t == 1 { c.min(nn) } else { c.min(nn / t) };
            let mut ok = got == m;
            for i in 0..m {
                ok &= buf[i].as_slice() == &cx.shadow[off + i * t..off + i * t + t];
            }
            Some(ok)
        }
        _ => panic!("bad op"),
    }
}

/// the slice over region bytes [off, off+a) reached by derivation route c (0 direct get_slice; 1 subslice of the
/// whole region; 2 offset then subslice; 3 split_at then subslice; 4 get_ref::<[u8; a]>.to_slice(); 5
/// get_array_ref::<u8>.to_slice(); 6 get_array_ref::<[u8; a]>(.., j+1).ref_at(j).to_slice(); 7 / 8 / 9 an explicit
/// Clone::clone of the array reference / the slice / the typed reference first); routes 4, 6 and 9 need
/// 1 <= a <= 16 and fall back to route 1 otherwise.  None = the library answered Err on the way.
fn derived_slice<'a>(region: &'a GuestRegionMmap<()>, size: usize, off: usize, a: usize, c: usize) -> Option<VolatileSlice<'a, ()>> {
    let whole = || VolatileMemory::get_slice(&**region, 0, size).ok();
    match c {
        0 => VolatileMemory::get_slice(&**region, off, a).ok(),
        2 => whole()?.offset(off).ok()?.subslice(0, a).ok(),
        3 => whole()?.split_at(off).ok()?.1.subslice(0, a).ok(),
        5 => Some(region.get_array_ref::<u8>(off, a).ok()?.to_slice()),
        // explicit Clone::clone of an accessor (the crate derives Clone; a clone must carry the mapping handle too)
        7 => {
            #[allow(clippy::clone_on_copy)]
            let arr = Clone::clone(&region.get_array_ref::<u8>(off, a).ok()?);
            Some(arr.to_slice())
        }
        8 => {
            #[allow(clippy::clone_on_copy)]
            let sl = Clone::clone(&VolatileMemory::get_slice(&**region, off, a).ok()?);
            Some(sl)
        }
        4 | 6 | 9 if (1..=16).contains(&a) => {
            macro_rules! go3 {
                ($($k:literal),*) => {
                    match a {
                        $($k => {
                            if c == 4 {
                                Some(region.get_ref::<[u8; $k]>(off).ok()?.to_slice())
                            } else if c == 9 {
                                #[allow(clippy::clone_on_copy)]
                                let r = Clone::clone(&region.get_ref::<[u8; $k]>(off).ok()?);
                                Some(r.to_slice())
                            } else {
                                let j = std::cmp::min(2, off / $k);
                                Some(region.get_array_ref::<[u8; $k]>(off - j * $k, j + 1).ok()?.ref_at(j).to_slice())
                            }
                        })*
                        _ => unreachable!(),
                    }
                };
            }
            go3!(1, 2, 3, 4, 5, 6, 7, 8, 9, 10, 11, 12, 13, 14, 15, 16)
        }
        _ => whole()?.subslice(off, a).ok(),
    }
}

fn run_op(cx: &mut Ctx, op: &[u128]) -> Option<bool> {
    let (code, off, a, b, c) = (op[0] as u64, op[1] as usize, op[2] as usize, op[3] as usize, op[4] as usize);
    match code {
        0 => {
            let buf = cx.rng.bytes(a);
            let w = cx.region.write(&buf, MemoryRegionAddress(off as u64)).ok()?;
            let exp = if a == 0 { 0 } else { a.min(cx.size - off) };
            if w > 0 {
                cx.shadow[off..off + w].copy_from_slice(&buf[..w]);
            }
            Some(w == exp)
        }
        1 => {
            let mut buf = vec![0u8; a];
            let r = cx.region.read(&mut buf, MemoryRegionAddress(off as u64)).ok()?;
            let exp = if a == 0 { 0 } else { a.min(cx.size - off) };
            Some(r == exp && (r == 0 || buf[..r] == cx.shadow[off..off + r]))
        }
        2 => {
            // c = the derivation route to the slice designating region bytes [off, off+a): every route must carry
            // the region's mapping handle along (on an on-demand region the guard of the derived slice maps the
            // window; a route that loses the handle hands out a pointer into nothing)
            let s = derived_slice(&cx.region, cx.size, off, a, c)?;
            if b != 0 {
                let g = s.ptr_guard_mut();
                let pat = cx.rng.bytes(a);
                for i in 0..a {
                    unsafe { std::ptr::write_volatile(g.as_ptr().add(i), pat[i]) };
                }
                cx.shadow[off..off + a].copy_from_slice(&pat);
                Some(g.len() == a)
            } else {
                let g = s.ptr_guard();
                let mut ok = g.len() == a;
                for i in 0..a {
                    ok &= unsafe { std::ptr::read_volatile(g.as_ptr().add(i)) } == cx.shadow[off + i];
                }
                Some(ok)
            }
        }
        3..=8 => {
            macro_rules! go {
                ($($k:literal),*) => {
                    match a {
                        $($k => typed::<[u8; $k]>(cx, code, off, b, c),)*
                        _ => panic!("bad tsize"),
                    }
                };
            }
            go!(1, 2, 3, 4, 5, 6, 7, 8, 9, 10, 11, 12, 13, 14, 15, 16)
        }
        9 => {
            let addr = MemoryRegionAddress(off as u64);
            let sh = &cx.shadow;
            let le = |k: usize| -> u64 {
                let mut v = 0u64;
                for i in 0..k {
                    v |= (sh[off + i] as u64) << (8 * i);
                }
                v
            };
            match a {
                1 => Some(cx.region.load::<u8>(addr, Ordering::Relaxed).ok()? as u64 == le(1)),
                2 => Some(cx.region.load::<u16>(addr, Ordering::Relaxed).ok()? as u64 == le(2)),
                4 => Some(cx.region.load::<u32>(addr, Ordering::Relaxed).ok()? as u64 == le(4)),
                8 => Some(cx.region.load::<u64>(addr, Ordering::Relaxed).ok()? == le(8)),
                _ => panic!("bad atomic size"),
            }
        }
        10 => {
            let s = VolatileMemory::get_slice(&**cx.region, off, a).ok()?;
            let mut local = vec![0u8; a];
            let dst = VolatileSlice::from(&mut local[..]);
            s.copy_to_volatile_slice(dst);
            Some(local[..] == cx.shadow[off..off + a])
        }
        11 => {
            // read_volatile_from(off, &mut &src[..b], count = a)
            let src = cx.rng.bytes(b);
            let mut rd: &[u8] = &src[..];
            let got = cx.region.read_volatile_from(MemoryRegionAddress(off as u64), &mut rd, a).ok()?;
            let exp = (cx.size - off).min(a).min(b);
            if got > 0 {
                cx.shadow[off..off + got].copy_from_slice(&src[..got]);
            }
            Some(got == exp)
        }
        12 => {
            let mut sink: Vec<u8> = Vec::new();
            let got = cx.region.write_volatile_to(MemoryRegionAddress(off as u64), &mut sink, a).ok()?;
            let exp = (cx.size - off).min(a);
            Some(got == exp && sink.len() == got && (got == 0 || sink[..] == cx.shadow[off..off + got]))
        }
        15 => {
            // read_volatile_from(off, &mut File holding b bytes, count = a): one read(2) into guest memory
            let src = cx.rng.bytes(b);
            let mut f = mem_file(&src);
            let got = match cx.region.read_volatile_from(MemoryRegionAddress(off as u64), &mut f, a) {
                Ok(g) => g,
                Err(e) => {
                    cx.efault = is_efault(&e);
                    return None;
                }
            };
            let exp = (cx.size - off).min(a).min(b);
            if got > 0 && got <= exp {
                cx.shadow[off..off + got].copy_from_slice(&src[..got]);
            }
            Some(got == exp)
        }
        16 => {
            // read_exact_volatile_from(off, &mut File holding a + b bytes, count = a)
            let src = cx.rng.bytes(a + b);
            let mut f = mem_file(&src);
            if let Err(e) = cx.region.read_exact_volatile_from(MemoryRegionAddress(off as u64), &mut f, a) {
                cx.efault = is_efault(&e);
                return None;
            }
            cx.shadow[off..off + a].copy_from_slice(&src[..a]);
            Some(true)
        }
        17 => {
            // write_volatile_to(off, &mut empty File, count = a): one write(2) out of guest memory
            let mut f = mem_file(&[]);
            let got = match cx.region.write_volatile_to(MemoryRegionAddress(off as u64), &mut f, a) {
                Ok(g) => g,
                Err(e) => {
                    cx.efault = is_efault(&e);
                    return None;
                }
            };
            let exp = (cx.size - off).min(a);
            let sink = file_content(&f);
            Some(got == exp && sink.len() == got && (got == 0 || sink[..] == cx.shadow[off..off + got]))
        }
        18 => {
            let mut f = mem_file(&[]);
            if let Err(e) = cx.region.write_all_volatile_to(MemoryRegionAddress(off as u64), &mut f, a) {
                cx.efault = is_efault(&e);
                return None;
            }
            let sink = file_content(&f);
            Some(sink.len() == a && (a == 0 || sink[..] == cx.shadow[off..off + a]))
        }
        13 | 14 => {
            macro_rules! go2 {
                ($($k:literal),*) => {
                    match b {
                        $($k => typed::<[u8; $k]>(cx, code, off, a, c),)*
                        _ => panic!("bad tsize"),
                    }
                };
            }
            go2!(1, 2, 3, 4, 5, 6, 7, 8, 9, 10, 11, 12, 13, 14, 15, 16)
        }
        19..=34 => bytes_op(cx, code, off, a, b),
        _ => panic!("bad op"),
    }
}

/// Every method of the `Bytes` trait at REGION level (`Bytes<MemoryRegionAddress> for GuestRegionMmap`) and at
/// GUEST-MEMORY level (`Bytes<GuestAddress>` of a GuestMemoryMmap holding the region) that run_op does not drive above
/// (store / load are the known finding F6b and stay in C17xenfind):
///   19 R write_slice len=a   20 R read_slice   21 R write_obj::<[u8; a]>   22 R read_obj
///   23 R read_exact_volatile_from(&[u8] of a+b bytes, count=a)   24 R write_all_volatile_to(Vec, count=a)
///   25 G write len=a   26 G read   27 G write_slice   28 G read_slice   29 G write_obj::<[u8; a]>   30 G read_obj
///   31 G read_volatile_from(&[u8] of b >= a bytes, count=a)   32 G write_volatile_to(Vec, count=a)
///   33 G read_exact_volatile_from(&[u8] of a+b bytes, count=a)   34 G write_all_volatile_to(Vec, count=a)
fn bytes_op(cx: &mut Ctx, code: u64, off: usize, a: usize, b: usize) -> Option<bool> {
    let ra = MemoryRegionAddress(off as u64);
    let ga = GuestAddress(cx.gbase + off as u64);
    // the bytes a transfer of `a` bytes at `off` can reach
    let fit = if off < cx.size { a.min(cx.size - off) } else { 0 };
    match code {
        19 | 21 | 25 | 27 | 29 => {
            let buf = cx.rng.bytes(a);
            let r: Option<usize> = match code {
                19 => cx.region.write_slice(&buf, ra).ok().map(|_| a),
                27 => cx.gm.write_slice(&buf, ga).ok().map(|_| a),
                25 => cx.gm.write(&buf, ga).ok(),
                21 => with_k!(a, T => cx.region.write_obj::<T>(mk::<T>(&buf), ra).ok().map(|_| a)),
                _ => with_k!(a, T => cx.gm.write_obj::<T>(mk::<T>(&buf), ga).ok().map(|_| a)),
            };
            // a refused slice / object form has still stored what fitted
            cx.shadow[off.min(cx.size)..off.min(cx.size) + fit].copy_from_slice(&buf[..fit]);
            Some(r? == fit)
        }
        20 | 22 | 26 | 28 | 30 => {
            let mut buf = vec![0u8; a];
            let r: usize = match code {
                20 => cx.region.read_slice(&mut buf, ra).ok().map(|_| a)?,
                28 => cx.gm.read_slice(&mut buf, ga).ok().map(|_| a)?,
                26 => cx.gm.read(&mut buf, ga).ok()?,
                22 => with_k!(a, T => { let v = cx.region.read_obj::<T>(ra).ok()?; buf.copy_from_slice(v.as_slice()); a }),
                _ => with_k!(a, T => { let v = cx.gm.read_obj::<T>(ga).ok()?; buf.copy_from_slice(v.as_slice()); a }),
            };
            Some(r == fit && (r == 0 || buf[..r] == cx.shadow[off..off + r]))
        }
        23 | 31 | 33 => {
            let src = cx.rng.bytes(if code == 31 { b } else { a + b });
            let mut rd: &[u8] = &src[..];
            let r: Option<usize> = match code {
                23 => cx.region.read_exact_volatile_from(ra, &mut rd, a).ok().map(|_| a),
                31 => cx.gm.read_volatile_from(ga, &mut rd, a).ok(),
                _ => cx.gm.read_exact_volatile_from(ga, &mut rd, a).ok().map(|_| a),
            };
            // region level refuses before it stores (get_slice of the whole range); guest level stores what fits
            let stored = if code == 23 { if r.is_some() { a } else { 0 } } else { fit };
            if stored > 0 {
                cx.shadow[off..off + stored].copy_from_slice(&src[..stored]);
            }
            Some(r? == if code == 23 { a } else { fit })
        }
        24 | 32 | 34 => {
            let mut sink: Vec<u8> = Vec::new();
            let r: usize = match code {
                24 => cx.region.write_all_volatile_to(ra, &mut sink, a).ok().map(|_| a)?,
                32 => cx.gm.write_volatile_to(ga, &mut sink, a).ok()?,
                _ => cx.gm.write_all_volatile_to(ga, &mut sink, a).ok().map(|_| a)?,
            };
            Some(r == if code == 24 { a } else { fit } && sink.len() == r && (r == 0 || sink[..] == cx.shadow[off..off + r]))
        }
        _ => panic!("bad op"),
    }
}

/// the domid the regions of a case are built with (coq/Spec/C17.v case_domid)
fn case_domid(gbase: u64, page: u64) -> u32 {
    ((gbase / page) % 5 + 1) as u32
}

fn ev_toks(evs: &[DevEv], refs: &[Vec<(u32, u32)>]) -> Vec<u128> {
    let mut v = Vec::new();
    let mut k = 0;
    for e in evs {
        match *e {
            DevEv::Map { gref, count, index } => {
                v.extend([1, gref as u128, count as u128, index as u128]);
                // 3 n d0 r0 d1 r1 ...: the references the request named
                if let Some(l) = refs.get(k) {
                    v.extend([3, l.len() as u128]);
                    for r in l {
                        v.extend([r.0 as u128, r.1 as u128]);
                    }
                }
                k += 1;
            }
            DevEv::Unmap { index, count } => v.extend([2, index as u128, count as u128]),
            DevEv::Foreign { .. } => {}
        }
    }
    v
}

/// builds the region of the case (prints the B line); None = the library refused to build it
fn setup(case: &[Tok], out: &mut File) -> Option<Ctx> {
    let (rkind, size, gbase, page) = (case[1].u(), case[2].u() as usize, case[3].u(), case[4].u());
    assert!(page == unsafe { libc::sysconf(libc::_SC_PAGESIZE) } as u64);
    assert!(rkind < 4 && size <= (1 << 22) && gbase < (1 << 40) && gbase % page == 0);
    dev_install();
    dev_reset(false);
    let rounded = (size as u64 + page - 1) / page * page;
    let fd = dev_memfd(gbase + rounded + 16 * page);
    let data_base = if rkind == 1 { 0 } else { gbase };
    let mut rng = Rng::new(0x17 ^ size as u64 ^ gbase);
    let shadow = rng.bytes(size);
    if rkind != 0 {
        let w = unsafe { libc::pwrite(fd, shadow.as_ptr() as *const libc::c_void, size, data_base as libc::off_t) };
        assert!(w == size as isize);
    }
    let range = match rkind {
        0 => MmapRange::new_unix(size, None, GuestAddress(gbase)),
        k => MmapRange::new(size, Some(file_offset_of(fd, 0)), GuestAddress(gbase), [0, 1, 2, 0xA][k as usize], case_domid(gbase, page)),
    };
    let region = match MmapRegion::<()>::from_range(range).ok().and_then(|r| GuestRegionMmap::new(r, GuestAddress(gbase)).ok()) {
        Some(r) => r,
        None => {
            writeln!(out, "B 0").unwrap();
            return None;
        }
    };
    writeln!(out, "B 1").unwrap();
    if rkind == 0 {
        for i in 0..size {
            unsafe { std::ptr::write_volatile(region.as_ptr().add(i), shadow[i]) };
        }
    }
    dev_take();
    let region = std::sync::Arc::new(region);
    let gm = vm_memory::GuestMemoryMmap::from_arc_regions(vec![region.clone()]).unwrap();
    Some(Ctx { region, gm, gbase, rkind, fd, data_base, size, shadow, rng, efault: false })
}

/// one operation: S line, the operation (panics caught), O line
fn observe(cx: &mut Ctx, out: &mut File, f: impl FnOnce(&mut Ctx) -> Option<bool>) {
    writeln!(out, "S").unwrap(); // an operation starts
    cx.efault = false;
    let r = util::catch(|| f(cx));
    let (evs, refs) = dev_take_named();
    let whole = cx.backing() == cx.shadow;
    let (rc, data) = match r {
        None => (2u128, whole),
        Some(None) if cx.efault => (4, whole),
        Some(None) => (0, whole),
        Some(Some(d)) => (1, d && whole),
    };
    let mut v = vec![rc, data as u128, dev_live() as u128];
    v.extend(ev_toks(&evs, &refs));
    writeln!(out, "O {}", crate::tok::show(&Tok::L(v))).unwrap();
}

fn finish(cx: Ctx, out: &mut File) {
    let alive = dev_mapped();
    let Ctx { region, gm, .. } = cx;
    drop(gm);
    drop(region);
    writeln!(out, "E {:x} {:x} {:x}", alive, dev_mapped(), dev_live()).unwrap();
}

fn child(case: &[Tok], out: &mut File) {
    let mut cx = match setup(case, out) {
        Some(c) => c,
        None => return,
    };
    for t in &case[5..] {
        let op = t.l().to_vec();
        assert!(op.len() == 5);
        observe(&mut cx, out, |cx| run_op(cx, &op));
    }
    finish(cx, out);
}

fn exec(case: &[Tok]) -> Vec<Tok> {
    assert!(case.len() >= 5);
    // reject absurd operands (token perturbation by the shrinker / neighbourhood search) BEFORE doing
    // any work: a huge length would make the harness itself allocate gigabytes
    assert!(case[2].u() <= (1 << 22) && case[3].u() < (1 << 40) && case.len() <= 5 + 64);
    for t in &case[5..] {
        let l = t.l();
        assert!(l.len() == 5);
        assert!(l[0] <= 34 && l[1] < (1 << 24) && l[2] < (1 << 20) && l[3] < (1 << 16) && l[4] < (1 << 16));
        if (3..=8).contains(&l[0]) {
            assert!((1..=16).contains(&l[2]));
        }
        if l[0] == 9 {
            assert!([1, 2, 4, 8].contains(&l[2]));
        }
        if l[0] == 13 || l[0] == 14 {
            assert!((1..=16).contains(&l[3]));
        }
        if [21, 22, 29, 30].contains(&l[0]) {
            assert!((1..=16).contains(&l[2]));
        }
        if l[0] == 31 {
            assert!(l[3] >= l[2]);
        }
    }
    fork_run(case, case.len() - 5, child)
}

/// runs `childf` on the case in a forked child and assembles the observation from what it printed
fn fork_run(case: &[Tok], nops: usize, childf: fn(&[Tok], &mut File)) -> Vec<Tok> {
    let mut fds = [0i32; 2];
    assert!(unsafe { libc::pipe(fds.as_mut_ptr()) } == 0);
    let pid = unsafe { libc::fork() };
    assert!(pid >= 0);
    if pid == 0 {
        unsafe { libc::close(fds[0]) };
        let mut out = unsafe { File::from_raw_fd(fds[1]) };
        let ok = util::catch(|| childf(case, &mut out)).is_some();
        unsafe { libc::_exit(if ok { 0 } else { 7 }) };
    }
    unsafe { libc::close(fds[1]) };
    let mut text = String::new();
    {
        use std::io::Read;
        let mut f = unsafe { File::from_raw_fd(fds[0]) };
        f.read_to_string(&mut text).unwrap();
    }
    let mut status = 0i32;
    unsafe { libc::waitpid(pid, &mut status, 0) };
    let mut built = 0u64;
    let mut ops: Vec<Tok> = Vec::new();
    let mut started = 0usize;
    let mut tail: Option<Vec<Tok>> = None;
    for l in text.lines() {
        let mut w = l.split_whitespace();
        match w.next() {
            Some("B") => built = w.next().unwrap().parse().unwrap(),
            Some("S") => started += 1,
            Some("O") => ops.push(crate::tok::parse(w.next().unwrap())),
            Some("E") => tail = Some(w.map(crate::tok::parse).collect()),
            _ => panic!("bad child line"),
        }
    }
    let died = libc::WIFSIGNALED(status);
    if !died && !(libc::WIFEXITED(status) && libc::WEXITSTATUS(status) == 0) {
        panic!("child failed"); // the case could not be decoded / set up: not an observation
    }
    let mut out = vec![n(built)];
    if died {
        // the operation that was running faulted; nothing after it was observed
        assert!(started == ops.len() + 1 && started <= nops);
        out.extend(ops);
        out.push(Tok::L(vec![3, 0, 0]));
        out.extend([n(0u8), n(0u8), n(0u8)]);
    } else {
        out.extend(ops);
        out.extend(tail.unwrap_or(vec![n(0u8), n(0u8), n(0u8)]));
    }
    out
}

// ------------------------------------------------------------------ generators
fn op(code: u64, off: u64, a: u64, b: u64, c: u64) -> Tok {
    Tok::L(vec![code as u128, off as u128, a as u128, b as u128, c as u128])
}

/// would this operation take a zero-length guard at a page-aligned offset (known candidate F6a)?
fn zero_len_aligned(size: u64, page: u64, o: &Tok) -> bool {
    let l = o.l();
    let (code, off, a, b, c) = (l[0] as u64, l[1] as u64, l[2] as u64, l[3] as u64, l[4] as u64);
    let _ = c;
    match code {
        2 => a == 0 && off <= size && off % page == 0,
        7 | 8 => b == 0 && off <= size && off % page == 0,
        11 | 12 => off <= size && off % page == 0 && (a == 0 || off == size),
        13 | 14 => off + a <= size && off % page == 0 && (if b == 1 { a == 0 } else { a / b == 0 }),
        _ => false,
    }
}

fn rand_op(rng: &mut Rng, size: u64, page: u64, allow_raw: bool) -> Tok {
    // offsets: within a page, at / across page boundaries, at / past the end
    let off = match rng.below(8) {
        0 => rng.below(size + 2),
        1 => page * rng.below(size / page + 1),
        2 => (page * rng.range(1, size / page + 1)).wrapping_sub(rng.range(1, 17)),
        3 => size.wrapping_sub(rng.below(20)),
        4 => rng.below(page),
        5 => page * rng.below(size / page + 1) + rng.below(16),
        6 => 0,
        _ => size + rng.below(3),
    } % (size + 8);
    let len = match rng.below(6) {
        0 => rng.below(20),
        1 => rng.below(2 * page + 5),
        2 => size.saturating_sub(off) + rng.below(3),
        3 => (page - off % page) + rng.below(4),
        4 => rng.range(1, 9),
        _ => 0,
    };
    let t = if rng.bool() { *rng.pick(&[1u64, 2, 4, 8, 16]) } else { rng.range(1, 16) };
    let nn = match rng.below(4) {
        0 => rng.below(6),
        1 => (size.saturating_sub(off) / t).min(600) + rng.below(2),
        2 => page / t + rng.below(3),
        _ => rng.range(1, 40),
    };
    let i = if rng.chance(1, 12) { nn } else { rng.below(nn.max(1)) };
    let k = if rng.bool() { nn + rng.below(3) } else { rng.below(nn + 2) };
    let code = match rng.below(if allow_raw { 19 } else { 17 }) {
        x if x < 9 => x,
        x if !allow_raw => x + 2,
        x => x,
    };
    // a third of the operations: the remaining methods of `Bytes` at region and at guest-memory level
    if rng.chance(1, 3) {
        let code = rng.range(19, 34);
        let t16 = rng.range(1, 16);
        return match code {
            21 | 22 | 29 | 30 => op(code, off, t16, 0, 0),
            23 | 33 => op(code, off, len, rng.below(4), 0),
            31 => op(code, off, len, len + rng.below(3), 0),
            _ => op(code, off, len, 0, 0),
        };
    }
    match code {
        0 | 1 => op(code, off, len, 0, 0),
        2 => op(2, off, len, rng.below(2), rng.below(10)),
        3 | 4 => op(code, off, t, 0, 0),
        5 | 6 => op(code, off, t, nn, i),
        7 | 8 => op(code, off, t, nn, k),
        9 => {
            let t = *rng.pick(&[1u64, 2, 4, 8]);
            op(9, if rng.chance(7, 8) { off / t * t } else { off }, t, 0, 0)
        }
        10 => op(10, off, len, 0, 0),
        11 => op(11, off, len, if rng.bool() { len } else { rng.below(len + 3) }, 0),
        12 => op(12, off, len, 0, 0),
        15 => op(15, off, len, if rng.bool() { len } else { rng.below(len + 3) }, 0),
        16 => op(16, off, len, rng.below(4), 0),
        17 | 18 => op(code, off, len, 0, 0),
        _ => op(code, off, len, t, if rng.bool() { len / t + rng.below(2) } else { rng.below(len / t + 2) }),
    }
}

fn gen(rng: &mut Rng, tier: Tier, emit: &mut dyn FnMut(Vec<Tok>)) {
    let mode = crate::build_mode();
    let page = unsafe { libc::sysconf(libc::_SC_PAGESIZE) } as u64;
    let mut case = |rkind: u64, size: u64, gbase: u64, ops: Vec<Tok>| {
        let mut v = vec![n(mode), n(rkind), n(size), n(gbase), n(page)];
        // (F6a - a zero-length guard at a page boundary of an on-demand region used to panic - is repaired by a
        // `fix:` commit; such operations are ordinary cases now)
        v.extend(ops);
        emit(v)
    };
    // formerly F6a (repaired): zero-length guards / zero-count transfers at page-aligned offsets of every region kind
    for rkind in 0..4u64 {
        let (size, gbase) = (2 * page, 0x40 * page);
        case(rkind, size, gbase, vec![op(0, 5, 8, 0, 0), op(2, page, 0, 0, 0), op(1, 5, 8, 0, 0)]);
        case(rkind, size, gbase, vec![op(2, 0, 0, 1, 0)]);
        case(rkind, size, gbase, vec![op(7, page, 2, 0, 0)]);
        case(rkind, size, gbase, vec![op(11, 2 * page, 8, 8, 0)]);
        case(rkind, size, gbase, vec![op(12, page, 0, 0, 0)]);
        case(rkind, size, gbase, vec![op(14, page, 3, 4, 1)]);
        case(rkind, size, gbase, vec![op(2, 5, 0, 0, 0)]);
        // descriptor streams: empty transfers and refused offsets
        case(rkind, size, gbase, vec![op(15, page, 0, 8, 0), op(16, page, 0, 2, 0), op(17, page, 0, 0, 0), op(18, 2 * page, 0, 0, 0)]);
        case(rkind, size, gbase, vec![op(15, 2 * page, 8, 8, 0), op(15, 2 * page + 1, 8, 8, 0), op(16, 2 * page - 4, 8, 0, 0), op(18, 2 * page - 4, 8, 0, 0), op(17, 2 * page + 1, 1, 0, 0)]);
        // the object / slice / exact forms at both levels: at and past the end, empty
        case(rkind, size, gbase, vec![op(21, 2 * page - 4, 8, 0, 0), op(22, 2 * page - 4, 8, 0, 0), op(29, 2 * page - 4, 8, 0, 0), op(30, 2 * page - 4, 8, 0, 0), op(19, 2 * page, 4, 0, 0), op(27, 2 * page, 4, 0, 0), op(28, 2 * page + 1, 4, 0, 0)]);
        case(rkind, size, gbase, vec![op(19, page, 0, 0, 0), op(27, 2 * page, 0, 0, 0), op(25, 2 * page, 0, 0, 0), op(31, page, 0, 0, 0), op(31, 2 * page, 0, 0, 0), op(33, 2 * page, 0, 0, 0), op(34, page, 0, 0, 0), op(32, 2 * page, 0, 0, 0), op(23, 2 * page, 0, 1, 0), op(24, 2 * page, 0, 0, 0)]);
        case(rkind, size, gbase, vec![op(33, 2 * page - 4, 8, 0, 0), op(34, 2 * page - 4, 8, 0, 0), op(23, 2 * page - 4, 8, 0, 0), op(24, 2 * page - 4, 8, 0, 0), op(31, 2 * page - 4, 8, 9, 0), op(32, 2 * page - 4, 8, 0, 0), op(1, 2 * page - 8, 8, 0, 0)]);
        case(rkind, size, gbase, vec![op(15, 8, 64, 0, 0), op(15, page - 8, 64, 16, 0), op(16, page - 8, 64, 0, 0), op(18, page - 8, 64, 0, 0), op(17, page - 8, 2 * page, 0, 0)]);
    }
    // systematic: every guarded operation x offsets within / across pages, on every region kind
    let size = 3 * page;
    for rkind in 0..4u64 {
        let gbase = 0x40 * page;
        for &off in &[0u64, 1, 7, page - 9, page - 8, page - 1, page, page + 1, 2 * page - 3, 3 * page - 16, 3 * page - 1] {
            for &len in &[1u64, 2, 8, 9, 16, page, page + 1, 2 * page] {
                let mut ops = vec![op(0, off, len, 0, 0), op(1, off, len, 0, 0), op(11, off, len, len, 0), op(12, off, len, 0, 0)];
                // descriptor streams: full file, short file, sink
                ops.extend([op(15, off, len, len, 0), op(17, off, len, 0, 0), op(15, off, len, len / 2 + 1, 0), op(1, off, len, 0, 0)]);
                // every other `Bytes` method, region level then guest-memory level
                for code in [19u64, 20, 23, 24, 25, 26, 27, 28, 32, 33, 34] {
                    ops.push(op(code, off, len, if code == 23 || code == 33 { 2 } else { 0 }, 0));
                }
                ops.push(op(31, off, len, len + 1, 0));
                if len <= 16 {
                    for code in [21u64, 22, 29, 30] {
                        ops.push(op(code, off, len, 0, 0));
                    }
                }
                if off + len <= size {
                    ops.push(op(16, off, len, 3, 0));
                    ops.push(op(18, off, len, 0, 0));
                    ops.push(op(13, off, len, 1, len));
                    ops.push(op(14, off, len, 4, len / 4 + 1));
                    ops.push(op(13, off, len, 3, len / 3));
                    ops.push(op(2, off, len, 1, 0));
                    ops.push(op(2, off, len, 0, 0));
                    // the same window through every derivation route
                    for route in 1..10u64 {
                        ops.push(op(2, off, len, route % 2, route));
                    }
                }
                case(rkind, size, gbase, ops);
            }
            for t in [1u64, 2, 3, 4, 8, 12, 16] {
                let nn = 5;
                case(
                    rkind,
                    size,
                    gbase,
                    vec![
                        op(3, off, t, 0, 0),
                        op(4, off, t, 0, 0),
                        op(5, off, t, nn, 4),
                        op(6, off, t, nn, 4),
                        op(7, off, t, nn, 5),
                        op(8, off, t, nn, 5),
                        op(7, off, t, 600, 3),
                        op(8, off, t, 600, 600),
                    ],
                );
            }
        }
    }
    // random histories
    let nh = if tier == Tier::Quick { 700 } else { 20_000 };
    for _ in 0..nh {
        let rkind = if rng.chance(1, 2) { 3 } else { rng.below(3) };
        let size = match rng.below(4) {
            0 => page * rng.range(1, 6),
            1 => page * rng.range(1, 4) + rng.below(page),
            2 => rng.range(1, page),
            _ => 2 * page,
        };
        let gbase = page * rng.below(1 << 12);
        let nops = rng.range(1, 8);
        let mut ops = Vec::new();
        while (ops.len() as u64) < nops {
            let o = rand_op(rng, size, page, rkind != 3);
            ops.push(o);
        }
        case(rkind, size, gbase, ops);
    }
}

/// Known-finding candidates on on-demand grant regions; the offending operation is the last one.
fn gen_find(_rng: &mut Rng, _tier: Tier, emit: &mut dyn FnMut(Vec<Tok>)) {
    let mode = crate::build_mode();
    let page = unsafe { libc::sysconf(libc::_SC_PAGESIZE) } as u64;
    let mut case = |ops: Vec<Tok>| {
        let mut v = vec![n(mode), n(3u8), n(2 * page), n(0x40 * page), n(page)];
        v.extend(ops);
        emit(v)
    };
    // F6b: unguarded dereference of the null-based address
    case(vec![op(0, 8, 8, 0, 0), op(9, 8, 4, 0, 0)]);
    case(vec![op(9, 0, 8, 0, 0)]);
    case(vec![op(10, 16, 32, 0, 0)]);
}

// ------------------------------------------------------------------ suite C17xenchain: derivation chains
// case:  mode rkind size gbase page [root] [step]* [final]     (each list: code a b c - see coq/Spec/C17.v)
// obs:   the observation of a one-operation history
// The accessor of the final access is reached by a RANDOM chain over every accessor-producing method of
// volatile_memory.rs (subslice, offset, both halves of split_at, get_slice, get_ref, get_array_ref, as_volatile_slice,
// From<VolatileSlice> for VolatileArrayRef<u8>, Clone, Copy, to_slice, ref_at): each of them builds a new accessor
// and has to hand the region's mapping handle on; on an on-demand region an accessor without it dereferences the
// null-based address (the child dies: r = 3).
use vm_memory::{VolatileArrayRef, VolatileRef};

type VS<'a> = VolatileSlice<'a, ()>;
trait DRef<'a> {
    fn to_slice(&self) -> VS<'a>;
    fn dup(&self, copy: bool) -> Box<dyn DRef<'a> + 'a>;
    fn load(&self) -> Vec<u8>;
    fn store(&self, b: &[u8]);
    fn guard_read(&self) -> Vec<u8>;
    fn guard_write(&self, b: &[u8]) -> usize;
}
trait DArr<'a> {
    fn to_slice(&self) -> VS<'a>;
    fn dup(&self, copy: bool) -> Box<dyn DArr<'a> + 'a>;
    fn ref_at(&self, i: usize) -> Box<dyn DRef<'a> + 'a>;
    fn load(&self, i: usize) -> Vec<u8>;
    fn store(&self, i: usize, b: &[u8]);
    fn guard_read(&self) -> Vec<u8>;
    fn guard_write(&self, b: &[u8]) -> usize;
}
fn g_read(p: *const u8, len: usize) -> Vec<u8> {
    (0..len).map(|i| unsafe { std::ptr::read_volatile(p.add(i)) }).collect()
}
fn g_write(p: *mut u8, len: usize, b: &[u8]) -> usize {
    for i in 0..len.min(b.len()) {
        unsafe { std::ptr::write_volatile(p.add(i), b[i]) };
    }
    len
}
fn mk<T: ByteValued>(bytes: &[u8]) -> T {
    let mut v: T = unsafe { std::mem::zeroed() };
    v.as_mut_slice().copy_from_slice(bytes);
    v
}
impl<'a, T: ByteValued + 'a> DRef<'a> for VolatileRef<'a, T, ()> {
    fn to_slice(&self) -> VS<'a> {
        VolatileRef::to_slice(self)
    }
    fn dup(&self, copy: bool) -> Box<dyn DRef<'a> + 'a> {
        if copy {
            let x = *self;
            Box::new(x)
        } else {
            #[allow(clippy::clone_on_copy)]
            Box::new(Clone::clone(self))
        }
    }
    fn load(&self) -> Vec<u8> {
        VolatileRef::load(self).as_slice().to_vec()
    }
    fn store(&self, b: &[u8]) {
        VolatileRef::store(self, mk::<T>(b))
    }
    fn guard_read(&self) -> Vec<u8> {
        let g = self.ptr_guard();
        g_read(g.as_ptr(), g.len())
    }
    fn guard_write(&self, b: &[u8]) -> usize {
        let g = self.ptr_guard_mut();
        g_write(g.as_ptr(), g.len(), b)
    }
}
impl<'a, T: ByteValued + 'a> DArr<'a> for VolatileArrayRef<'a, T, ()> {
    fn to_slice(&self) -> VS<'a> {
        VolatileArrayRef::to_slice(self)
    }
    fn dup(&self, copy: bool) -> Box<dyn DArr<'a> + 'a> {
        if copy {
            let x = *self;
            Box::new(x)
        } else {
            #[allow(clippy::clone_on_copy)]
            Box::new(Clone::clone(self))
        }
    }
    fn ref_at(&self, i: usize) -> Box<dyn DRef<'a> + 'a> {
        Box::new(VolatileArrayRef::ref_at(self, i))
    }
    fn load(&self, i: usize) -> Vec<u8> {
        VolatileArrayRef::load(self, i).as_slice().to_vec()
    }
    fn store(&self, i: usize, b: &[u8]) {
        VolatileArrayRef::store(self, i, mk::<T>(b))
    }
    fn guard_read(&self) -> Vec<u8> {
        let g = self.ptr_guard();
        g_read(g.as_ptr(), g.len())
    }
    fn guard_write(&self, b: &[u8]) -> usize {
        let g = self.ptr_guard_mut();
        g_write(g.as_ptr(), g.len(), b)
    }
}

enum Acc<'a> {
    S(VS<'a>),
    R(Box<dyn DRef<'a> + 'a>),
    A(Box<dyn DArr<'a> + 'a>),
}
/// the bytes an accessor designates according to the documentation of the methods that produced it (the harness'
/// own bookkeeping for the shadow copy): S(off, len) / R(off, t) / A(off, t, n)
#[derive(Clone, Copy, PartialEq, Debug)]
enum Geo {
    S(usize, usize),
    R(usize, usize),
    A(usize, usize, usize),
}

// The trait methods of VolatileMemory tie the result to the borrow of `self`; the accessors they return point into
// the region (and at its mapping handle), which outlives the whole chain: extend the lifetime.
unsafe fn ext_s<'a>(s: VolatileSlice<'_, ()>) -> VS<'a> {
    std::mem::transmute(s)
}
fn ref_of<'a, M: VolatileMemory<B = ()>>(m: &M, k: usize, off: usize) -> Option<Box<dyn DRef<'a> + 'a>> {
    with_k!(k, T => {
        let r = m.get_ref::<T>(off).ok()?;
        let r: VolatileRef<'a, T, ()> = unsafe { std::mem::transmute(r) };
        Some(Box::new(r))
    })
}
fn arr_of<'a, M: VolatileMemory<B = ()>>(m: &M, k: usize, off: usize, n: usize) -> Option<Box<dyn DArr<'a> + 'a>> {
    with_k!(k, T => {
        let r = m.get_array_ref::<T>(off, n).ok()?;
        let r: VolatileArrayRef<'a, T, ()> = unsafe { std::mem::transmute(r) };
        Some(Box::new(r))
    })
}

fn geo_root(size: usize, l: &[u128]) -> Option<Geo> {
    let (a, b, c) = (l[1] as usize, l[2] as usize, l[3] as usize);
    match l[0] {
        0 | 1 => (a + b <= size).then_some(Geo::S(a, b)),
        2 | 5 => Some(Geo::S(0, size)),
        3 => (a + b <= size).then_some(Geo::R(a, b)),
        4 => (a + c * b <= size).then_some(Geo::A(a, b, c)),
        _ => None,
    }
}
fn geo_step(g: Geo, l: &[u128]) -> Option<Geo> {
    let (a, b, c) = (l[1] as usize, l[2] as usize, l[3] as usize);
    match (g, l[0]) {
        (Geo::S(off, len), 0 | 4) => (a + b <= len).then_some(Geo::S(off + a, b)),
        (Geo::S(off, len), 1 | 3) => (a <= len).then(|| Geo::S(off + a, len - a)),
        (Geo::S(off, len), 2) => (a <= len).then_some(Geo::S(off, a)),
        (Geo::S(off, len), 5) => (a + b <= len).then_some(Geo::R(off + a, b)),
        (Geo::S(off, len), 6) => (a + c * b <= len).then_some(Geo::A(off + a, b, c)),
        (Geo::S(..), 7) => Some(g),
        (Geo::S(off, len), 8) => Some(Geo::A(off, 1, len)),
        (_, 9 | 10) => Some(g),
        (Geo::R(off, t), 11) => Some(Geo::S(off, t)),
        (Geo::A(off, t, n), 11) => Some(Geo::S(off, n * t)),
        (Geo::A(off, t, n), 12) => (a < n).then_some(Geo::R(off + a * t, t)),
        _ => None,
    }
}

fn chain_root<'a>(region: &'a GuestRegionMmap<()>, l: &[u128]) -> Option<Acc<'a>> {
    use vm_memory::GuestMemoryRegion;
    let (a, b, c) = (l[1] as usize, l[2] as usize, l[3] as usize);
    Some(match l[0] {
        0 => Acc::S(VolatileMemory::get_slice(&**region, a, b).ok()?),
        1 => Acc::S(GuestMemoryRegion::get_slice(region, MemoryRegionAddress(a as u64), b).ok()?),
        2 => Acc::S(GuestMemoryRegion::as_volatile_slice(region).ok()?),
        3 => Acc::R(ref_of(&**region, b, a)?),
        4 => Acc::A(arr_of(&**region, b, a, c)?),
        5 => Acc::S(unsafe { ext_s(VolatileMemory::as_volatile_slice(&**region)) }),
        _ => panic!("bad root"),
    })
}
fn chain_step<'a>(acc: Acc<'a>, l: &[u128]) -> Option<Acc<'a>> {
    let (a, b, c) = (l[1] as usize, l[2] as usize, l[3] as usize);
    Some(match (acc, l[0]) {
        (Acc::S(s), 0) => Acc::S(s.subslice(a, b).ok()?),
        (Acc::S(s), 1) => Acc::S(s.offset(a).ok()?),
        (Acc::S(s), 2) => Acc::S(s.split_at(a).ok()?.0),
        (Acc::S(s), 3) => Acc::S(s.split_at(a).ok()?.1),
        (Acc::S(s), 4) => Acc::S(unsafe { ext_s(VolatileMemory::get_slice(&s, a, b).ok()?) }),
        (Acc::S(s), 5) => Acc::R(ref_of(&s, b, a)?),
        (Acc::S(s), 6) => Acc::A(arr_of(&s, b, a, c)?),
        (Acc::S(s), 7) => Acc::S(unsafe { ext_s(VolatileMemory::as_volatile_slice(&s)) }),
        (Acc::S(s), 8) => Acc::A(Box::new(VolatileArrayRef::<u8, ()>::from(s))),
        (Acc::S(s), 9) => {
            #[allow(clippy::clone_on_copy)]
            let t = Clone::clone(&s);
            Acc::S(t)
        }
        (Acc::S(s), 10) => {
            let t = *&s;
            Acc::S(t)
        }
        (Acc::R(r), 9) => Acc::R(r.dup(false)),
        (Acc::R(r), 10) => Acc::R(r.dup(true)),
        (Acc::A(x), 9) => Acc::A(x.dup(false)),
        (Acc::A(x), 10) => Acc::A(x.dup(true)),
        (Acc::R(r), 11) => Acc::S(r.to_slice()),
        (Acc::A(x), 11) => Acc::S(x.to_slice()),
        (Acc::A(x), 12) => Acc::R(x.ref_at(a)),
        _ => return None,
    })
}

fn run_chain(cx: &mut Ctx, toks: &[Tok]) -> Option<bool> {
    let n = toks.len();
    let region: &GuestRegionMmap<()> = &cx.region;
    let mut acc = chain_root(region, toks[0].l())?;
    let mut geo = geo_root(cx.size, toks[0].l());
    for t in &toks[1..n - 1] {
        acc = chain_step(acc, t.l())?;
        geo = geo.and_then(|g| geo_step(g, t.l()));
    }
    let f = toks[n - 1].l();
    let (code, a) = (f[0], f[1] as usize);
    // what the access is expected to cover: (first byte, byte count)
    let want = match (geo, code) {
        (Some(Geo::S(o, l)), 0..=3) => Some((o, l)),
        (Some(Geo::R(o, t)), 0..=3) => Some((o, t)),
        (Some(Geo::A(o, t, k)), 0 | 1) => Some((o, k * t)),
        (Some(Geo::A(o, t, k)), 4 | 5) if a < k => Some((o + a * t, t)),
        _ => None,
    };
    let pat = cx.rng.bytes(want.map_or(64, |w| w.1));
    let exp = |sh: &Vec<u8>| want.map(|(o, l)| sh[o..o + l].to_vec());
    let before = exp(&cx.shadow);
    // Some(bytes read) / written byte count
    enum Got {
        Read(Vec<u8>),
        Wrote(usize),
    }
    let got = match (&acc, code) {
        (Acc::S(s), 0) => {
            let g = s.ptr_guard();
            Got::Read(g_read(g.as_ptr(), g.len()))
        }
        (Acc::S(s), 1) => {
            let g = s.ptr_guard_mut();
            Got::Wrote(g_write(g.as_ptr(), g.len(), &pat))
        }
        (Acc::S(s), 2) => {
            let mut buf = vec![0u8; s.len()];
            let r = s.read(&mut buf, 0).ok()?;
            buf.truncate(r);
            Got::Read(buf)
        }
        (Acc::S(s), 3) => Got::Wrote(s.write(&pat[..pat.len().min(s.len())], 0).ok()?),
        (Acc::R(r), 0) => Got::Read(r.guard_read()),
        (Acc::R(r), 1) => Got::Wrote(r.guard_write(&pat)),
        (Acc::R(r), 2) => Got::Read(r.load()),
        (Acc::R(r), 3) => {
            let t = match geo {
                Some(Geo::R(_, t)) => t,
                _ => return Some(false),
            };
            r.store(&pat[..t]);
            Got::Wrote(t)
        }
        (Acc::A(x), 0) => Got::Read(x.guard_read()),
        (Acc::A(x), 1) => Got::Wrote(x.guard_write(&pat)),
        (Acc::A(x), 4) => Got::Read(x.load(a)),
        (Acc::A(x), 5) => {
            let t = match geo {
                Some(Geo::A(_, t, _)) => t,
                _ => return Some(false),
            };
            x.store(a, &pat[..t]);
            Got::Wrote(t)
        }
        _ => return None,
    };
    // the library handed out an accessor the documentation does not promise: nothing to compare with
    let (o, l) = match want {
        Some(w) => w,
        None => return Some(false),
    };
    Some(match got {
        Got::Read(v) => Some(v) == before,
        Got::Wrote(k) => {
            if k == l {
                cx.shadow[o..o + l].copy_from_slice(&pat[..l]);
            }
            k == l
        }
    })
}

fn child_chain(case: &[Tok], out: &mut File) {
    let mut cx = match setup(case, out) {
        Some(c) => c,
        None => return,
    };
    observe(&mut cx, out, |cx| run_chain(cx, &case[5..]));
    finish(cx, out);
}

fn exec_chain(case: &[Tok]) -> Vec<Tok> {
    assert!(case.len() >= 7 && case.len() <= 5 + 40);
    assert!(case[2].u() <= (1 << 22) && case[3].u() < (1 << 40));
    let n = case.len();
    for (i, t) in case[5..].iter().enumerate() {
        let l = t.l();
        assert!(l.len() == 4 && l[1] < (1 << 24) && l[2] < (1 << 24) && l[3] < (1 << 24));
        let sized = if i == 0 { l[0] == 3 || l[0] == 4 } else { i < n - 6 && (l[0] == 5 || l[0] == 6) };
        if sized {
            assert!((1..=16).contains(&l[2]));
        }
        assert!(l[0] <= if i == 0 { 5 } else if i == n - 6 { 5 } else { 12 });
    }
    fork_run(case, 1, child_chain)
}

fn k4(code: u64, a: u64, b: u64, c: u64) -> Tok {
    Tok::L(vec![code as u128, a as u128, b as u128, c as u128])
}
/// a random request on the accessor `g`, mostly one the documentation accepts
fn rand_step(rng: &mut Rng, g: Geo) -> Tok {
    let valid = rng.chance(9, 10);
    match g {
        Geo::S(_, len) => {
            let len = len as u64;
            let o = if valid { rng.below(len + 1).min(if rng.bool() { 24 } else { u64::MAX }) } else { rng.below(len + 3) };
            let rest = len.saturating_sub(o);
            let c = if valid { if rng.chance(1, 3) { rest } else { rng.below(rest + 1) } } else { rng.below(rest + 3) };
            let t = rng.range(1, 16);
            match rng.below(13) {
                0 => k4(0, o, c, 0),
                1 => k4(1, o, 0, 0),
                2 | 3 => k4(2, if rng.bool() { len - rng.below(len.min(9) + 1) } else { o }, 0, 0),
                4 => k4(3, o, 0, 0),
                5 => k4(4, o, c, 0),
                6 => k4(5, if rest >= t || !valid { o } else { 0 }, t.min(len.max(1)), 0),
                7 => k4(6, o, t, if valid { rng.below(rest / t + 1) } else { rest / t + rng.below(2) }),
                8 => k4(7, 0, 0, 0),
                9 | 10 => k4(8, 0, 0, 0),
                11 => k4(9, 0, 0, 0),
                _ => k4(10, 0, 0, 0),
            }
        }
        Geo::R(..) => match rng.below(4) {
            0 => k4(9, 0, 0, 0),
            1 => k4(10, 0, 0, 0),
            _ => k4(11, 0, 0, 0),
        },
        Geo::A(_, _, n) => match rng.below(6) {
            0 => k4(9, 0, 0, 0),
            1 => k4(10, 0, 0, 0),
            2 | 3 => k4(11, 0, 0, 0),
            _ => k4(12, if valid && n > 0 { rng.below(n as u64) } else { n as u64 + rng.below(2) }, 0, 0),
        },
    }
}
fn rand_final(rng: &mut Rng, g: Geo) -> Tok {
    match g {
        Geo::S(..) | Geo::R(..) => k4(rng.below(4), 0, 0, 0),
        Geo::A(_, _, n) => match rng.below(4) {
            0 => k4(0, 0, 0, 0),
            1 => k4(1, 0, 0, 0),
            x => k4(2 + x, if n > 0 && rng.chance(15, 16) { rng.below(n as u64) } else { n as u64 }, 0, 0),
        },
    }
}
fn rand_root(rng: &mut Rng, size: u64, page: u64) -> Tok {
    let off = match rng.below(5) {
        0 => 0,
        1 => rng.below(size + 1),
        2 => (page * rng.range(1, size / page + 1)).saturating_sub(rng.range(1, 17)).min(size),
        3 => page * rng.below(size / page + 1),
        _ => rng.below(page.min(size + 1)),
    };
    let rest = size - off;
    let t = rng.range(1, 16);
    match rng.below(9) {
        0 | 1 => k4(rng.below(2), off, if rng.bool() { rest } else { rng.below(rest + 1) }, 0),
        2 | 3 => k4(2, 0, 0, 0),
        4 => k4(5, 0, 0, 0),
        5 => k4(3, if rest >= t { off } else { 0 }, t.min(size.max(1)), 0),
        6 => k4(rng.below(2), off, rest + rng.below(2), 0),
        _ => k4(4, off, t, if rng.chance(1, 10) { rest / t + 1 } else { rng.below(rest / t + 1) }),
    }
}

fn gen_chain(rng: &mut Rng, tier: Tier, emit: &mut dyn FnMut(Vec<Tok>)) {
    let mode = crate::build_mode();
    let page = unsafe { libc::sysconf(libc::_SC_PAGESIZE) } as u64;
    let mut case = |rkind: u64, size: u64, gbase: u64, chain: Vec<Tok>| {
        let mut v = vec![n(mode), n(rkind), n(size), n(gbase), n(page)];
        v.extend(chain);
        emit(v)
    };
    // systematic: every method once (and every pair of slice-to-slice methods) between a root and an access that
    // crosses a page boundary, on the on-demand and on the advance-mapped grant region
    let size = 3 * page;
    let gbase = 0x40 * page;
    let (o, l) = (page - 40, 100u64); // the window [page-40, page+60) inside a root [page-64, page+192)
    let roots = [k4(0, page - 64, 256, 0), k4(1, page - 64, 256, 0)];
    let s2s = |o: u64, l: u64, len: u64| -> Vec<Vec<Tok>> {
        // ways from a slice of `len` bytes to its part [o, o+l)
        vec![
            vec![k4(0, o, l, 0)],
            vec![k4(4, o, l, 0)],
            vec![k4(1, o, 0, 0), k4(2, l, 0, 0)],
            vec![k4(2, o + l, 0, 0), k4(3, o, 0, 0)],
            vec![k4(3, o, 0, 0), k4(0, 0, l, 0)],
            vec![k4(2, o + l, 0, 0), k4(1, o, 0, 0)],
            vec![k4(7, 0, 0, 0), k4(0, o, l, 0)],
            vec![k4(8, 0, 0, 0), k4(11, 0, 0, 0), k4(0, o, l, 0)],
            vec![k4(0, o, l, 0), k4(8, 0, 0, 0), k4(11, 0, 0, 0)],
            vec![k4(9, 0, 0, 0), k4(0, o, l, 0), k4(10, 0, 0, 0)],
            vec![k4(6, o, 10, l / 10), k4(11, 0, 0, 0)],
            vec![k4(6, o, 10, l / 10), k4(9, 0, 0, 0), k4(10, 0, 0, 0), k4(11, 0, 0, 0)],
            vec![k4(2, len, 0, 0), k4(0, o, l, 0)],
        ]
    };
    for rkind in [3u64, 2, 1, 0] {
        for root in &roots {
            let ways = s2s(o - (page - 64), l, 256);
            for w1 in &ways {
                for fin in 0..4u64 {
                    let mut ch = vec![root.clone()];
                    ch.extend(w1.iter().cloned());
                    ch.push(k4(fin, 0, 0, 0));
                    case(rkind, size, gbase, ch);
                }
                if rkind >= 2 {
                    // a second derivation inside the first: [10, 70) of the 100 bytes
                    for w2 in &s2s(10, 60, 100) {
                        let mut ch = vec![root.clone()];
                        ch.extend(w1.iter().cloned());
                        ch.extend(w2.iter().cloned());
                        ch.push(k4(rng.below(4), 0, 0, 0));
                        case(rkind, size, gbase, ch);
                    }
                }
            }
            // typed references and arrays out of a slice, out of an array, and back
            for t in [1u64, 3, 8, 16] {
                for fin in 0..4u64 {
                    case(rkind, size, gbase, vec![root.clone(), k4(5, 64 - t / 2, t, 0), k4(fin, 0, 0, 0)]);
                    case(rkind, size, gbase, vec![root.clone(), k4(5, 64 - t / 2, t, 0), k4(9, 0, 0, 0), k4(11, 0, 0, 0), k4(fin, 0, 0, 0)]);
                    case(rkind, size, gbase, vec![root.clone(), k4(6, 64 - 2 * t, t, 5), k4(12, 2, 0, 0), k4(fin, 0, 0, 0)]);
                    case(rkind, size, gbase, vec![root.clone(), k4(6, 64 - 2 * t, t, 5), k4(12, 1, 0, 0), k4(11, 0, 0, 0), k4(fin, 0, 0, 0)]);
                }
                for fin in [0u64, 1, 4, 5] {
                    case(rkind, size, gbase, vec![root.clone(), k4(6, 64 - 2 * t, t, 5), k4(fin, 1, 0, 0)]);
                    case(rkind, size, gbase, vec![root.clone(), k4(6, 64 - 2 * t, t, 5), k4(10, 0, 0, 0), k4(fin, 2, 0, 0)]);
                    case(rkind, size, gbase, vec![k4(4, page - 2 * t, t, 5), k4(fin, 1, 0, 0)]);
                    case(rkind, size, gbase, vec![k4(4, page - 2 * t, t, 5), k4(11, 0, 0, 0), k4(8, 0, 0, 0), k4(fin, 2 * t, 0, 0)]);
                }
                for fin in 0..4u64 {
                    case(rkind, size, gbase, vec![k4(3, page - t / 2, t, 0), k4(fin, 0, 0, 0)]);
                    case(rkind, size, gbase, vec![k4(3, page - t / 2, t, 0), k4(11, 0, 0, 0), k4(fin, 0, 0, 0)]);
                    case(rkind, size, gbase, vec![k4(4, page - 2 * t, t, 5), k4(12, 1, 0, 0), k4(fin, 0, 0, 0)]);
                }
            }
            // the converted byte array: every access form
            for fin in [0u64, 1, 4, 5] {
                case(rkind, size, gbase, vec![root.clone(), k4(8, 0, 0, 0), k4(fin, 70, 0, 0)]);
                case(rkind, size, gbase, vec![root.clone(), k4(0, 24, 100, 0), k4(8, 0, 0, 0), k4(9, 0, 0, 0), k4(fin, 50, 0, 0)]);
            }
            for fin in 0..4u64 {
                case(rkind, size, gbase, vec![root.clone(), k4(8, 0, 0, 0), k4(12, 70, 0, 0), k4(fin, 0, 0, 0)]);
            }
        }
        // whole-region roots
        for root in [k4(2, 0, 0, 0), k4(5, 0, 0, 0)] {
            for fin in 0..4u64 {
                case(rkind, size, gbase, vec![root.clone(), k4(fin, 0, 0, 0)]);
                case(rkind, size, gbase, vec![root.clone(), k4(2, page + 7, 0, 0), k4(fin, 0, 0, 0)]);
                case(rkind, size, gbase, vec![root.clone(), k4(3, 2 * page - 7, 0, 0), k4(fin, 0, 0, 0)]);
            }
        }
        // refused / undefined requests
        case(rkind, size, gbase, vec![k4(0, size - 8, 9, 0), k4(0, 0, 0, 0)]);
        case(rkind, size, gbase, vec![k4(0, 8, 64, 0), k4(0, 60, 5, 0), k4(1, 0, 0, 0)]);
        case(rkind, size, gbase, vec![k4(0, 8, 64, 0), k4(2, 65, 0, 0), k4(1, 0, 0, 0)]);
        case(rkind, size, gbase, vec![k4(4, 8, 4, 4), k4(12, 4, 0, 0), k4(2, 0, 0, 0)]);
        case(rkind, size, gbase, vec![k4(4, 8, 4, 4), k4(4, 4, 0, 0)]);
        case(rkind, size, gbase, vec![k4(0, 8, 64, 0), k4(11, 0, 0, 0), k4(0, 0, 0, 0)]);
        case(rkind, size, gbase, vec![k4(0, 8, 64, 0), k4(4, 0, 0, 0)]);
        // empty accessors
        case(rkind, size, gbase, vec![k4(0, page, 0, 0), k4(8, 0, 0, 0), k4(11, 0, 0, 0), k4(rkind % 4, 0, 0, 0)]);
        case(rkind, size, gbase, vec![k4(0, 8, 64, 0), k4(2, 0, 0, 0), k4(1, 0, 0, 0)]);
        case(rkind, size, gbase, vec![k4(0, 8, 64, 0), k4(3, 64, 0, 0), k4(3, 0, 0, 0)]);
    }
    // random chains
    let nh = if tier == Tier::Quick { 2500 } else { 60_000 };
    for _ in 0..nh {
        let rkind = match rng.below(8) {
            0 => 0,
            1 => 1,
            2 | 3 => 2,
            _ => 3,
        };
        let size = match rng.below(4) {
            0 => page * rng.range(1, 4),
            1 => page * rng.range(1, 3) + rng.below(page),
            2 => rng.range(1, page),
            _ => 2 * page,
        };
        let gbase = page * rng.below(1 << 12);
        let root = rand_root(rng, size, page);
        let mut geo = geo_root(size as usize, root.l());
        let mut ch = vec![root];
        let depth = rng.below(9);
        for _ in 0..depth {
            let g = match geo {
                Some(g) => g,
                None => break,
            };
            let st = rand_step(rng, g);
            geo = geo_step(g, st.l());
            ch.push(st);
        }
        ch.push(match geo {
            Some(g) => rand_final(rng, g),
            None => k4(rng.below(4), 0, 0, 0),
        });
        case(rkind, size, gbase, ch);
    }
}
