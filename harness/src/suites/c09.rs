//! C09: histories of the public AtomicBitmap operations (incl. enlarge, clone, nested slices
//! through RefSlice / ArcSlice / Option / ()) on bitmaps of boundary geometries.
//!
//! case:  mode byte_size page_size  op*      op = [code, slot, args...]
//!   mode = build mode + 2 * constructor of the first bitmap: 0 AtomicBitmap::new(byte_size, page_size),
//!   1 <AtomicBitmap as NewBitmap>::with_len(byte_size) (page_size must be the host page, 4096),
//!   2 AtomicBitmap::default() (byte_size 0, page_size 4096; the history grows it with enlarge)
//!   0 set_addr_range s a l   1 reset_addr_range s a l   2 set_bit s i   3 reset_bit s i
//!   4 enlarge s add          5 clone s (appends a slot) 6 get_and_reset s   7 reset s
//!   8 mark_dirty  s route off len chain...   9 dirty_at s route off chain...
//!   10 is_addr_set s a       11 is_bit_set s i
//!   route: 0 AtomicBitmap (slice_at -> RefSlice)  1 Option::Some  2 Option::None  3 ()  4 ArcSlice
//! obs: one group for the state after `new` and one per op:
//!   [res]  nslots  then per slot  [len,byte_size] [indices p in 0..len+70 with is_bit_set(p)]
//!   [probe addresses a with dirty_at(a); probes = first and last byte of the pages
//!   p in 0..len+1 with p < 3 or p >= len-2 or p%32 in {0,31}]
//!   res: [0] unit  [1,b] bool  [2,words...] get_and_reset  [3] panicked
//! Every bitmap is scanned after every step, so an operation that leaks into another bitmap
//! (clone independence) or beyond the page count is seen at once.
use crate::tok::{n, us};
use crate::{util, Rng, Suite, Tier, Tok};
use std::num::NonZeroUsize;
use std::sync::atomic::{AtomicU64, Ordering};
use std::sync::{Arc, Once};
use std::time::Instant;
use vm_memory::bitmap::{ArcSlice, AtomicBitmap, Bitmap, BitmapSlice};

pub const SUITES: &[Suite] = &[Suite { name: "C09", gen, exec }];

const PAGE_CAP: u128 = 65536;
const MARGIN: usize = 70;

// ---- watchdog: a case that runs longer than 10 s kills the process (the runner reports the
// case as a crash).  Needed because a range loop that does not stop at the page count is only
// visible as time (len = usize::MAX with page size 1).
static ARMED_AT: AtomicU64 = AtomicU64::new(0);
static WD: Once = Once::new();
fn now_ms(t0: &Instant) -> u64 {
    t0.elapsed().as_millis() as u64 + 1
}
static T0: std::sync::OnceLock<Instant> = std::sync::OnceLock::new();
fn arm() {
    WD.call_once(|| {
        let t0 = Instant::now();
        T0.set(t0).unwrap();
        std::thread::spawn(move || loop {
            std::thread::sleep(std::time::Duration::from_millis(200));
            let a = ARMED_AT.load(Ordering::SeqCst);
            if a != 0 && now_ms(&t0) > a + 10_000 {
                eprintln!("C09 watchdog: case did not finish within 10 s");
                std::process::exit(97);
            }
        });
    });
    let t0 = *T0.get().unwrap();
    ARMED_AT.store(now_ms(&t0), Ordering::SeqCst);
}
fn disarm() {
    ARMED_AT.store(0, Ordering::SeqCst);
}

fn mark_via<B: Bitmap>(b: &B, chain: &[usize], off: usize, len: usize) {
    match chain.split_first() {
        None => b.mark_dirty(off, len),
        Some((o1, rest)) => {
            let mut s = b.slice_at(*o1);
            for o in rest {
                s = nest(&s, *o);
            }
            s.mark_dirty(off, len)
        }
    }
}
fn dirty_via<B: Bitmap>(b: &B, chain: &[usize], off: usize) -> bool {
    match chain.split_first() {
        None => b.dirty_at(off),
        Some((o1, rest)) => {
            let mut s = b.slice_at(*o1);
            for o in rest {
                s = nest(&s, *o);
            }
            s.dirty_at(off)
        }
    }
}
fn nest<S: BitmapSlice>(s: &S, o: usize) -> S {
    s.slice_at(o)
}
fn arc_slice(a: &Arc<AtomicBitmap>, chain: &[usize]) -> ArcSlice<AtomicBitmap> {
    // AtomicBitmapArc is not exported by the crate; ArcSlice::new(arc, o1) is what its slice_at does
    let (o1, rest) = match chain.split_first() {
        Some((o1, rest)) => (*o1, rest),
        None => (0, &[][..]),
    };
    let mut s = ArcSlice::new(a.clone(), o1);
    for o in rest {
        s = s.slice_at(*o);
    }
    s
}

fn scan(b: &AtomicBitmap, ps: usize) -> Vec<Tok> {
    let len = b.len();
    let set: Vec<u64> = (0..len + MARGIN).filter(|p| b.is_bit_set(*p)).map(|p| p as u64).collect();
    let mut addr: Vec<u64> = Vec::new();
    for p in 0..len + 2 {
        if !(p < 3 || len <= p + 2 || p & 31 == 0 || p & 31 == 31) {
            continue;
        }
        if let Some(a1) = p.checked_mul(ps) {
            if b.dirty_at(a1) {
                addr.push(a1 as u64);
            }
            if let Some(a2) = a1.checked_add(ps - 1) {
                if b.dirty_at(a2) {
                    addr.push(a2 as u64);
                }
            }
        }
    }
    vec![Tok::of_u64s(&[len as u64, b.byte_size() as u64]), Tok::of_u64s(&set), Tok::of_u64s(&addr)]
}

// the page size is a constructor argument (clone and enlarge keep it); there is no accessor
fn state(slots: &[Arc<AtomicBitmap>], ps: usize, res: Vec<u64>, out: &mut Vec<Tok>) {
    out.push(Tok::of_u64s(&res));
    out.push(us(slots.len()));
    for s in slots {
        out.extend(scan(s, ps));
    }
}

fn exec(case: &[Tok]) -> Vec<Tok> {
    if std::env::var("C09_DEBUG").is_ok() {
        std::panic::set_hook(Box::new(|i| eprintln!("PANIC {}", i)));
    }
    arm();
    let r = exec_inner(case);
    disarm();
    r
}

fn exec_inner(case: &[Tok]) -> Vec<Tok> {
    let bytes = case[1].u() as usize;
    let ps = case[2].u() as usize;
    let psz = NonZeroUsize::new(ps).expect("page size 0");
    assert!((bytes as u128) / (ps as u128) < PAGE_CAP, "case too large");
    let first = match case[0].u() / 2 {
        0 => AtomicBitmap::new(bytes, psz),
        1 => {
            // the bitmap of the crate's default constructors: one bit per HOST page
            let host = unsafe { libc::sysconf(libc::_SC_PAGE_SIZE) };
            assert!(host == 4096 && ps == 4096, "with_len: the model assumes a 4096-byte host page");
            <AtomicBitmap as vm_memory::bitmap::NewBitmap>::with_len(bytes)
        }
        2 => {
            assert!(ps == 4096 && bytes == 0, "default(): new(0, 0x1000)");
            AtomicBitmap::default()
        }
        _ => panic!("no such constructor"),
    };
    let mut slots: Vec<Arc<AtomicBitmap>> = vec![Arc::new(first)];
    let mut out = Vec::new();
    state(&slots, ps, vec![0], &mut out);
    for t in &case[3..] {
        let o: Vec<usize> = t.l().iter().map(|x| *x as u64 as usize).collect();
        let s = o[1];
        assert!(s < slots.len(), "no such slot");
        let res: Vec<u64> = match o[0] {
            0 => {
                slots[s].set_addr_range(o[2], o[3]);
                vec![0]
            }
            1 => {
                slots[s].reset_addr_range(o[2], o[3]);
                vec![0]
            }
            2 => {
                slots[s].set_bit(o[2]);
                vec![0]
            }
            3 => {
                slots[s].reset_bit(o[2]);
                vec![0]
            }
            4 => {
                assert!((o[2] as u128) / (ps as u128) < PAGE_CAP, "enlarge too large");
                let b = Arc::get_mut(&mut slots[s]).expect("unique");
                match util::catch(|| b.enlarge(o[2])) {
                    Some(()) => vec![0],
                    None => vec![3],
                }
            }
            5 => {
                let c = AtomicBitmap::clone(&slots[s]);
                slots.push(Arc::new(c));
                vec![0]
            }
            6 => {
                let mut v = vec![2u64];
                v.extend(slots[s].get_and_reset());
                v
            }
            7 => {
                slots[s].reset();
                vec![0]
            }
            8 | 9 => {
                let mark = o[0] == 8;
                let route = o[2];
                let off = o[3];
                let (len, chain) = if mark { (o[4], &o[5..]) } else { (0, &o[4..]) };
                let mut ans = false;
                match route {
                    0 => {
                        let b: &AtomicBitmap = &slots[s];
                        if mark {
                            mark_via(b, chain, off, len)
                        } else {
                            ans = dirty_via(b, chain, off)
                        }
                    }
                    1 => {
                        let owned = Arc::try_unwrap(slots.remove(s)).expect("unique");
                        let opt: Option<AtomicBitmap> = Some(owned);
                        if mark {
                            mark_via(&opt, chain, off, len)
                        } else {
                            ans = dirty_via(&opt, chain, off)
                        }
                        slots.insert(s, Arc::new(opt.unwrap()));
                    }
                    2 => {
                        let opt: Option<AtomicBitmap> = None;
                        if mark {
                            mark_via(&opt, chain, off, len)
                        } else {
                            ans = dirty_via(&opt, chain, off)
                        }
                    }
                    3 => {
                        if mark {
                            mark_via(&(), chain, off, len)
                        } else {
                            ans = dirty_via(&(), chain, off)
                        }
                    }
                    4 => {
                        let sl = arc_slice(&slots[s], chain);
                        if mark {
                            sl.mark_dirty(off, len)
                        } else {
                            ans = sl.dirty_at(off)
                        }
                    }
                    _ => panic!("bad route"),
                }
                if mark {
                    vec![0]
                } else {
                    vec![1, ans as u64]
                }
            }
            10 => vec![1, slots[s].is_addr_set(o[2]) as u64],
            11 => vec![1, slots[s].is_bit_set(o[2]) as u64],
            _ => panic!("bad op"),
        };
        state(&slots, ps, res, &mut out);
    }
    out
}

// ------------------------------------------------------------------ generation
fn geometries(rng: &mut Rng, tier: Tier) -> Vec<(usize, usize)> {
    let mut g: Vec<(usize, usize)> = Vec::new();
    for ps in [1usize, 2, 3, 5, 128, 4096] {
        for bytes in [
            0,
            1,
            ps - 1,
            ps,
            ps + 1,
            10,
            63 * ps,
            64 * ps - 1,
            64 * ps,
            64 * ps + 1,
            65 * ps,
            128 * ps - 1,
            128 * ps,
            128 * ps + 1,
        ] {
            g.push((bytes, ps));
        }
    }
    for bytes in [0usize, 1, 7, 100] {
        g.push((bytes, bytes + 1)); // page larger than the bitmap
    }
    let m = usize::MAX;
    g.push((m, 1 << 58)); // 64 pages
    g.push((m, (1 << 58) + 1)); // 64 pages, not a power of two
    g.push((m, (1 << 58) - 1)); // 65 pages
    g.push((m, m)); // one page
    g.push((m - 1, 1 << 63));
    g.push((1 << 63, 1 << 57)); // 64 pages exactly
    g.push(((1 << 63) + 1, 1 << 57)); // 65 pages
    g.push((m, 1 << 55)); // 512 pages: large scan, few cases
    let extra = if tier == Tier::Quick { 10 } else { 200 };
    for _ in 0..extra {
        let ps = match rng.below(4) {
            0 => rng.range(1, 9) as usize,
            1 => 1usize << rng.below(14),
            2 => rng.range(1, 5000) as usize,
            _ => (1usize << rng.range(40, 62)) + rng.below(3) as usize - 1,
        };
        let pages = rng.below(200) as usize;
        let bytes = (pages as u128 * ps as u128 + rng.below(ps as u64) as u128).min(m as u128) as usize;
        if (bytes as u128) / (ps as u128) < 300 {
            g.push((bytes, ps));
        }
    }
    g.sort();
    g.dedup();
    g
}

fn addr_vals(bytes: usize, ps: usize, pages: usize) -> Vec<usize> {
    let mut v: Vec<usize> = vec![0, 1, 2, usize::MAX, usize::MAX - 1, usize::MAX - 2, 1 << 63, (1 << 63) - 1];
    let mut around = |x: u128| {
        for d in [-1i128, 0, 1] {
            let y = x as i128 + d;
            if y >= 0 && y <= usize::MAX as i128 {
                v.push(y as usize);
            }
        }
    };
    for k in [1u128, 2, 3, 63, 64, 65, 127, 128, 129] {
        around(k * ps as u128);
    }
    for k in [pages.saturating_sub(1), pages, pages + 1] {
        around(k as u128 * ps as u128);
    }
    around(bytes as u128);
    around(usize::MAX as u128 - ps as u128);
    v.sort();
    v.dedup();
    v
}

fn len_vals(a: usize, bytes: usize, ps: usize) -> Vec<usize> {
    let m = usize::MAX;
    let mut v = vec![0usize, 1, 2, m, m - 1, m - a, (m - a).wrapping_add(1), (m - a).wrapping_add(2), (m - a).saturating_sub(1)];
    for x in [ps as u128 - 1, ps as u128, ps as u128 + 1, 2 * ps as u128, 64 * ps as u128, 64 * ps as u128 + 1, bytes as u128, bytes as u128 + 1] {
        if x <= m as u128 {
            v.push(x as usize);
        }
    }
    if bytes > a {
        v.push(bytes - a);
        v.push((bytes - a).wrapping_add(1));
        v.push(bytes - a - 1);
    }
    v.sort();
    v.dedup();
    v
}

fn bit_vals(pages: usize) -> Vec<usize> {
    let mut v = vec![0usize, 1, 62, 63, 64, 65, 126, 127, 128, 129, usize::MAX, usize::MAX - 1, 1 << 63, 1 << 6, (1 << 32) + 1];
    for k in [pages.saturating_sub(2), pages.saturating_sub(1), pages, pages + 1, pages + 63, pages + 64] {
        v.push(k);
    }
    v.sort();
    v.dedup();
    v
}

fn pages_of(bytes: usize, ps: usize) -> usize {
    ((bytes as u128 + ps as u128 - 1) / ps as u128) as usize
}

struct Hist {
    bytes: Vec<usize>, // current byte size of every slot (to keep enlarge within bounds)
    ps: usize,
    ops: Vec<Tok>,
}
impl Hist {
    fn op(&mut self, v: &[usize]) {
        self.ops.push(Tok::L(v.iter().map(|x| *x as u128).collect()));
    }
}

fn pick_addr(rng: &mut Rng, bytes: usize, ps: usize) -> usize {
    let pages = pages_of(bytes, ps);
    match rng.below(10) {
        0..=5 => *rng.pick(&addr_vals(bytes, ps, pages)),
        6..=8 => {
            let lim = (bytes as u128 + 2 * ps as u128).min(usize::MAX as u128) as u64;
            rng.below(lim.max(1)) as usize
        }
        _ => rng.next() as usize,
    }
}
fn pick_len(rng: &mut Rng, a: usize, bytes: usize, ps: usize) -> usize {
    match rng.below(10) {
        0..=5 => *rng.pick(&len_vals(a, bytes, ps)),
        6..=8 => {
            let lim = (3 * ps as u128 + 2).min(usize::MAX as u128) as u64;
            rng.below(lim) as usize
        }
        _ => rng.next() as usize,
    }
}

/// a chain of slice offsets and a final offset that together (wrapping) address `target`
fn pick_view(rng: &mut Rng, target: usize) -> (Vec<usize>, usize) {
    let nchain = rng.below(4) as usize;
    let mut chain = Vec::new();
    let mut sum = 0usize;
    for _ in 0..nchain {
        let o = match rng.below(4) {
            0 => rng.below(300) as usize,
            1 => usize::MAX - rng.below(300) as usize,
            2 => target / 2,
            _ => rng.next() as usize,
        };
        sum = sum.wrapping_add(o);
        chain.push(o);
    }
    (chain, target.wrapping_sub(sum))
}

fn random_op(rng: &mut Rng, h: &mut Hist) {
    let s = rng.below(h.bytes.len() as u64) as usize;
    let (bytes, ps) = (h.bytes[s], h.ps);
    let pages = pages_of(bytes, ps);
    match rng.below(100) {
        0..=24 => {
            let a = pick_addr(rng, bytes, ps);
            let l = pick_len(rng, a, bytes, ps);
            h.op(&[0, s, a, l]);
        }
        25..=36 => {
            let a = pick_addr(rng, bytes, ps);
            let l = pick_len(rng, a, bytes, ps);
            h.op(&[1, s, a, l]);
        }
        37..=44 => {
            let i = if rng.bool() { *rng.pick(&bit_vals(pages)) } else { rng.below(pages as u64 + 3) as usize };
            h.op(&[2, s, i]);
        }
        45..=50 => {
            let i = if rng.bool() { *rng.pick(&bit_vals(pages)) } else { rng.below(pages as u64 + 3) as usize };
            h.op(&[3, s, i]);
        }
        51..=56 => {
            // enlarge, keeping the bitmap small; rarely the overflowing sum (huge page sizes only)
            let mut cands: Vec<usize> = vec![0, 1, ps - 1, ps, ps.saturating_add(1)];
            for k in [2u128, 63, 64, 65] {
                if k * ps as u128 <= usize::MAX as u128 {
                    cands.push((k * ps as u128) as usize);
                }
            }
            cands.push(usize::MAX - bytes); // exact fit
            cands.push((usize::MAX - bytes).wrapping_add(1)); // overflows by one
            cands.push(usize::MAX);
            let add = *rng.pick(&cands);
            let total = bytes as u128 + add as u128;
            let ok_size = (add as u128) / (ps as u128) < 400 && (total > usize::MAX as u128 || total / (ps as u128) < 600);
            if ok_size {
                h.op(&[4, s, add]);
                if total <= usize::MAX as u128 {
                    h.bytes[s] = total as usize;
                } else if crate::build_mode() == 1 {
                    h.bytes[s] = (total - (1u128 << 64)) as usize;
                }
            }
        }
        57..=60 => {
            if h.bytes.len() < 3 {
                h.op(&[5, s]);
                h.bytes.push(bytes);
            } else {
                h.op(&[6, s]);
            }
        }
        61..=66 => h.op(&[6, s]),
        67..=69 => h.op(&[7, s]),
        70..=86 => {
            let route = *rng.pick(&[0usize, 0, 0, 1, 1, 2, 3, 4, 4, 4]);
            let a = pick_addr(rng, bytes, ps);
            let l = pick_len(rng, a, bytes, ps);
            let (chain, off) = pick_view(rng, a);
            let mut v = vec![8, s, route, off, l];
            v.extend(chain);
            h.op(&v);
        }
        87..=93 => {
            let route = *rng.pick(&[0usize, 0, 0, 1, 1, 2, 3, 4, 4, 4]);
            let a = pick_addr(rng, bytes, ps);
            let (chain, off) = pick_view(rng, a);
            let mut v = vec![9, s, route, off];
            v.extend(chain);
            h.op(&v);
        }
        94..=96 => {
            let a = pick_addr(rng, bytes, ps);
            h.op(&[10, s, a]);
        }
        _ => {
            let i = if rng.bool() { *rng.pick(&bit_vals(pages)) } else { rng.below(pages as u64 + 3) as usize };
            h.op(&[11, s, i]);
        }
    }
}

/// the constructors with the implicit page size: with_len(bytes) for sizes that are and are NOT multiples of the
/// host page, default() followed by enlarge; directed marks around the last (partial) page + random histories
fn gen_ctors(rng: &mut Rng, tier: Tier, emit: &mut dyn FnMut(Vec<Tok>)) {
    let mode = crate::build_mode();
    const P: usize = 4096;
    let mut sizes: Vec<usize> = vec![0, 1, 2, P - 1, P, P + 1, P + P / 2, 2 * P - 1, 2 * P, 3 * P + 7, 63 * P + 1, 64 * P - 1, 64 * P, 64 * P + 1, 65 * P + 100, 128 * P + 1];
    for _ in 0..(if tier == Tier::Quick { 12 } else { 60 }) {
        sizes.push(rng.below(70 * P as u64) as usize);
        sizes.push((rng.below(130) as usize) * P + rng.below(P as u64) as usize);
    }
    for &bytes in &sizes {
        for ctor in [1u64, 2] {
            let pages = pages_of(bytes, P);
            let mut h = Hist { bytes: vec![if ctor == 1 { bytes } else { 0 }], ps: P, ops: vec![] };
            if ctor == 2 {
                // default() is empty: grow it to `bytes` in one or two steps
                let k1 = if bytes > 0 { rng.below(bytes as u64 + 1) as usize } else { 0 };
                h.op(&[4, 0, k1]);
                h.op(&[4, 0, bytes - k1]);
                h.bytes[0] = bytes;
            }
            // the last byte, the byte after it, the last page boundary
            for a in [bytes.saturating_sub(1), bytes, (bytes / P) * P, ((bytes / P) * P).saturating_sub(1), bytes.saturating_sub(P / 2)] {
                h.op(&[0, 0, a, 1]);
                h.op(&[10, 0, a]);
                h.op(&[9, 0, 0, a]);
            }
            h.op(&[11, 0, pages.saturating_sub(1)]);
            h.op(&[11, 0, pages]);
            h.op(&[6, 0]);
            h.op(&[0, 0, 0, usize::MAX]);
            h.op(&[6, 0]);
            let mut c = vec![n(mode as u64 + 2 * ctor), us(if ctor == 1 { bytes } else { 0 }), us(P)];
            c.extend(std::mem::take(&mut h.ops));
            emit(c);
            let nh = if tier == Tier::Quick { 2 } else { 10 };
            for _ in 0..nh {
                let mut h = Hist { bytes: vec![if ctor == 1 { bytes } else { 0 }], ps: P, ops: vec![] };
                if ctor == 2 && rng.chance(3, 4) {
                    h.op(&[4, 0, bytes]);
                    h.bytes[0] = bytes;
                }
                for _ in 0..rng.range(1, if pages > 64 { 10 } else { 24 }) {
                    random_op(rng, &mut h);
                }
                let mut c = vec![n(mode as u64 + 2 * ctor), us(if ctor == 1 { bytes } else { 0 }), us(P)];
                c.extend(h.ops);
                emit(c);
            }
        }
    }
}

fn gen(rng: &mut Rng, tier: Tier, emit: &mut dyn FnMut(Vec<Tok>)) {
    gen_ctors(rng, tier, emit);
    let mode = crate::build_mode();
    let geos = geometries(rng, tier);
    let mut send = |bytes: usize, ps: usize, ops: Vec<Tok>| {
        let mut c = vec![n(mode), us(bytes), us(ps)];
        c.extend(ops);
        emit(c);
    };
    for &(bytes, ps) in &geos {
        let pages = pages_of(bytes, ps);
        let big = pages > 300;
        let chunk = if pages > 64 { 10 } else { 24 };
        // (1) directed: every boundary range, set then harvested / cleared again, 12 per history
        let avs = addr_vals(bytes, ps, pages);
        let mut h = Hist { bytes: vec![bytes], ps, ops: vec![] };
        let mut k = 0usize;
        let stride = if tier == Tier::Quick { 3 } else { 1 };
        for &a in &avs {
            for &l in &len_vals(a, bytes, ps) {
                k += 1;
                if big && k % 40 != 0 {
                    continue;
                }
                if k % stride != 0 {
                    continue;
                }
                h.op(&[0, 0, a, l]);
                match k % 3 {
                    0 => h.op(&[6, 0]),
                    1 => {
                        // fill, then clear the same range: exercises the reset path on a full set
                        h.op(&[0, 0, 0, usize::MAX]);
                        h.op(&[1, 0, a, l]);
                        h.op(&[7, 0]);
                    }
                    _ => h.op(&[1, 0, 0, usize::MAX]),
                }
                if h.ops.len() >= chunk {
                    send(bytes, ps, std::mem::take(&mut h.ops));
                }
            }
        }
        // single-bit operations at every boundary index
        for &i in &bit_vals(pages) {
            h.op(&[2, 0, i]);
            h.op(&[11, 0, i]);
            h.op(&[3, 0, i]);
            if h.ops.len() >= chunk {
                send(bytes, ps, std::mem::take(&mut h.ops));
            }
        }
        if !h.ops.is_empty() {
            send(bytes, ps, std::mem::take(&mut h.ops));
        }
        // (2) random histories with clones, enlarge, views
        let nh = match (tier, big) {
            (_, true) => 1,
            (Tier::Quick, _) => 8,
            (Tier::Thorough, _) => 50,
        };
        for _ in 0..nh {
            let nops = if pages > 64 { rng.range(1, 14) } else if tier == Tier::Quick { rng.range(1, 28) } else { rng.range(1, 60) };
            let mut h = Hist { bytes: vec![bytes], ps, ops: vec![] };
            for _ in 0..nops {
                random_op(rng, &mut h);
            }
            send(bytes, ps, h.ops);
        }
    }
}
