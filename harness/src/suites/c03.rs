//! C03: histories of Bytes<GuestAddress> operations (write/read/slices/objects/atomics/in-memory
//! streams) on GuestMemoryMmap and on MockMem (see c02.rs); after every step ALL region contents
//! are re-read through the raw host pointers.
//! Compiled in the standard and in the Xen build.  In the Xen build the regions of kinds 0 and 2 are Xen-UNIX
//! regions made by GuestRegionMmap::from_range(addr, len, file) (c02.rs `region`), kind 2 over a memfd whose
//! contents are re-read with pread after every step; a reduced number of histories, kinds 0 and 2 only.
//! case:  kind(0 anonymous mmap, 1 MockMem, 2 file-backed mmap) mode [starts] [lens] [initial bytes]
//!        then per op:  opcode addr count [data]   (opcodes 12/13: data = chunk :: source bytes)
//! obs :  per op:  k(1 Ok, 2 Err, 3 panic, 9 backing file differs from memory, a trait route and method-call route differ) v(count | error class) e1 e2 [data] [all region bytes]
use super::c02::{build, err_class, lay_toks, layout_of, small_layout, universe, Built, Mem, TOP};
use crate::tok::n;
use crate::{util, Rng, Suite, Tier, Tok};
use std::sync::atomic::Ordering;
use vm_memory::guest_memory::Error as GmError;
use vm_memory::bitmap::BitmapSlice;
use vm_memory::{Bytes, GuestAddress, GuestMemory, ReadVolatile, VolatileMemoryError, VolatileSlice};

/// An in-memory byte source that hands out at most `chunk` bytes per read_volatile call (short
/// reads, as files and sockets produce them).
struct ChunkedSrc {
    data: Vec<u8>,
    pos: usize,
    chunk: usize,
}
impl ReadVolatile for ChunkedSrc {
    fn read_volatile<B: BitmapSlice>(&mut self, buf: &mut VolatileSlice<B>) -> Result<usize, VolatileMemoryError> {
        let n = buf.len().min(self.chunk).min(self.data.len() - self.pos);
        if n > 0 {
            buf.write_slice(&self.data[self.pos..self.pos + n], 0)?;
        }
        self.pos += n;
        Ok(n)
    }
}

#[cfg(not(feature = "xen"))]
pub const SUITES: &[Suite] = &[Suite { name: "C03", gen, exec }];
// c03walk.rs uses constructors that the Xen build does not have: an empty stand-in keeps `./check C03` uniform
#[cfg(feature = "xen")]
pub const SUITES: &[Suite] = &[Suite { name: "C03", gen, exec }, Suite { name: "C03walk", gen: nogen, exec: noexec }];
#[cfg(feature = "xen")]
fn nogen(_: &mut Rng, _: Tier, _: &mut dyn FnMut(Vec<Tok>)) {}
#[cfg(feature = "xen")]
fn noexec(_: &[Tok]) -> Vec<Tok> {
    vec![Tok::N(0xbad0bad)]
}

struct Ob {
    k: u64,
    v: u64,
    e1: u64,
    e2: u64,
    data: Vec<u8>,
}
fn ok(v: u64, data: Vec<u8>) -> Ob {
    Ob { k: 1, v, e1: 0, e2: 0, data }
}
fn er(e: &GmError, data: Vec<u8>) -> Ob {
    match e {
        GmError::PartialBuffer { expected, completed } => {
            Ob { k: 2, v: 3, e1: *expected as u64, e2: *completed as u64, data }
        }
        _ => Ob { k: 2, v: err_class(e), e1: 0, e2: 0, data },
    }
}
fn cnt(r: Result<usize, GmError>, data: Vec<u8>) -> Ob {
    match r {
        Ok(x) => ok(x as u64, data),
        Err(e) => er(&e, data),
    }
}
fn unit(r: Result<(), GmError>, data: Vec<u8>) -> Ob {
    match r {
        Ok(()) => ok(0, data),
        Err(e) => er(&e, data),
    }
}

macro_rules! with_arr {
    ($sz:expr, $f:ident, $($arg:expr),*) => {
        match $sz {
            0 => $f::<M, 0>($($arg),*), 1 => $f::<M, 1>($($arg),*), 2 => $f::<M, 2>($($arg),*),
            3 => $f::<M, 3>($($arg),*), 4 => $f::<M, 4>($($arg),*), 5 => $f::<M, 5>($($arg),*),
            6 => $f::<M, 6>($($arg),*), 7 => $f::<M, 7>($($arg),*), 8 => $f::<M, 8>($($arg),*),
            9 => $f::<M, 9>($($arg),*), 10 => $f::<M, 10>($($arg),*), 11 => $f::<M, 11>($($arg),*),
            12 => $f::<M, 12>($($arg),*), 13 => $f::<M, 13>($($arg),*), 14 => $f::<M, 14>($($arg),*),
            15 => $f::<M, 15>($($arg),*), 16 => $f::<M, 16>($($arg),*), 17 => $f::<M, 17>($($arg),*),
            24 => $f::<M, 24>($($arg),*), 32 => $f::<M, 32>($($arg),*),
            _ => panic!("unsupported object size"),
        }
    };
}
fn wobj_arr<M: GuestMemory, const N: usize>(m: &M, d: &[u8], a: GuestAddress) -> Result<(), GmError>
where
    [u8; N]: vm_memory::ByteValued,
{
    let mut v = [0u8; N];
    v.copy_from_slice(d);
    m.write_obj(v, a)
}
fn robj_arr<M: GuestMemory, const N: usize>(m: &M, a: GuestAddress) -> Result<Vec<u8>, GmError>
where
    [u8; N]: vm_memory::ByteValued,
{
    m.read_obj::<[u8; N]>(a).map(|v| v.to_vec())
}
/// count = 1 selects the integer type of that size (native byte order = the bytes given)
fn wobj<M: GuestMemory>(m: &M, d: &[u8], a: GuestAddress, int: bool) -> Result<(), GmError> {
    if int {
        match d.len() {
            1 => return m.write_obj(d[0], a),
            2 => return m.write_obj(u16::from_ne_bytes(d.try_into().unwrap()), a),
            4 => return m.write_obj(u32::from_ne_bytes(d.try_into().unwrap()), a),
            8 => return m.write_obj(u64::from_ne_bytes(d.try_into().unwrap()), a),
            16 => return m.write_obj(u128::from_ne_bytes(d.try_into().unwrap()), a),
            _ => {}
        }
    }
    with_arr!(d.len(), wobj_arr, m, d, a)
}
fn robj<M: GuestMemory>(m: &M, sz: usize, a: GuestAddress, int: bool) -> Result<Vec<u8>, GmError> {
    if int {
        match sz {
            1 => return m.read_obj::<u8>(a).map(|v| vec![v]),
            2 => return m.read_obj::<u16>(a).map(|v| v.to_ne_bytes().to_vec()),
            4 => return m.read_obj::<u32>(a).map(|v| v.to_ne_bytes().to_vec()),
            8 => return m.read_obj::<u64>(a).map(|v| v.to_ne_bytes().to_vec()),
            16 => return m.read_obj::<u128>(a).map(|v| v.to_ne_bytes().to_vec()),
            _ => {}
        }
    }
    with_arr!(sz, robj_arr, m, a)
}

// The step body is instantiated twice: `step` (generic - a method call can only resolve to the trait method, the route
// of MockMem and route 1 of the mmap collection) and `step_mmap` (method-call syntax on the concrete GuestMemoryMmap<()>
// with Bytes / GuestMemory in scope, as a user writes it: an INHERENT method of the same name shadows the trait method).
// The object forms (wobj / robj) stay generic helpers (trait route) in both.
macro_rules! def_step {
    ($name:ident, [$($g:tt)*], $M:ty) => {
        fn $name<$($g)*>(m: &$M, opc: u64, addr: u64, count: u64, d: &[u8], alt: bool) -> Ob {
            let a = GuestAddress(addr);
            match opc {
                0 => cnt(m.write(d, a), vec![]),
                1 => {
                    let mut b = d.to_vec();
                    let r = m.read(&mut b, a);
                    cnt(r, b)
                }
                2 => unit(m.write_slice(d, a), vec![]),
                3 => {
                    let mut b = d.to_vec();
                    let r = m.read_slice(&mut b, a);
                    unit(r, b)
                }
                4 => unit(wobj(m, d, a, alt), vec![]),
                5 => match robj(m, count as usize, a, alt) {
                    Ok(v) => ok(0, v),
                    Err(e) => er(&e, vec![]),
                },
                6 => unit(
                    match d.len() {
                        1 => m.store(d[0], a, Ordering::SeqCst),
                        2 => m.store(u16::from_ne_bytes(d.try_into().unwrap()), a, Ordering::SeqCst),
                        4 => m.store(u32::from_ne_bytes(d.try_into().unwrap()), a, Ordering::SeqCst),
                        8 => m.store(u64::from_ne_bytes(d.try_into().unwrap()), a, Ordering::SeqCst),
                        _ => panic!("bad atomic size"),
                    },
                    vec![],
                ),
                7 => {
                    let r = match count {
                        1 => m.load::<u8>(a, Ordering::SeqCst).map(|v| vec![v]),
                        2 => m.load::<u16>(a, Ordering::SeqCst).map(|v| v.to_ne_bytes().to_vec()),
                        4 => m.load::<u32>(a, Ordering::SeqCst).map(|v| v.to_ne_bytes().to_vec()),
                        8 => m.load::<u64>(a, Ordering::SeqCst).map(|v| v.to_ne_bytes().to_vec()),
                        _ => panic!("bad atomic size"),
                    };
                    match r {
                        Ok(v) => ok(0, v),
                        Err(e) => er(&e, vec![]),
                    }
                }
                8 => {
                    let mut src: &[u8] = d;
                    let r = m.read_volatile_from(a, &mut src, count as usize);
                    cnt(r, src.to_vec())
                }
                9 => {
                    let mut src: &[u8] = d;
                    let r = m.read_exact_volatile_from(a, &mut src, count as usize);
                    unit(r, src.to_vec())
                }
                10 => {
                    let mut dst: Vec<u8> = d.to_vec();
                    let r = m.write_volatile_to(a, &mut dst, count as usize);
                    cnt(r, dst)
                }
                11 => {
                    let mut dst: Vec<u8> = d.to_vec();
                    let r = m.write_all_volatile_to(a, &mut dst, count as usize);
                    unit(r, dst)
                }
                12 | 13 => {
                    // data = chunk :: source bytes
                    let mut src = ChunkedSrc { data: d[1..].to_vec(), pos: 0, chunk: d[0] as usize };
                    if opc == 12 {
                        let r = m.read_volatile_from(a, &mut src, count as usize);
                        cnt(r, src.data[src.pos..].to_vec())
                    } else {
                        let r = m.read_exact_volatile_from(a, &mut src, count as usize);
                        unit(r, src.data[src.pos..].to_vec())
                    }
                }
                _ => panic!("bad op"),
            }
        }
    };
}
def_step!(step, [M: GuestMemory], M);
def_step!(step_mmap, [], vm_memory::GuestMemoryMmap<()>);

fn exec(case: &[Tok]) -> Vec<Tok> {
    let kind = case[0].u();
    let lay = layout_of(case);
    let init = case[4].bytes();
    assert!(init.len() as u64 == lay.iter().map(|x| x.1).sum::<u64>());
    assert!((case.len() - 5) % 4 == 0);
    let b: Built = build(kind, &lay);
    b.fill(&init);
    let mut out = Vec::new();
    for g in case[5..].chunks(4) {
        let (opc, addr, count, d) = (g[0].u(), g[1].u(), g[2].u(), g[3].bytes());
        // the integer-typed object forms are selected by the parity of the address (no extra token)
        let alt = addr & 1 == 0;
        let pan = || Ob { k: 3, v: 0, e1: 0, e2: 0, data: vec![] };
        let o = match &b.mem {
            Mem::Mmap(m, _) => {
                // both routes on the same memory (every step is idempotent: it writes bytes that depend on the case
                // only); identical answers, or kind 0xa, which neither model nor checker accepts:
                // a <trait k> <trait v> <concrete k * 2^32 + concrete v (low 32 bits)> [concrete data]
                let t = util::catch(|| step(m, opc, addr, count, &d, alt)).unwrap_or_else(pan);
                let c = util::catch(|| step_mmap(m, opc, addr, count, &d, alt)).unwrap_or_else(pan);
                if (t.k, t.v, t.e1, t.e2, &t.data) != (c.k, c.v, c.e1, c.e2, &c.data) {
                    Ob { k: 10, v: t.k, e1: t.v, e2: (c.k << 32) | (c.v & 0xffff_ffff), data: c.data }
                } else {
                    t
                }
            }
            Mem::Mock(m) => util::catch(|| step(m, opc, addr, count, &d, alt)).unwrap_or_else(pan),
        };
        let mut o = o;
        let dump = b.dump();
        // file-backed regions: the backing files must hold exactly what the host pointers show
        if kind == 2 && b.dump_files() != dump {
            o.k = 9;
        }
        out.extend([n(o.k), n(o.v), n(o.e1), n(o.e2), Tok::of_bytes(&o.data), Tok::of_bytes(&dump)]);
    }
    out
}

// ------------------------------------------------------------------------------------------
fn gen(rng: &mut Rng, tier: Tier, emit: &mut dyn FnMut(Vec<Tok>)) {
    let u = universe();
    let xen = cfg!(feature = "xen");
    let nhist = match (tier == Tier::Quick, xen) {
        (true, false) => 3000,
        (true, true) => 2000,
        (false, false) => 60000,
        (false, true) => 20000,
    };
    for h in 0..nhist {
        // anonymous mmap / MockMem / file-backed mmap / MockMem; Xen build: file-backed and anonymous Xen-UNIX regions
        let kind = if xen { [2u64, 0, 2, 2][(h % 4) as usize] } else { [0u64, 1, 2, 1][(h % 4) as usize] };
        let lay = small_layout(rng, if kind == 2 { 0 } else { kind }, if h % 8 < 2 { 4 } else { 9 }, 4);
        let total: u64 = lay.iter().map(|x| x.1).sum();
        let mut case = lay_toks(kind, &lay);
        case.push(Tok::of_bytes(&rng.bytes(total as usize)));
        // interesting addresses: region starts / ends +-2, plus anything in U
        let mut pts: Vec<u64> = Vec::new();
        for &(s, l) in &lay {
            for d in 0..3u64 {
                pts.push(s.wrapping_add(d));
                pts.push(s.wrapping_sub(d));
                pts.push(s.wrapping_add(l).wrapping_sub(d));
                pts.push(s.wrapping_add(l).wrapping_add(d));
            }
        }
        pts.retain(|p| u.contains(p));
        if pts.is_empty() {
            pts.push(0);
        }
        let nops = match rng.below(4) {
            0 => 1 + rng.below(6),
            1 => 6 + rng.below(12),
            _ => 14 + rng.below(27),
        };
        for _ in 0..nops {
            let addr = if rng.chance(2, 3) { *rng.pick(&pts) } else { *rng.pick(&u) };
            // run length from addr in the case's layout (computed here only to bias the lengths)
            let mut run = 0u64;
            loop {
                let x = addr as u128 + run as u128;
                if x > TOP as u128 || run >= 48 {
                    break;
                }
                let x = x as u64;
                if lay.iter().any(|&(s, l)| x >= s && ((x - s) as u128) < l as u128) {
                    run += 1;
                } else {
                    break;
                }
            }
            let len = match rng.below(8) {
                0 => 0,
                1 => run,
                2 => run + 1,
                3 => run.saturating_sub(1),
                4 => rng.below(49),
                5 => run + rng.below(6),
                _ => rng.below(13),
            }
            .min(48);
            let opc: u64 = match rng.below(19) {
                0..=3 => 0,
                4..=5 => 1,
                6 => 2,
                7 => 3,
                8 => 4,
                9 => 5,
                10 => 6,
                11 => 7,
                12 => 8,
                13 => 9,
                14 => 10,
                15 => 11,
                16 | 17 => 12,
                _ => 13,
            };
            let osz = |rng: &mut Rng, len: u64| -> u64 {
                if rng.bool() {
                    *rng.pick(&[1u64, 2, 4, 8, 16])
                } else {
                    len.min(17)
                }
            };
            let (count, data): (u64, Vec<u8>) = match opc {
                0 | 1 | 2 | 3 => (0, rng.bytes(len as usize)),
                4 => {
                    let s = osz(rng, len);
                    (0, rng.bytes(s as usize))
                }
                5 => (osz(rng, len), vec![]),
                6 => {
                    let s = *rng.pick(&[1u64, 2, 4, 8]);
                    (0, rng.bytes(s as usize))
                }
                7 => (*rng.pick(&[1u64, 2, 4, 8]), vec![]),
                8 | 9 | 12 | 13 => {
                    // source shorter than, equal to, longer than count
                    let sl = match rng.below(4) {
                        0 => len,
                        1 => len + rng.below(5),
                        2 => len.saturating_sub(rng.below(5)),
                        _ => rng.below(49),
                    };
                    let mut d = rng.bytes(sl.min(48) as usize);
                    if opc >= 12 {
                        // at most 1..5 bytes per call, sometimes a chunk larger than everything
                        let ch = if rng.chance(1, 6) { 200 } else { 1 + rng.below(5) as u8 };
                        d.insert(0, ch);
                    }
                    (len, d)
                }
                _ => {
                    let k = rng.below(4) as usize;
                    (len, rng.bytes(k))
                }
            };
            case.extend([n(opc), n(addr), n(count), Tok::of_bytes(&data)]);
        }
        emit(case);
    }
}
