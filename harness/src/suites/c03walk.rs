// build: no-xen
//! C03walk: the PUBLIC `GuestMemory::try_access(count, addr, f)` driven with a SCRIPTED callback on GuestMemoryMmap and
//! on MockMem (see c02.rs; a mock region may end exactly at 2^64).  The callback logs every invocation (total, len,
//! region offset, region index - found by the address of the region object - and what it answered); answers may be
//! honest, short, zero, failing or OVER-REPORTING (more than was offered), which is what drives the cursor arithmetic
//! of the loop to the top of the address space and beyond.
//! case:  kind(0 GuestMemoryMmap, 1 MockMem) mode [starts] [lens] count addr [answer kinds] [answer values]
//!   answer (kind, value) against the offered length len:  0 Ok(value)  1 Ok(len)  2 Ok(len + value, wrapping)
//!   3 Ok(len - min(value, len))  other Err(HostAddressNotAvailable);  script used up => Ok(len)
//! obs :  [calls, 6 numbers each: total len start region-index rk rv]  k(1 Ok, 2 Err, 3 panic)  v(count | error class)
use super::c02::{build, err_class, lay_toks, layout_of, small_layout, universe, Built, Mem, TOP};
use crate::tok::n;
use crate::{util, Rng, Suite, Tier, Tok};
use std::cell::RefCell;
use vm_memory::guest_memory::Error as GmError;
use vm_memory::{Address, GuestAddress, GuestMemory};

pub const SUITES: &[Suite] = &[Suite { name: "C03walk", gen, exec }];

thread_local! { static CACHE: RefCell<Option<(u64, Vec<(u64, u64)>, std::rc::Rc<Built>)>> = RefCell::new(None); }
fn cached(kind: u64, lay: &[(u64, u64)]) -> std::rc::Rc<Built> {
    CACHE.with(|c| {
        let mut c = c.borrow_mut();
        if let Some((k, l, b)) = c.as_ref() {
            if *k == kind && l == lay {
                return b.clone();
            }
        }
        let b = std::rc::Rc::new(build(kind, lay));
        *c = Some((kind, lay.to_vec(), b.clone()));
        b
    })
}

// instantiated generically (trait route: `<M as GuestMemory>::try_access`) and for the concrete GuestMemoryMmap<()>
// (method-call route: an inherent `try_access` would shadow the trait method there)
macro_rules! def_walk {
    ($name:ident, [$($g:tt)*], $M:ty, $R:ty) => {
        fn $name<$($g)*>(m: &$M, regs: &[*const u8], count: u64, addr: u64, script: &[(u64, u64)]) -> Vec<Tok> {
            let mut log: Vec<u64> = Vec::new();
            let mut pos = 0usize;
            let r = util::catch(std::panic::AssertUnwindSafe(|| {
                m.try_access(count as usize, GuestAddress(addr), |total, len, start, region| {
                    let (kind, val) = if pos < script.len() { script[pos] } else { (1, 0) };
                    pos += 1;
                    let p = region as *const $R as *const u8;
                    let idx = regs.iter().position(|&q| q == p).map(|i| i as u64).unwrap_or(u64::MAX);
                    let ans: Result<usize, GmError> = match kind {
                        0 => Ok(val as usize),
                        1 => Ok(len),
                        2 => Ok((len as u64).wrapping_add(val) as usize),
                        3 => Ok(len - (val.min(len as u64) as usize)),
                        _ => Err(GmError::HostAddressNotAvailable),
                    };
                    let (rk, rv) = match &ans {
                        Ok(x) => (0u64, *x as u64),
                        Err(e) => (1u64, err_class(e)),
                    };
                    log.extend([total as u64, len as u64, start.raw_value(), idx, rk, rv]);
                    ans
                })
            }));
            match r {
                Some(Ok(x)) => vec![Tok::of_u64s(&log), n(1u64), n(x as u64)],
                Some(Err(e)) => vec![Tok::of_u64s(&log), n(2u64), n(err_class(&e))],
                None => vec![Tok::of_u64s(&[]), n(3u64), n(0u64)],
            }
        }
    };
}
def_walk!(walk, [M: GuestMemory], M, M::R);
def_walk!(walk_mmap, [], vm_memory::GuestMemoryMmap<()>, vm_memory::GuestRegionMmap<()>);

fn exec(case: &[Tok]) -> Vec<Tok> {
    let kind = case[0].u();
    let lay = layout_of(case);
    let count = case[4].u();
    let addr = case[5].u();
    let script: Vec<(u64, u64)> = case[6].l().iter().zip(case[7].l().iter()).map(|(k, v)| (*k as u64, *v as u64)).collect();
    let b = cached(kind, &lay);
    match &b.mem {
        Mem::Mmap(m, _) => {
            let t = walk(m, &b.regs, count, addr, &script);
            let c = walk_mmap(m, &b.regs, count, addr, &script);
            if t != c {
                // kind 0xa (accepted by neither model nor checker): the trait route's log; trait k + 16 * concrete k
                return vec![t[0].clone(), n(10u64), n(t[1].u() + 16 * c[1].u())];
            }
            t
        }
        Mem::Mock(m) => walk(m, &b.regs, count, addr, &script),
    }
}

fn gen(rng: &mut Rng, tier: Tier, emit: &mut dyn FnMut(Vec<Tok>)) {
    let u = universe();
    let nlay = if tier == Tier::Quick { 70 } else { 1200 };
    let counts = [0u64, 1, 2, 3, 5, 8, 9, 17, 24, 47, 48, 49, 64, 1 << 32, (1 << 63) - 1, 1 << 63, TOP - 24, TOP - 1, TOP];
    let vals = [0u64, 1, 2, 3, 7, 8, 16, 24, 25, 32, 40, 48, 1 << 63, TOP - 30, TOP - 8, TOP - 1, TOP];
    for kind in [0u64, 1] {
        for li in 0..nlay {
            let maxsz = if li % 3 == 0 { 3 } else { 8 };
            let lay = small_layout(rng, kind, maxsz, 5);
            let head = lay_toks(kind, &lay);
            // interesting start addresses: region starts, ends -1, ends, and the universe
            let mut addrs: Vec<u64> = Vec::new();
            for &(s, l) in &lay {
                addrs.push(s);
                addrs.push(s.wrapping_add(l - 1));
                addrs.push(s.wrapping_add(l));
                if l > 2 {
                    addrs.push(s + l / 2);
                }
            }
            let ncase = if tier == Tier::Quick { 70 } else { 160 };
            for ci in 0..ncase {
                let addr = if !addrs.is_empty() && rng.chance(3, 4) { *rng.pick(&addrs) } else { *rng.pick(&u) };
                let count = if rng.chance(1, 2) { *rng.pick(&counts) } else { rng.below(70) };
                let slen = if ci % 7 == 0 { 0 } else { rng.below(6) as usize };
                let mut ks = Vec::new();
                let mut vs = Vec::new();
                for _ in 0..slen {
                    let (k, v) = match rng.below(20) {
                        0..=6 => (1u64, 0u64),                          // honest
                        7..=10 => (3, 1 + rng.below(4)),                // short by 1..4 (may become 0)
                        11..=14 => (2, if rng.bool() { 1 + rng.below(48) } else { *rng.pick(&vals) }), // over-report
                        15..=17 => (0, if rng.bool() { rng.below(50) } else { *rng.pick(&vals) }),    // absolute
                        _ => (4, 0),                                    // error
                    };
                    ks.push(k);
                    vs.push(v);
                }
                let mut t = head.clone();
                t.extend([n(count), n(addr), Tok::of_u64s(&ks), Tok::of_u64s(&vs)]);
                emit(t);
            }
            // targeted: start near the end of every region, huge count, the callback over-reports by amounts that
            // carry the exact sum to 2^64 and past it (wrapped addresses 0.., where low regions may be mapped)
            for &(s, l) in &lay {
                let end = s.wrapping_add(l); // 0 when the region ends at 2^64
                let a = s.wrapping_add(l - 1);
                let to_top = 0u64.wrapping_sub(end); // distance from the region's end to 2^64
                for extra in [0u64, 1, 2, 8, 17, 24, 40] {
                    for count in [TOP, TOP - 1, 1 << 63] {
                        let mut t = head.clone();
                        // first answer: len + (to_top + extra) -> the exact sum is 2^64 + extra
                        t.extend([n(count), n(a), Tok::of_u64s(&[2, 1, 1]), Tok::of_u64s(&[to_top.wrapping_add(extra), 0, 0])]);
                        emit(t);
                    }
                }
            }
        }
    }
}
