// build: no-xen
//! C18: every zero-length entry point of the byte-access interface x three layers x addresses.
//!
//! case:  mode layer op ps [start,size,...] ri sub_off sub_len addr esz n k sk
//!   layer 0 VolatileSlice = regions[ri].as_volatile_slice().subslice(sub_off, sub_len) (may be EMPTY)
//!         1 GuestRegionMmap regions[ri] (Bytes<MemoryRegionAddress>)     2 GuestMemoryMmap (Bytes<GuestAddress>)
//!   op  0 write(&[])  1 read(&mut [])  2 write_slice  3 read_slice  4 write_obj::<[u8;0]>  5 read_obj::<[u8;0]>
//!       6 read_volatile_from(count 0)  7 read_exact_volatile_from  8 write_volatile_to  9 write_all_volatile_to
//!         stream kind sk: reads 0 &[u8] 1 Cursor<&[u8]> 2 File ; writes 0 &mut [u8] 1 Vec<u8> 2 File ; k = bytes ready / room
//!       accessor-shaped (through the layer's get_slice(addr, nbytes)):
//!       10 slice.copy_to::<Z>(buf of k)   11 slice.copy_from::<Z>      (nbytes = n; Z = [u8;0] (sk 0) | [u64;0] (sk 1))
//!       12 get_array_ref::<T>(0, n).copy_to(buf of k)  13 .copy_from   (esz 0: T = Z, any n; else n = 0, T = u8/u16/u32/u64)
//!       14 get_ref::<Z>(0).store  15 .load     16 container.copy_to_volatile_slice(empty)  17 empty.copy_to_volatile_slice(container)
//! obs:   class(0 Ok,1 Err,2 panic) ecode count ext [changed byte indices] [dirty page indices]
//!
//! Suite C18huge: slice.copy_to / copy_from of k zero-sized elements for HUGE k (a buffer of zero-sized elements may
//!   hold more than isize::MAX of them and occupies no memory):   case: mode layer op sk k     obs: class count touched
//!   (layer / op 10|11 / sk as above; touched = 1 iff a byte of the 64-byte container changed)
//!
//! Suite C18arr: the ARRAY forms on zero-sized element types, `region.as_volatile_slice().get_array_ref::<Z>(off, n)` then
//!   case: mode ps size off n zsel op i k     Z = [u8;0] | [u64;0] | [u128;0] (zsel 0|1|2)
//!     op 0 copy_to_volatile_slice(region slice get_slice(i, k))  1 copy_to(buf of k)  2 copy_from(buf of k)  3 store(i)  4 load(i)
//!        5 ref_at(i).to_slice().len()   6 to_slice().len()
//!   obs:  class(0 Ok,1 Err,2 panic) count [changed byte offsets] [dirty pages]
//!
//! Observation does not use the accessors under test: all region memory is filled with FILL through
//! the raw host pointer before the call and scanned afterwards; every page of every region's
//! AtomicBitmap (clean before the call) is asked dirty_at afterwards; the caller's buffer / stream is
//! compared with its initial state (ext).
use crate::tok::n;
use crate::{util, Rng, Suite, Tier, Tok};
use std::io::{Cursor, Seek, SeekFrom, Write};
use std::num::NonZeroUsize;
use std::os::fd::FromRawFd;
use vm_memory::bitmap::{AtomicBitmap, Bitmap, BitmapSlice};
use vm_memory::mmap::MmapRegionBuilder;
use vm_memory::{
    ByteValued, Bytes, GuestAddress, GuestMemory, GuestMemoryError, GuestMemoryMmap, GuestMemoryRegion,
    GuestRegionMmap, MemoryRegionAddress, VolatileMemory, VolatileMemoryError, VolatileSlice,
};

// the Xen suite C18xen lives in c18_xen.rs (xen builds only); this is its empty stand-in in the standard build
fn nogen(_: &mut Rng, _: Tier, _: &mut dyn FnMut(Vec<Tok>)) {}
fn noexec(_: &[Tok]) -> Vec<Tok> {
    vec![Tok::N(0xbad0bad)]
}
pub const SUITES: &[Suite] = &[
    Suite { name: "C18", gen, exec },
    Suite { name: "C18xen", gen: nogen, exec: noexec },
    Suite { name: "C18huge", gen: gen_huge, exec: exec_huge },
    Suite { name: "C18arr", gen: gen_arr, exec: exec_arr },
];

const FILL: u8 = 0xaa;
const SRC: u8 = 0x5a;

type R4 = (u64, u64, u64, u64); // class, ecode, count, ext

fn vcode(e: &VolatileMemoryError) -> u64 {
    match e {
        VolatileMemoryError::OutOfBounds { .. } => 10,
        VolatileMemoryError::Overflow { .. } => 11,
        VolatileMemoryError::TooBig { .. } => 12,
        VolatileMemoryError::Misaligned { .. } => 13,
        VolatileMemoryError::IOError(_) => 2,
        VolatileMemoryError::PartialBuffer { .. } => 3,
    }
}
fn gcode(e: &GuestMemoryError) -> u64 {
    match e {
        GuestMemoryError::InvalidGuestAddress(_) => 1,
        GuestMemoryError::IOError(_) => 2,
        GuestMemoryError::PartialBuffer { .. } => 3,
        GuestMemoryError::InvalidBackendAddress => 4,
        GuestMemoryError::HostAddressNotAvailable => 5,
        GuestMemoryError::CallbackOutOfRange => 6,
        GuestMemoryError::GuestAddressOverflow => 7,
    }
}

fn fin<T, E>(r: Option<Result<T, E>>, cnt: impl FnOnce(T) -> u64, code: fn(&E) -> u64, ext: bool) -> R4 {
    match r {
        None => (2, 0, 0, 0),
        Some(Ok(v)) => (0, 0, cnt(v), ext as u64),
        Some(Err(e)) => (1, code(&e), 0, 0),
    }
}

fn memfd(content: &[u8]) -> std::fs::File {
    let fd = unsafe { libc::memfd_create(b"vmh18\0".as_ptr() as *const libc::c_char, 0) };
    assert!(fd >= 0);
    let mut f = unsafe { std::fs::File::from_raw_fd(fd) };
    f.write_all(content).unwrap();
    f.rewind().unwrap();
    f
}
fn file_state(f: &mut std::fs::File) -> (u64, u64) {
    let pos = f.stream_position().unwrap();
    let len = f.seek(SeekFrom::End(0)).unwrap();
    (pos, len)
}

/// ops 0..=9 on any implementor of Bytes<A>
fn bytes_op<A: Copy, E, T: Bytes<A, E = E>>(t: &T, a: A, op: u64, k: usize, sk: u64, code: fn(&E) -> u64) -> R4 {
    match op {
        0 => fin(util::catch(|| t.write(&[], a)), |v| v as u64, code, false),
        1 => {
            let mut b: [u8; 0] = [];
            fin(util::catch(|| t.read(&mut b, a)), |v| v as u64, code, false)
        }
        2 => fin(util::catch(|| t.write_slice(&[], a)), |_| 0, code, false),
        3 => {
            let mut b: [u8; 0] = [];
            fin(util::catch(|| t.read_slice(&mut b, a)), |_| 0, code, false)
        }
        4 => fin(util::catch(|| t.write_obj::<[u8; 0]>([], a)), |_| 0, code, false),
        5 => fin(util::catch(|| t.read_obj::<[u8; 0]>(a)), |_| 0, code, false),
        6 | 7 => {
            let src = vec![SRC; k];
            match sk {
                0 => {
                    let mut s: &[u8] = &src[..];
                    let r = util::catch(|| if op == 6 { t.read_volatile_from(a, &mut s, 0).map(|v| v as u64) } else { t.read_exact_volatile_from(a, &mut s, 0).map(|_| 0) });
                    let ext = s.len() != k;
                    fin(r, |v| v, code, ext)
                }
                1 => {
                    let mut s = Cursor::new(&src[..]);
                    let r = util::catch(|| if op == 6 { t.read_volatile_from(a, &mut s, 0).map(|v| v as u64) } else { t.read_exact_volatile_from(a, &mut s, 0).map(|_| 0) });
                    let ext = s.position() != 0;
                    fin(r, |v| v, code, ext)
                }
                _ => {
                    let mut f = memfd(&src);
                    let r = util::catch(|| if op == 6 { t.read_volatile_from(a, &mut f, 0).map(|v| v as u64) } else { t.read_exact_volatile_from(a, &mut f, 0).map(|_| 0) });
                    let ext = file_state(&mut f) != (0, k as u64);
                    fin(r, |v| v, code, ext)
                }
            }
        }
        8 | 9 => match sk {
            0 => {
                let mut buf = vec![SRC; k];
                let left;
                let r;
                {
                    let mut s: &mut [u8] = &mut buf[..];
                    r = util::catch(|| if op == 8 { t.write_volatile_to(a, &mut s, 0).map(|v| v as u64) } else { t.write_all_volatile_to(a, &mut s, 0).map(|_| 0) });
                    left = s.len();
                }
                let ext = left != k || buf.iter().any(|b| *b != SRC);
                fin(r, |v| v, code, ext)
            }
            1 => {
                let mut v: Vec<u8> = Vec::new();
                let r = util::catch(|| if op == 8 { t.write_volatile_to(a, &mut v, 0).map(|v| v as u64) } else { t.write_all_volatile_to(a, &mut v, 0).map(|_| 0) });
                let ext = !v.is_empty();
                fin(r, |v| v, code, ext)
            }
            _ => {
                let mut f = memfd(&[]);
                let r = util::catch(|| if op == 8 { t.write_volatile_to(a, &mut f, 0).map(|v| v as u64) } else { t.write_all_volatile_to(a, &mut f, 0).map(|_| 0) });
                let ext = file_state(&mut f) != (0, 0);
                fin(r, |v| v, code, ext)
            }
        },
        _ => panic!("bad op"),
    }
}

fn novc(_: &VolatileMemoryError) -> u64 {
    0
}

fn zst_copy<Z: ByteValued, S: BitmapSlice>(sl: &VolatileSlice<S>, op: u64, k: usize) -> R4 {
    assert_eq!(std::mem::size_of::<Z>(), 0);
    let mut buf: Vec<Z> = (0..k).map(|_| Z::zeroed()).collect();
    if op == 10 {
        fin(util::catch(|| Ok::<usize, VolatileMemoryError>(sl.copy_to::<Z>(&mut buf))), |v| v as u64, novc, buf.len() != k)
    } else {
        fin(util::catch(|| Ok::<(), VolatileMemoryError>(sl.copy_from::<Z>(&buf))), |_| 0, novc, false)
    }
}

/// get_array_ref::<T>(0, nel) on the slice, then copy_to / copy_from with a k-element buffer of 0x5a bytes
fn arr_copy<T: ByteValued, S: BitmapSlice>(sl: &VolatileSlice<S>, op: u64, nel: usize, k: usize) -> R4 {
    let mk = || {
        let mut v = T::zeroed();
        for b in v.as_mut_slice() {
            *b = SRC;
        }
        v
    };
    let mut buf: Vec<T> = (0..k).map(|_| mk()).collect();
    let r = util::catch(|| {
        sl.get_array_ref::<T>(0, nel).map(|arr| {
            if op == 12 {
                arr.copy_to(&mut buf) as u64
            } else {
                arr.copy_from(&buf);
                0
            }
        })
    });
    let ext = buf.len() != k || buf.iter().any(|v| v.as_slice().iter().any(|b| *b != SRC));
    fin(r, |v| v, vcode, ext)
}

/// ops 10..=17 on the slice the layer's get_slice returned; `whole` = the enclosing container
fn acc_op<S: BitmapSlice>(sl: &VolatileSlice<S>, whole: &VolatileSlice<S>, op: u64, esz: u64, nel: usize, k: usize, sk: u64) -> R4 {
    match op {
        10 | 11 => {
            if sk == 0 {
                zst_copy::<[u8; 0], S>(sl, op, k)
            } else {
                zst_copy::<[u64; 0], S>(sl, op, k)
            }
        }
        12 | 13 => match (esz, sk) {
            (0, 0) => arr_copy::<[u8; 0], S>(sl, op, nel, k),
            (0, _) => arr_copy::<[u64; 0], S>(sl, op, nel, k),
            (1, _) => arr_copy::<u8, S>(sl, op, nel, k),
            (2, _) => arr_copy::<u16, S>(sl, op, nel, k),
            (4, _) => arr_copy::<u32, S>(sl, op, nel, k),
            (8, _) => arr_copy::<u64, S>(sl, op, nel, k),
            _ => panic!("bad esz"),
        },
        14 => {
            if sk == 0 {
                fin(util::catch(|| sl.get_ref::<[u8; 0]>(0).map(|r| r.store([]))), |_| 0, vcode, false)
            } else {
                fin(util::catch(|| sl.get_ref::<[u64; 0]>(0).map(|r| r.store([]))), |_| 0, vcode, false)
            }
        }
        15 => {
            if sk == 0 {
                fin(util::catch(|| sl.get_ref::<[u8; 0]>(0).map(|r| r.load())), |_| 0, vcode, false)
            } else {
                fin(util::catch(|| sl.get_ref::<[u64; 0]>(0).map(|r| r.load())), |_| 0, vcode, false)
            }
        }
        16 => fin(util::catch(|| Ok::<(), VolatileMemoryError>(whole.copy_to_volatile_slice(sl.offset(0).unwrap()))), |_| 0, novc, false),
        17 => fin(util::catch(|| Ok::<(), VolatileMemoryError>(sl.copy_to_volatile_slice(whole.offset(0).unwrap()))), |_| 0, novc, false),
        _ => panic!("bad op"),
    }
}

fn bad() -> Vec<Tok> {
    vec![Tok::N(0xbad)]
}

fn exec(case: &[Tok]) -> Vec<Tok> {
    let (layer, op, ps) = (case[1].u(), case[2].u(), case[3].u() as usize);
    let geo: Vec<u64> = case[4].l().iter().map(|x| *x as u64).collect();
    let (ri, sub_off, sub_len) = (case[5].u() as usize, case[6].u() as usize, case[7].u() as usize);
    let (addr, esz, nel, k, sk) = (case[8].u(), case[9].u(), case[10].u() as usize, case[11].u() as usize, case[12].u());
    if ps == 0 || geo.len() % 2 != 0 || geo.is_empty() || geo.len() > 8 || k > 4096 || nel > 4096 {
        return bad();
    }
    let mut sizes = Vec::new();
    let mut regions = Vec::new();
    for p in geo.chunks(2) {
        let (start, size) = (p[0], p[1] as usize);
        if size == 0 || size > (1 << 20) {
            return bad();
        }
        let r = MmapRegionBuilder::new_with_bitmap(size, AtomicBitmap::new(size, NonZeroUsize::new(ps).unwrap()))
            .with_mmap_prot(libc::PROT_READ | libc::PROT_WRITE)
            .with_mmap_flags(libc::MAP_ANONYMOUS | libc::MAP_PRIVATE | libc::MAP_NORESERVE)
            .build();
        let r = match r {
            Ok(r) => r,
            Err(_) => return bad(),
        };
        match GuestRegionMmap::new(r, GuestAddress(start)) {
            Ok(x) => regions.push(x),
            Err(_) => return bad(),
        }
        sizes.push(size);
    }
    let gm = match GuestMemoryMmap::from_regions(regions) {
        Ok(g) => g,
        Err(_) => return bad(),
    };
    let regs: Vec<&GuestRegionMmap<AtomicBitmap>> = gm.iter().collect();
    if ri >= regs.len() {
        return bad();
    }
    for (r, sz) in regs.iter().zip(&sizes) {
        unsafe { std::ptr::write_bytes(r.as_ptr(), FILL, *sz) };
        r.bitmap().reset();
    }

    let res: R4 = match layer {
        0 => {
            let root = regs[ri].as_volatile_slice().unwrap();
            let cont = match root.subslice(sub_off, sub_len) {
                Ok(s) => s,
                Err(_) => return bad(),
            };
            if op <= 9 {
                bytes_op(&cont, addr as usize, op, k, sk, vcode)
            } else {
                let nb = nbytes(op, esz, nel);
                match util::catch(|| cont.get_slice(addr as usize, nb)) {
                    None => (2, 0, 0, 0),
                    Some(Err(e)) => (1, vcode(&e), 0, 0),
                    Some(Ok(sl)) => acc_op(&sl, &cont, op, esz, nel, k, sk),
                }
            }
        }
        1 => {
            let reg = regs[ri];
            if op <= 9 {
                bytes_op(reg, MemoryRegionAddress(addr), op, k, sk, gcode)
            } else {
                let nb = nbytes(op, esz, nel);
                match util::catch(|| reg.get_slice(MemoryRegionAddress(addr), nb)) {
                    None => (2, 0, 0, 0),
                    Some(Err(e)) => (1, gcode(&e), 0, 0),
                    Some(Ok(sl)) => {
                        let whole = reg.as_volatile_slice().unwrap();
                        acc_op(&sl, &whole, op, esz, nel, k, sk)
                    }
                }
            }
        }
        2 => {
            if op <= 9 {
                bytes_op(&gm, GuestAddress(addr), op, k, sk, gcode)
            } else {
                let nb = nbytes(op, esz, nel);
                match util::catch(|| gm.get_slice(GuestAddress(addr), nb)) {
                    None => (2, 0, 0, 0),
                    Some(Err(e)) => (1, gcode(&e), 0, 0),
                    Some(Ok(sl)) => {
                        // the enclosing region, found without the library's own lookup
                        let i = (0..regs.len())
                            .find(|i| geo[2 * i] <= addr && addr - geo[2 * i] < geo[2 * i + 1])
                            .expect("slice granted outside every region");
                        let whole = regs[i].as_volatile_slice().unwrap();
                        acc_op(&sl, &whole, op, esz, nel, k, sk)
                    }
                }
            }
        }
        _ => return bad(),
    };

    // independent observation
    let mut changed: Vec<u128> = Vec::new();
    let mut dirty: Vec<u128> = Vec::new();
    let (mut boff, mut poff) = (0usize, 0usize);
    for (r, sz) in regs.iter().zip(&sizes) {
        let mem = unsafe { std::slice::from_raw_parts(r.as_ptr(), *sz) };
        for (i, b) in mem.iter().enumerate() {
            if *b != FILL {
                changed.push((boff + i) as u128);
            }
        }
        let np = sz.div_ceil(ps);
        for p in 0..np {
            if r.bitmap().dirty_at(p * ps) {
                dirty.push((poff + p) as u128);
            }
        }
        boff += sz;
        poff += np;
    }
    vec![n(res.0), n(res.1), n(res.2), n(res.3), Tok::L(changed), Tok::L(dirty)]
}

fn nbytes(op: u64, esz: u64, nel: usize) -> usize {
    match op {
        10 | 11 => nel,
        12 | 13 => nel * esz as usize,
        _ => 0,
    }
}

// ------------------------------------------------------------------------------------------ generator
struct Lay {
    ps: u64,
    regs: Vec<(u64, u64)>,
}

fn layouts() -> Vec<Lay> {
    vec![
        Lay { ps: 1, regs: vec![(0x1000, 48)] },
        Lay { ps: 1, regs: vec![(0, 16), (64, 24)] },
        Lay { ps: 7, regs: vec![(0x1000, 64), (0x2000, 33)] },
        Lay { ps: 7, regs: vec![(5, 30), (35, 20), (100, 7)] },
        Lay { ps: 4096, regs: vec![(0x10000, 8192 + 100), (0x20000, 4096)] },
        Lay { ps: 4096, regs: vec![(0, 8192)] },
        Lay { ps: 4096, regs: vec![(0x8000, 0x1000), (u64::MAX - 0x2fff, 0x2000)] },
        Lay { ps: 64, regs: vec![(0x100, 200), (0x100 + 200, 56)] },
    ]
}

/// (esz, n, k, sk) variants of one op
fn variants(op: u64) -> Vec<(u64, u64, u64, u64)> {
    match op {
        0..=5 => vec![(0, 0, 0, 0)],
        6 | 7 => vec![(0, 0, 5, 0), (0, 0, 0, 0), (0, 0, 5, 1), (0, 0, 5, 2), (0, 0, 0, 2)],
        8 | 9 => vec![(0, 0, 5, 0), (0, 0, 0, 0), (0, 0, 0, 1), (0, 0, 0, 2)],
        10 | 11 => vec![(0, 0, 3, 0), (0, 0, 0, 0), (0, 5, 3, 0), (0, 9, 4, 1), (0, 0, 2, 1)],
        12 | 13 => vec![
            (0, 4, 3, 0),
            (0, 2, 5, 0),
            (0, 0, 3, 0),
            (0, 3, 3, 1),
            (0, 64, 0, 0),
            (1, 0, 3, 0),
            (2, 0, 2, 0),
            (4, 0, 3, 0),
            (8, 0, 1, 0),
            (4, 0, 0, 0),
        ],
        14 | 15 => vec![(0, 0, 0, 0), (0, 0, 0, 1)],
        _ => vec![(0, 0, 0, 0)],
    }
}

fn addrs_for(len: u64, ps: u64, base: u64, extra: &[u64]) -> Vec<u64> {
    // offsets relative to `base` (0 for the slice / region layers, region start for the guest layer)
    let mut v = vec![0u64, 1, 3, ps, ps + 1, 2 * ps + 3, len / 2, len.saturating_sub(1), len, len + 1, len + ps];
    v.retain(|x| *x <= len + ps);
    let mut out: Vec<u64> = v.iter().filter_map(|x| base.checked_add(*x)).collect();
    out.extend_from_slice(extra);
    out.extend_from_slice(&[0, u64::MAX, u64::MAX - 1, u64::MAX - ps.min(4000), 1u64 << 63, (1u64 << 63) - 1]);
    out.retain(|a| *a <= (1u64 << 63) || *a >= u64::MAX - 4095);
    out.sort();
    out.dedup();
    out
}

fn gen(rng: &mut Rng, tier: Tier, emit: &mut dyn FnMut(Vec<Tok>)) {
    let mode = crate::build_mode();
    let mut all: Vec<Vec<Tok>> = Vec::new();
    for lay in layouts() {
        let flat: Vec<u64> = lay.regs.iter().flat_map(|(s, l)| [*s, *l]).collect();
        let mk = |layer: u64, op: u64, ri: usize, so: u64, sl: u64, a: u64, v: (u64, u64, u64, u64)| -> Vec<Tok> {
            vec![
                n(mode),
                n(layer),
                n(op),
                n(lay.ps),
                Tok::of_u64s(&flat),
                n(ri as u64),
                n(so),
                n(sl),
                n(a),
                n(v.0),
                n(v.1),
                n(v.2),
                n(v.3),
            ]
        };
        for op in 0..=17u64 {
            for v in variants(op) {
                // layer 0: sub-slices of every region, aligned / unaligned to the bitmap page, empty ones
                for (ri, (_, size)) in lay.regs.iter().enumerate() {
                    let size = *size;
                    let ps = lay.ps;
                    let mut subs = vec![(0, size), (3.min(size), size - 3.min(size)), (size, 0), (0, 0), (5.min(size), 0)];
                    if ps + 2 < size {
                        subs.push((ps, size - ps));
                        subs.push((ps + 2, (size - ps - 2).min(ps + 5)));
                        subs.push((ps + 2, 0));
                    }
                    subs.sort();
                    subs.dedup();
                    for (so, sl) in subs {
                        for a in addrs_for(sl, ps, 0, &[]) {
                            all.push(mk(0, op, ri, so, sl, a, v));
                        }
                    }
                    // layer 1
                    for a in addrs_for(size, ps, 0, &[]) {
                        all.push(mk(1, op, ri, 0, size, a, v));
                    }
                }
                // layer 2: every region's interior / edges, holes, one past
                let mut ga: Vec<u64> = Vec::new();
                for (start, size) in &lay.regs {
                    ga.extend(addrs_for(*size, lay.ps, *start, &[start.wrapping_sub(1), start.wrapping_sub(lay.ps)]));
                }
                ga.sort();
                ga.dedup();
                for a in ga {
                    all.push(mk(2, op, 0, 0, 0, a, v));
                }
            }
        }
    }
    // quick: a deterministic third of the structured cases + random picks; thorough: all of them
    let total = all.len();
    match tier {
        Tier::Quick => {
            let phase = (rng.below(3)) as usize;
            for (i, c) in all.iter().enumerate() {
                if i % 3 == phase {
                    emit(c.clone());
                }
            }
            for _ in 0..4000 {
                let c = all[rng.below(total as u64) as usize].clone();
                emit(perturb(rng, c));
            }
        }
        Tier::Thorough => {
            for c in &all {
                emit(c.clone());
            }
            for _ in 0..200_000 {
                let c = all[rng.below(total as u64) as usize].clone();
                emit(perturb(rng, c));
            }
        }
    }
}

/// random variation of a structured case that stays inside the suite: another address near the
/// original one, other buffer / element counts
fn perturb(rng: &mut Rng, mut c: Vec<Tok>) -> Vec<Tok> {
    let a = c[8].u();
    let d = rng.below(9);
    let na = if rng.bool() { a.wrapping_add(d) } else { a.wrapping_sub(d) };
    if na <= (1u64 << 63) || na >= u64::MAX - 4095 {
        c[8] = n(na);
    }
    let op = c[2].u();
    match op {
        6..=9 => c[11] = n(rng.below(9)),
        10 | 11 => {
            c[10] = n(rng.below(12));
            c[11] = n(rng.below(9));
        }
        12 | 13 => {
            if c[9].u() == 0 {
                c[10] = n(rng.below(65));
            }
            c[11] = n(rng.below(9));
        }
        _ => {}
    }
    c
}


// ------------------------------------------------------------------ C18huge
fn huge_copy<Z: ByteValued, S: BitmapSlice>(sl: &VolatileSlice<S>, op: u64, k: usize) -> (u64, u64) {
    assert_eq!(std::mem::size_of::<Z>(), 0);
    let mut buf: Vec<Z> = Vec::new();
    // SAFETY: zero-sized elements: the capacity of the vector is usize::MAX and there is nothing to initialise
    unsafe { buf.set_len(k) };
    let r = if op == 10 {
        util::catch(|| sl.copy_to::<Z>(&mut buf) as u64)
    } else {
        util::catch(|| {
            sl.copy_from::<Z>(&buf);
            0
        })
    };
    match r {
        Some(v) => (0, v),
        None => (2, 0),
    }
}
fn exec_huge(case: &[Tok]) -> Vec<Tok> {
    let (layer, op, sk, k) = (case[1].u(), case[2].u(), case[3].u(), case[4].u() as usize);
    assert!(layer <= 2 && (op == 10 || op == 11) && sk <= 1);
    let gm = GuestMemoryMmap::<()>::from_ranges(&[(GuestAddress(0x1000), 4096)]).unwrap();
    let region = gm.iter().next().unwrap();
    let mut local = vec![FILL; 64];
    let host = region.as_volatile_slice().unwrap();
    unsafe { std::ptr::write_bytes(host.ptr_guard_mut().as_ptr(), FILL, 4096) };
    let (r, touched) = match layer {
        0 => {
            let sl = VolatileSlice::from(&mut local[..]);
            let r = if sk == 0 { huge_copy::<[u8; 0], _>(&sl, op, k) } else { huge_copy::<[u64; 0], _>(&sl, op, k) };
            (r, local.iter().any(|b| *b != FILL))
        }
        _ => {
            let sl = if layer == 1 { host.subslice(8, 64).unwrap() } else { gm.get_slice(GuestAddress(0x1008), 64).unwrap() };
            let r = if sk == 0 { huge_copy::<[u8; 0], _>(&sl, op, k) } else { huge_copy::<[u64; 0], _>(&sl, op, k) };
            let g = host.ptr_guard();
            (r, (0..4096).any(|i| unsafe { std::ptr::read_volatile(g.as_ptr().add(i)) } != FILL))
        }
    };
    vec![n(r.0), n(r.1), n(touched as u64)]
}
fn gen_huge(_rng: &mut Rng, _tier: Tier, emit: &mut dyn FnMut(Vec<Tok>)) {
    let mode = crate::build_mode();
    let im = isize::MAX as u64;
    for layer in 0..=2u64 {
        for op in [10u64, 11] {
            for sk in 0..=1u64 {
                for k in [0u64, 1, 65, 1 << 32, im - 1, im, im + 1, im + 2, (1 << 63) + (1 << 62), u64::MAX - 1, u64::MAX] {
                    emit(vec![n(mode), n(layer), n(op), n(sk), n(k)]);
                }
            }
        }
    }
}


// ------------------------------------------------------------------------------------------ suite C18arr
fn zst_buf<Z: ByteValued>(k: usize) -> Vec<Z> {
    assert_eq!(std::mem::size_of::<Z>(), 0);
    let mut v: Vec<Z> = Vec::new();
    // SAFETY: a Vec of zero-sized elements has capacity usize::MAX and no storage; every [T;0] value is the same
    unsafe { v.set_len(k) };
    v
}

fn arr_forms<Z: ByteValued>(reg: &GuestRegionMmap<AtomicBitmap>, off: usize, nel: usize, op: u64, i: usize, k: usize) -> (u64, u64) {
    let root = reg.as_volatile_slice().unwrap();
    let arr = match util::catch(|| root.get_array_ref::<Z>(off, nel)) {
        None => return (2, 0),
        Some(Err(_)) => return (1, 0),
        Some(Ok(a)) => a,
    };
    let r: Option<Result<u64, ()>> = match op {
        0 => match root.get_slice(i, k) {
            Err(_) => Some(Err(())),
            Ok(d) => util::catch(|| {
                arr.copy_to_volatile_slice(d);
                Ok(0)
            }),
        },
        1 => {
            let mut buf = zst_buf::<Z>(k);
            util::catch(|| Ok(arr.copy_to(&mut buf) as u64))
        }
        2 => {
            let buf = zst_buf::<Z>(k);
            util::catch(|| {
                arr.copy_from(&buf);
                Ok(k.min(nel) as u64)
            })
        }
        3 => util::catch(|| {
            arr.store(i, Z::zeroed());
            Ok(0)
        }),
        4 => util::catch(|| {
            let _ = arr.load(i);
            Ok(0)
        }),
        5 => util::catch(|| Ok(arr.ref_at(i).to_slice().len() as u64)),
        _ => util::catch(|| Ok(arr.to_slice().len() as u64)),
    };
    match r {
        None => (2, 0),
        Some(Err(())) => (1, 0),
        Some(Ok(c)) => (0, c),
    }
}

fn exec_arr(case: &[Tok]) -> Vec<Tok> {
    let (ps, size, off, nel) = (case[1].u() as usize, case[2].u() as usize, case[3].u() as usize, case[4].u() as usize);
    let (zsel, op, i, k) = (case[5].u(), case[6].u(), case[7].u() as usize, case[8].u() as usize);
    if ps == 0 || size == 0 || size > (1 << 20) {
        return bad();
    }
    let r = MmapRegionBuilder::new_with_bitmap(size, AtomicBitmap::new(size, NonZeroUsize::new(ps).unwrap()))
        .with_mmap_prot(libc::PROT_READ | libc::PROT_WRITE)
        .with_mmap_flags(libc::MAP_ANONYMOUS | libc::MAP_PRIVATE | libc::MAP_NORESERVE)
        .build();
    let reg = match r.ok().and_then(|r| GuestRegionMmap::new(r, GuestAddress(0)).ok()) {
        Some(x) => x,
        None => return bad(),
    };
    unsafe { std::ptr::write_bytes(reg.as_ptr(), FILL, size) };
    reg.bitmap().reset();
    let (cl, cnt) = match zsel {
        0 => arr_forms::<[u8; 0]>(&reg, off, nel, op, i, k),
        1 => arr_forms::<[u64; 0]>(&reg, off, nel, op, i, k),
        _ => arr_forms::<[u128; 0]>(&reg, off, nel, op, i, k),
    };
    let mem = unsafe { std::slice::from_raw_parts(reg.as_ptr(), size) };
    let changed: Vec<u128> = mem.iter().enumerate().filter(|(_, b)| **b != FILL).map(|(i, _)| i as u128).collect();
    let dirty: Vec<u128> = (0..size.div_ceil(ps)).filter(|p| reg.bitmap().dirty_at(p * ps)).map(|p| p as u128).collect();
    vec![n(cl), n(cnt), Tok::L(changed), Tok::L(dirty)]
}

fn gen_arr(rng: &mut Rng, tier: Tier, emit: &mut dyn FnMut(Vec<Tok>)) {
    let mode = crate::build_mode();
    let imax = isize::MAX as u64;
    for &(ps, size) in &[(1u64, 48u64), (7, 64), (64, 200), (4096, 8192 + 100), (4096, 4096)] {
        let offs = [0u64, 1, 3, ps, ps + 1, size / 2, size - 1, size, size + 1, u64::MAX, 1 << 63];
        for &off in &offs {
            for &nel in &[0u64, 1, 5, 1000, imax, imax + 1, u64::MAX] {
                for zsel in 0..3u64 {
                    for op in 0..=6u64 {
                        let small = [0u64, 1, 3, 7];
                        let mut vars: Vec<(u64, u64)> = Vec::new(); // (i, k)
                        match op {
                            0 => {
                                for &(d, l) in &[(0u64, 0u64), (0, size), (3, 5), (size, 0), (size - 1, 1), (size, 1), (ps, ps), (u64::MAX, 1)] {
                                    vars.push((d, l));
                                }
                            }
                            1 | 2 => {
                                for &k in &small {
                                    vars.push((0, k));
                                }
                                if nel <= 1000 {
                                    vars.push((0, u64::MAX));
                                    vars.push((0, imax + 1));
                                }
                            }
                            3 | 4 | 5 => {
                                if nel > 0 {
                                    vars.push((0, 0));
                                    vars.push((nel - 1, 0));
                                    vars.push((rng.below(nel), 0));
                                }
                            }
                            _ => vars.push((0, 0)),
                        }
                        for (i, k) in vars {
                            if tier == Tier::Quick && zsel == 2 && !rng.chance(1, 2) {
                                continue;
                            }
                            emit(vec![n(mode), n(ps), n(size), n(off), n(nel), n(zsel), n(op), n(i), n(k)]);
                        }
                    }
                }
            }
        }
    }
}
