//! C08: marking races with harvesting.  Every primitive of the bitmap goes through the H2 shim
//! (vm_memory::verif::set_atomic_hooks): the `before` hook is a deterministic scheduler (a thread
//! proceeds only when the schedule says it is its turn), the `after` hook logs the primitive.
//!
//! case:  byte_size page_size [initial pages] [schedule: thread ids] nthreads [tid,code,args]*
//!   code: 0 set_addr_range a l  1 reset_addr_range a l  2 set_bit i  3 reset_bit i
//!         4 get_and_reset  5 clone  6 reset  7 is_bit_set i
//!   schedule semantics: entry t = thread t performs its next primitive; entries naming a thread
//!   that has finished are skipped; after the schedule the remaining threads finish in id order.
//!   The bitmap is built by new(byte_size) or by growing a smaller one with enlarge (route derived from the case, see exec).
//! obs:   nevents [tid,op index,kind(0 load,1 store,2 fetch_or,3 fetch_and),word,operand,old]*
//!        [pages set at the end, scanned 0..len+70]  then one [result] per operation, thread by
//!        thread: get_and_reset -> words, clone -> pages set in the clone, is_bit_set -> [b], else []
use crate::tok::{n, us};
use crate::{Rng, Suite, Tier, Tok};
use std::cell::Cell;
use std::num::NonZeroUsize;
use std::sync::atomic::{AtomicU64, Ordering};
use std::sync::{Arc, Condvar, Mutex, Once, OnceLock};
use std::time::Instant;
use vm_memory::bitmap::AtomicBitmap;
use vm_memory::verif::{set_atomic_hooks, AtomicEvent, AtomicKind};

pub const SUITES: &[Suite] = &[Suite { name: "C08", gen, exec }];
const MARGIN: usize = 70;

struct Sched {
    sched: Vec<usize>,
    pos: usize,
    finished: Vec<bool>,
    log: Vec<[u64; 6]>,
    cell0: usize,
}
static S: Mutex<Option<Sched>> = Mutex::new(None);
static CV: Condvar = Condvar::new();
thread_local! {
    static TID: Cell<usize> = const { Cell::new(usize::MAX) };
    static OPIDX: Cell<usize> = const { Cell::new(0) };
}

fn current_turn(s: &mut Sched) -> usize {
    while s.pos < s.sched.len() && (s.sched[s.pos] >= s.finished.len() || s.finished[s.sched[s.pos]]) {
        s.pos += 1;
    }
    if s.pos < s.sched.len() {
        s.sched[s.pos]
    } else {
        s.finished.iter().position(|f| !*f).unwrap_or(usize::MAX)
    }
}
fn hook_before(_k: AtomicKind, _cell: usize, _operand: u64) {
    let me = TID.with(|t| t.get());
    if me == usize::MAX {
        return;
    }
    let mut g = S.lock().unwrap();
    loop {
        let turn = current_turn(g.as_mut().unwrap());
        if turn == me {
            return;
        }
        g = CV.wait(g).unwrap();
    }
}
fn hook_after(ev: AtomicEvent) {
    let me = TID.with(|t| t.get());
    if me == usize::MAX {
        return;
    }
    let mut g = S.lock().unwrap();
    let s = g.as_mut().unwrap();
    let kind = match ev.kind {
        AtomicKind::Load => 0,
        AtomicKind::Store => 1,
        AtomicKind::FetchOr => 2,
        AtomicKind::FetchAnd => 3,
    };
    let word = (ev.cell.wrapping_sub(s.cell0) / 8) as u64;
    s.log.push([me as u64, OPIDX.with(|o| o.get()) as u64, kind, word, ev.operand, ev.old]);
    if s.pos < s.sched.len() {
        s.pos += 1;
    }
    CV.notify_all();
}
fn finish(me: usize) {
    let mut g = S.lock().unwrap();
    g.as_mut().unwrap().finished[me] = true;
    CV.notify_all();
}

// watchdog (same idea as in c09.rs): a stuck schedule must not hang the check
static ARMED_AT: AtomicU64 = AtomicU64::new(0);
static WD: Once = Once::new();
static T0: OnceLock<Instant> = OnceLock::new();
fn now_ms() -> u64 {
    T0.get().unwrap().elapsed().as_millis() as u64 + 1
}
fn arm() {
    WD.call_once(|| {
        T0.set(Instant::now()).unwrap();
        std::thread::spawn(|| loop {
            std::thread::sleep(std::time::Duration::from_millis(200));
            let a = ARMED_AT.load(Ordering::SeqCst);
            if a != 0 && now_ms() > a + 10_000 {
                eprintln!("C08 watchdog: case did not finish within 10 s");
                std::process::exit(97);
            }
        });
    });
    ARMED_AT.store(now_ms(), Ordering::SeqCst);
}

enum Res {
    Unit,
    Words(Vec<u64>),
    Clone(AtomicBitmap),
    Bool(bool),
    Panicked,
}

fn scan(b: &AtomicBitmap) -> Vec<u64> {
    (0..b.len() + MARGIN).filter(|p| b.is_bit_set(*p)).map(|p| p as u64).collect()
}

fn exec(case: &[Tok]) -> Vec<Tok> {
    arm();
    let r = exec_inner(case);
    set_atomic_hooks(None, None);
    *S.lock().unwrap() = None;
    ARMED_AT.store(0, Ordering::SeqCst);
    r
}

fn exec_inner(case: &[Tok]) -> Vec<Tok> {
    let bytes = case[0].u() as usize;
    let ps = case[1].u() as usize;
    assert!((bytes as u128) / (ps.max(1) as u128) < 4096, "case too large");
    let init: Vec<usize> = case[2].l().iter().map(|x| *x as u64 as usize).collect();
    let sched: Vec<usize> = case[3].l().iter().map(|x| *x as u64 as usize).collect();
    let nth = case[4].u() as usize;
    assert!(nth < 16 && sched.len() < 4096);
    let mut progs: Vec<Vec<Vec<usize>>> = vec![Vec::new(); nth];
    for t in &case[5..] {
        let o: Vec<usize> = t.l().iter().map(|x| *x as u64 as usize).collect();
        assert!(o[0] < nth && o[1] <= 7, "bad op");
        match o[1] {
            0 | 1 => assert!(o.len() == 4),
            2 | 3 | 7 => assert!(o.len() == 3),
            _ => assert!(o.len() == 2),
        }
        progs[o[0]].push(o[1..].to_vec());
    }
    set_atomic_hooks(None, None);
    // how the bitmap reaches its size is chosen by the case itself (route = (byte_size + page_size + #initial
    // pages) mod 3): 0 new(byte_size); 1 new(s0) + enlarge + enlarge, the first within the slack of the last page
    // where possible; 2 new(s0) + one enlarge.  The model knows only the final size: state left behind by enlarge
    // must not change what marking and harvesting do.
    let psz = NonZeroUsize::new(ps).expect("page size 0");
    let route = (bytes % 3 + ps % 3 + init.len() % 3) % 3;
    let bm = if route == 0 || bytes < 2 {
        AtomicBitmap::new(bytes, psz)
    } else {
        let s0 = bytes - bytes / 2;
        let mut b = AtomicBitmap::new(s0, psz);
        if route == 1 {
            let slack = (ps - s0 % ps) % ps;
            let k1 = std::cmp::min(bytes - s0, std::cmp::max(1, slack / 2));
            b.enlarge(k1);
            if bytes - s0 - k1 > 0 {
                b.enlarge(bytes - s0 - k1);
            }
        } else {
            b.enlarge(bytes - s0);
        }
        b
    };
    let bm = Arc::new(bm);
    for p in &init {
        bm.set_bit(*p);
    }
    // calibration: the address of word 0 (one hooked load on the main thread)
    static CELL0: AtomicU64 = AtomicU64::new(0);
    CELL0.store(0, Ordering::SeqCst);
    if bm.len() > 0 {
        set_atomic_hooks(None, Some(Box::new(|ev: AtomicEvent| CELL0.store(ev.cell as u64, Ordering::SeqCst))));
        let _ = bm.is_bit_set(0);
        set_atomic_hooks(None, None);
    }
    *S.lock().unwrap() = Some(Sched {
        sched,
        pos: 0,
        finished: vec![false; nth],
        log: Vec::new(),
        cell0: CELL0.load(Ordering::SeqCst) as usize,
    });
    set_atomic_hooks(Some(Box::new(hook_before)), Some(Box::new(hook_after)));
    let mut handles = Vec::new();
    for (t, prog) in progs.iter().enumerate() {
        let bm = bm.clone();
        let prog = prog.clone();
        handles.push(std::thread::spawn(move || {
            TID.with(|x| x.set(t));
            let mut out: Vec<Res> = Vec::new();
            for (j, o) in prog.iter().enumerate() {
                OPIDX.with(|x| x.set(j));
                let r = std::panic::catch_unwind(std::panic::AssertUnwindSafe(|| match o[0] {
                    0 => {
                        bm.set_addr_range(o[1], o[2]);
                        Res::Unit
                    }
                    1 => {
                        bm.reset_addr_range(o[1], o[2]);
                        Res::Unit
                    }
                    2 => {
                        bm.set_bit(o[1]);
                        Res::Unit
                    }
                    3 => {
                        bm.reset_bit(o[1]);
                        Res::Unit
                    }
                    4 => Res::Words(bm.get_and_reset()),
                    5 => Res::Clone(AtomicBitmap::clone(&bm)),
                    6 => {
                        bm.reset();
                        Res::Unit
                    }
                    _ => Res::Bool(bm.is_bit_set(o[1])),
                }));
                out.push(r.unwrap_or(Res::Panicked));
            }
            finish(t);
            TID.with(|x| x.set(usize::MAX));
            out
        }));
    }
    let results: Vec<Vec<Res>> = handles.into_iter().map(|h| h.join().expect("worker")).collect();
    set_atomic_hooks(None, None);
    let log = S.lock().unwrap().take().unwrap().log;
    let mut out = vec![us(log.len())];
    for e in &log {
        out.push(Tok::of_u64s(e));
    }
    out.push(Tok::of_u64s(&scan(&bm)));
    for rs in &results {
        for r in rs {
            out.push(match r {
                Res::Unit => Tok::L(vec![]),
                Res::Words(w) => Tok::of_u64s(w),
                Res::Clone(c) => Tok::of_u64s(&scan(c)),
                Res::Bool(b) => Tok::of_u64s(&[*b as u64]),
                Res::Panicked => Tok::of_u64s(&[0xdead]),
            });
        }
    }
    out
}

// ------------------------------------------------------------------ generation
fn pages_of(bytes: usize, ps: usize) -> usize {
    (bytes + ps - 1) / ps
}
/// number of primitives an operation performs (mirrors the straight-line programs)
fn nprims(bytes: usize, ps: usize, o: &[usize]) -> usize {
    let size = pages_of(bytes, ps);
    let words = (size + 63) / 64;
    match o[0] {
        0 | 1 => {
            if o[2] == 0 {
                return 0;
            }
            let first = o[1] / ps;
            let last = o[1].saturating_add(o[2] - 1) / ps;
            if first >= size {
                0
            } else {
                last.min(size - 1) - first + 1
            }
        }
        2 | 3 | 7 => (o[1] < size) as usize,
        _ => words,
    }
}
fn interleavings(counts: &[usize], cur: &mut Vec<usize>, left: &mut Vec<usize>, out: &mut Vec<Vec<usize>>) {
    if left.iter().all(|x| *x == 0) {
        out.push(cur.clone());
        return;
    }
    for t in 0..counts.len() {
        if left[t] > 0 {
            left[t] -= 1;
            cur.push(t);
            interleavings(counts, cur, left, out);
            cur.pop();
            left[t] += 1;
        }
    }
}
fn case_tokens(bytes: usize, ps: usize, init: &[usize], sched: &[usize], progs: &[Vec<Vec<usize>>]) -> Vec<Tok> {
    let mut c = vec![
        us(bytes),
        us(ps),
        Tok::L(init.iter().map(|x| *x as u128).collect()),
        Tok::L(sched.iter().map(|x| *x as u128).collect()),
        us(progs.len()),
    ];
    for (t, p) in progs.iter().enumerate() {
        for o in p {
            let mut v = vec![t as u128];
            v.extend(o.iter().map(|x| *x as u128));
            c.push(Tok::L(v));
        }
    }
    c
}

fn gen(rng: &mut Rng, tier: Tier, emit: &mut dyn FnMut(Vec<Tok>)) {
    // geometries: pages sharing one 64-bit word, or spanning two
    let geos: Vec<(usize, usize, Vec<usize>)> = vec![
        (40, 1, vec![5]),          // 40 pages, one word
        (100, 1, vec![1, 64]),     // two words
        (128 * 3 - 1, 3, vec![63, 70]), // 128 pages of 3 bytes
        (65 * 4096, 4096, vec![]), // 65 pages
    ];
    for (bytes, ps, init) in &geos {
        let (bytes, ps) = (*bytes, *ps);
        let size = pages_of(bytes, ps);
        let w1 = if size > 64 { 64 } else { size / 2 }; // a page in the second word if there is one
        // thread programs (lists of operations), each at most 5 primitives
        let markers: Vec<Vec<Vec<usize>>> = vec![
            vec![vec![2, 3]],
            vec![vec![0, 2 * ps, 3 * ps]],                       // pages 2,3,4
            vec![vec![0, (w1.max(1) - 1) * ps, 2 * ps]],         // straddles the word boundary when two words
            vec![vec![2, 3], vec![2, w1]],
            vec![vec![0, 3 * ps + ps / 2, 1], vec![2, size - 1], vec![2, size]],
            vec![vec![2, 5], vec![3, 5], vec![2, 5]],
            vec![vec![0, (size - 1) * ps, usize::MAX]],
        ];
        let others: Vec<Vec<Vec<usize>>> = vec![
            vec![vec![4]],
            vec![vec![4], vec![4]],
            vec![vec![5]],
            vec![vec![1, 2 * ps, 3 * ps]],
            vec![vec![3, 3], vec![4]],
            vec![vec![6]],
            vec![vec![7, 3], vec![4], vec![7, 3]],
            vec![vec![2, 4], vec![4]],
            vec![vec![5], vec![1, 0, usize::MAX / 2]],
        ];
        let mut pairs: Vec<(Vec<Vec<usize>>, Vec<Vec<usize>>)> = Vec::new();
        for a in &markers {
            for b in &others {
                pairs.push((a.clone(), b.clone()));
            }
        }
        for (i, a) in markers.iter().enumerate() {
            for b in &markers[i..] {
                pairs.push((a.clone(), b.clone())); // mark vs mark: two marks in one word
            }
        }
        for (a, b) in &pairs {
            let progs = vec![a.clone(), b.clone()];
            let counts: Vec<usize> = progs.iter().map(|p| p.iter().map(|o| nprims(bytes, ps, o)).sum()).collect();
            if counts.iter().any(|c| *c > 5) {
                continue;
            }
            let mut all = Vec::new();
            interleavings(&counts, &mut Vec::new(), &mut counts.clone(), &mut all);
            let stride = if tier == Tier::Quick && all.len() > 40 { all.len() / 40 } else { 1 };
            for (k, s) in all.iter().enumerate() {
                if k % stride == 0 {
                    emit(case_tokens(bytes, ps, init, s, &progs));
                }
            }
        }
        // a mark-range over >= 3 pages whose END pages are already dirty while an interior page is clean (within
        // one word, and across the word boundary when there are two words): every page of the range must be
        // marked all the same.  The end pages are dirtied (i) by a sequential prefix of the marking thread,
        // (ii) before the threads start, (iii) by the OTHER thread - under ALL interleavings, never thinned out.
        let mut spans: Vec<(usize, usize)> = vec![(2, 4), (1, 4)];
        if size > 64 {
            spans.extend([(62, (size - 1).min(65)), (63, (size - 1).min(65)), (61, 64)]);
        }
        for &(f, l) in &spans {
            if l < f + 2 || l >= size {
                continue;
            }
            let range = vec![0, f * ps, (l - f + 1) * ps];
            let mut sets: Vec<(Vec<usize>, Vec<Vec<Vec<usize>>>)> = Vec::new();
            // (i) sequential prefix on the marking thread, then harvest; the other thread looks on / harvests
            for other in [vec![vec![7, f + 1]], vec![vec![4]], vec![vec![2, f + 1]]] {
                sets.push((init.clone(), vec![vec![vec![2, f], vec![2, l], range.clone(), vec![4]], other.clone()]));
                sets.push((init.clone(), vec![vec![vec![2, f], vec![2, l], range.clone()], other]));
            }
            // (ii) end pages dirty before the threads start
            let mut init2 = init.clone();
            init2.extend([f, l]);
            sets.push((init2.clone(), vec![vec![range.clone()], vec![vec![4]]]));
            sets.push((init2.clone(), vec![vec![range.clone(), vec![4]], vec![vec![7, f + 1]]]));
            sets.push((init2, vec![vec![range.clone()], vec![vec![7, l - 1], vec![7, f + 1]]]));
            // (iii) end pages dirtied by the other thread
            sets.push((init.clone(), vec![vec![range.clone()], vec![vec![2, f], vec![2, l]]]));
            sets.push((init.clone(), vec![vec![range.clone(), vec![4]], vec![vec![2, f], vec![2, l]]]));
            sets.push((init.clone(), vec![vec![range.clone()], vec![vec![2, l], vec![2, f], vec![4]]]));
            sets.push((init.clone(), vec![vec![range.clone(), vec![7, f + 1]], vec![vec![0, l * ps, 1], vec![0, f * ps, ps]]]));
            for (ini, progs) in &sets {
                let counts: Vec<usize> = progs.iter().map(|p| p.iter().map(|o| nprims(bytes, ps, o)).sum()).collect();
                let mut all = Vec::new();
                interleavings(&counts, &mut Vec::new(), &mut counts.clone(), &mut all);
                assert!(all.len() <= 400);
                for s in &all {
                    emit(case_tokens(bytes, ps, ini, s, progs));
                }
            }
        }
        // three threads, sampled schedules; also schedules that are too short / name finished or
        // non-existent threads (the fallback rules of the scheduler)
        let n3 = if tier == Tier::Quick { 150 } else { 5000 };
        for _ in 0..n3 {
            let a = rng.pick(&markers).clone();
            let b = rng.pick(&others).clone();
            let c = if rng.bool() { rng.pick(&markers).clone() } else { rng.pick(&others).clone() };
            let progs = vec![a, b, c];
            let counts: Vec<usize> = progs.iter().map(|p| p.iter().map(|o| nprims(bytes, ps, o)).sum()).collect();
            let mut s: Vec<usize> = Vec::new();
            for (t, c) in counts.iter().enumerate() {
                for _ in 0..*c {
                    s.push(t);
                }
            }
            for i in (1..s.len()).rev() {
                let j = rng.below(i as u64 + 1) as usize;
                s.swap(i, j);
            }
            match rng.below(8) {
                0 => s.truncate(s.len() / 2),
                1 => s.insert(rng.below(s.len() as u64 + 1) as usize, rng.below(5) as usize),
                _ => {}
            }
            emit(case_tokens(bytes, ps, init, &s, &progs));
        }
    }
}
