// build: no-xen
//! C04: histories of data-moving accessors on ONE container (VolatileSlice / MmapRegion /
//! GuestRegionMmap) laid over a real buffer with margins; after every operation the whole buffer
//! (margins included) is read back through the RAW pointer and diffed against the previous state.
//!
//! case:  kind mode hbm pre n post seed  { opcode tsize tcode a b c d [list] }*
//!          kind 0 VolatileSlice, 1 MmapRegion (build_raw over our buffer), 2 GuestRegionMmap
//!          hbm = (address of the first margin byte) mod 4096; container = bytes [pre, pre+n)
//!          tcode: 0 uN / [u8;N], 1 BeN, 2 [u8;N], 3 BeSize, 4 iN, 6 LeN, 8 usize, 10 isize, 12 LeSize
//!                 (odd = big-endian wrapper)
//!          WIDE types (tsize > 16; tcode 2 [u8;N], 14 [u16;N], 16 [u32;N], 18 [u64;N]): a value does not
//!          fit a number token, it travels as its memory image: the value to store is the list token
//!          (b / d = 0), an element buffer is the concatenation of the images, a loaded value comes back
//!          in `buf after` (n = 0)
//! obs :  { kind n [buf after] [changed positions] [new bytes] }*
//!          kind 0 Ok, 1 OutOfBounds, 2 Overflow, 3 PartialBuffer, 4 Misaligned, 5 TooBig,
//!               6 InvalidBackendAddress, 7 panic, 8 other error
use crate::tok::n;
use crate::{util, Rng, Suite, Tier, Tok};
use std::sync::atomic::Ordering;
use vm_memory::volatile_memory::Error as VErr;
use vm_memory::{
    AtomicAccess, Be16, Be32, Be64, BeSize, ByteValued, Bytes, GuestAddress, GuestMemoryError, GuestMemoryRegion,
    GuestRegionMmap, Le16, Le32, Le64, LeSize, MemoryRegionAddress, MmapRegion, VolatileMemory, VolatileSlice,
};

pub const SUITES: &[Suite] = &[Suite { name: "C04", gen, exec }, Suite { name: "C04big", gen: gen_big, exec: exec_big }];

const PAGE: usize = 4096;
const ARENA: usize = PAGE + 65536 + PAGE;

struct Arena(*mut u8);
impl Arena {
    fn new() -> Arena {
        let l = std::alloc::Layout::from_size_align(ARENA, PAGE).unwrap();
        // SAFETY: non-zero size
        let p = unsafe { std::alloc::alloc_zeroed(l) };
        assert!(!p.is_null());
        Arena(p)
    }
}
impl Drop for Arena {
    fn drop(&mut self) {
        // SAFETY: allocated with the same layout
        unsafe { std::alloc::dealloc(self.0, std::alloc::Layout::from_size_align(ARENA, PAGE).unwrap()) }
    }
}

/// plain-data element types: conversion from/to the number whose little-endian (or, for the
/// Be wrappers, big-endian) encoding is the object's memory image
trait Elem: ByteValued {
    fn from_u(v: u128) -> Self;
    fn to_u(self) -> u128;
}
macro_rules! elem_int {
    ($($t:ty, $u:ty);*) => {$(
        impl Elem for $t {
            fn from_u(v: u128) -> Self { v as $u as $t }
            fn to_u(self) -> u128 { self as $u as u128 }
        }
    )*};
}
elem_int!(u8, u8; u16, u16; u32, u32; u64, u64; u128, u128; usize, usize;
          i8, u8; i16, u16; i32, u32; i64, u64; i128, u128; isize, usize);
macro_rules! elem_wrap {
    ($($t:ident, $u:ty);*) => {$(
        impl Elem for $t {
            fn from_u(v: u128) -> Self { <$t>::from(v as $u) }
            fn to_u(self) -> u128 { self.to_native() as u128 }
        }
    )*};
}
elem_wrap!(Le16, u16; Le32, u32; Le64, u64; LeSize, usize; Be16, u16; Be32, u32; Be64, u64; BeSize, usize);
macro_rules! elem_arr {
    ($($n:expr)*) => {$(
        impl Elem for [u8; $n] {
            fn from_u(v: u128) -> Self {
                let b = v.to_le_bytes();
                let mut a = [0u8; $n];
                a.copy_from_slice(&b[..$n]);
                a
            }
            fn to_u(self) -> u128 {
                let mut b = [0u8; 16];
                b[..$n].copy_from_slice(&self);
                u128::from_le_bytes(b)
            }
        }
    )*};
}
elem_arr!(0 1 2 3 4 5 6 7 8 9 10 11 12 13 14 15 16);

fn verr(e: &VErr) -> u64 {
    match e {
        VErr::OutOfBounds { .. } => 1,
        VErr::Overflow { .. } => 2,
        VErr::PartialBuffer { .. } => 3,
        VErr::Misaligned { .. } => 4,
        VErr::TooBig { .. } => 5,
        _ => 8,
    }
}
fn gerr(e: &GuestMemoryError) -> u64 {
    match e {
        GuestMemoryError::PartialBuffer { .. } => 3,
        GuestMemoryError::InvalidBackendAddress => 6,
        _ => 8,
    }
}

enum Cont<'a> {
    S(VolatileSlice<'a>),
    M(&'a MmapRegion),
    G(&'a GuestRegionMmap),
}
impl<'a> Cont<'a> {
    /// the container's VolatileSlice, for the accessors that only exist on slices
    fn vs(&self) -> VolatileSlice<'_> {
        match self {
            Cont::S(s) => *s,
            Cont::M(m) => VolatileMemory::as_volatile_slice(*m),
            Cont::G(g) => GuestMemoryRegion::as_volatile_slice(*g).unwrap(),
        }
    }
    fn write(&self, buf: &[u8], a: u64) -> Result<usize, u64> {
        match self {
            Cont::G(g) => g.write(buf, MemoryRegionAddress(a)).map_err(|e| gerr(&e)),
            _ => self.vs().write(buf, a as usize).map_err(|e| verr(&e)),
        }
    }
    fn read(&self, buf: &mut [u8], a: u64) -> Result<usize, u64> {
        match self {
            Cont::G(g) => g.read(buf, MemoryRegionAddress(a)).map_err(|e| gerr(&e)),
            _ => self.vs().read(buf, a as usize).map_err(|e| verr(&e)),
        }
    }
    fn write_slice(&self, buf: &[u8], a: u64) -> Result<(), u64> {
        match self {
            Cont::G(g) => g.write_slice(buf, MemoryRegionAddress(a)).map_err(|e| gerr(&e)),
            _ => self.vs().write_slice(buf, a as usize).map_err(|e| verr(&e)),
        }
    }
    fn read_slice(&self, buf: &mut [u8], a: u64) -> Result<(), u64> {
        match self {
            Cont::G(g) => g.read_slice(buf, MemoryRegionAddress(a)).map_err(|e| gerr(&e)),
            _ => self.vs().read_slice(buf, a as usize).map_err(|e| verr(&e)),
        }
    }
    fn write_obj<T: ByteValued>(&self, v: T, a: u64) -> Result<(), u64> {
        match self {
            Cont::G(g) => g.write_obj(v, MemoryRegionAddress(a)).map_err(|e| gerr(&e)),
            _ => self.vs().write_obj(v, a as usize).map_err(|e| verr(&e)),
        }
    }
    fn read_obj<T: ByteValued>(&self, a: u64) -> Result<T, u64> {
        match self {
            Cont::G(g) => g.read_obj(MemoryRegionAddress(a)).map_err(|e| gerr(&e)),
            _ => self.vs().read_obj(a as usize).map_err(|e| verr(&e)),
        }
    }
    fn store<T: AtomicAccess>(&self, v: T, a: u64) -> Result<(), u64> {
        match self {
            Cont::G(g) => g.store(v, MemoryRegionAddress(a), Ordering::SeqCst).map_err(|e| gerr(&e)),
            _ => self.vs().store(v, a as usize, Ordering::SeqCst).map_err(|e| verr(&e)),
        }
    }
    fn load<T: AtomicAccess>(&self, a: u64) -> Result<T, u64> {
        match self {
            Cont::G(g) => g.load(MemoryRegionAddress(a), Ordering::SeqCst).map_err(|e| gerr(&e)),
            _ => self.vs().load(a as usize, Ordering::SeqCst).map_err(|e| verr(&e)),
        }
    }
}

/// (kind, n, buffer after)
type Out = (u64, u128, Vec<u128>);
fn unit(r: Result<(), u64>) -> Out {
    match r {
        Ok(()) => (0, 0, vec![]),
        Err(k) => (k, 0, vec![]),
    }
}

fn atomic<T: Elem + AtomicAccess>(c: &Cont, code: u64, a: u64, b: u128) -> Out {
    if code == 6 {
        unit(c.store(T::from_u(b), a))
    } else {
        match c.load::<T>(a) {
            Ok(v) => (0, v.to_u(), vec![]),
            Err(k) => (k, 0, vec![]),
        }
    }
}

fn typed<T: Elem>(cn: &Cont, code: u64, a: u64, b: u128, c: u128, d: u128, l: &[u128]) -> Out {
    let bu = b as u64 as usize;
    let au = a as usize;
    match code {
        4 => unit(cn.write_obj(T::from_u(b), a)),
        5 => match cn.read_obj::<T>(a) {
            Ok(v) => (0, v.to_u(), vec![]),
            Err(k) => (k, 0, vec![]),
        },
        8 => match cn.vs().get_ref::<T>(au) {
            Ok(r) => {
                r.store(T::from_u(b));
                (0, 0, vec![])
            }
            Err(e) => (verr(&e), 0, vec![]),
        },
        9 => match cn.vs().get_ref::<T>(au) {
            Ok(r) => (0, r.load().to_u(), vec![]),
            Err(e) => (verr(&e), 0, vec![]),
        },
        10 => match cn.vs().get_array_ref::<T>(au, bu) {
            Ok(r) => {
                r.store(c as u64 as usize, T::from_u(d));
                (0, 0, vec![])
            }
            Err(e) => (verr(&e), 0, vec![]),
        },
        11 => match cn.vs().get_array_ref::<T>(au, bu) {
            Ok(r) => (0, r.load(c as u64 as usize).to_u(), vec![]),
            Err(e) => (verr(&e), 0, vec![]),
        },
        12 => {
            let mut buf: Vec<T> = l.iter().map(|x| T::from_u(*x)).collect();
            match cn.vs().get_array_ref::<T>(au, bu) {
                Ok(r) => {
                    let k = r.copy_to(&mut buf[..]);
                    (0, k as u128, buf.iter().map(|x| x.to_u()).collect())
                }
                Err(e) => (verr(&e), 0, buf.iter().map(|x| x.to_u()).collect()),
            }
        }
        13 => {
            let buf: Vec<T> = l.iter().map(|x| T::from_u(*x)).collect();
            match cn.vs().get_array_ref::<T>(au, bu) {
                Ok(r) => {
                    r.copy_from(&buf[..]);
                    (0, 0, vec![])
                }
                Err(e) => (verr(&e), 0, vec![]),
            }
        }
        14 => {
            let s = cn.vs();
            match s.get_array_ref::<T>(au, bu) {
                Ok(r) => match s.get_slice(c as u64 as usize, d as u64 as usize) {
                    Ok(dst) => {
                        r.copy_to_volatile_slice(dst);
                        (0, 0, vec![])
                    }
                    Err(e) => (verr(&e), 0, vec![]),
                },
                Err(e) => (verr(&e), 0, vec![]),
            }
        }
        15 => {
            let mut buf: Vec<T> = l.iter().map(|x| T::from_u(*x)).collect();
            match cn.vs().get_slice(au, bu) {
                Ok(s) => {
                    let k = s.copy_to::<T>(&mut buf[..]);
                    (0, k as u128, buf.iter().map(|x| x.to_u()).collect())
                }
                Err(e) => (verr(&e), 0, buf.iter().map(|x| x.to_u()).collect()),
            }
        }
        16 => {
            let buf: Vec<T> = l.iter().map(|x| T::from_u(*x)).collect();
            match cn.vs().get_slice(au, bu) {
                Ok(s) => {
                    s.copy_from::<T>(&buf[..]);
                    (0, 0, vec![])
                }
                Err(e) => (verr(&e), 0, vec![]),
            }
        }
        _ => panic!("bad typed op"),
    }
}

// ------------------------------------------------------------------ wide element types
/// object of type T whose memory image is the given bytes
fn w_from<T: ByteValued>(b: &[u128]) -> T {
    assert!(b.len() == std::mem::size_of::<T>());
    let mut v = std::mem::MaybeUninit::<T>::uninit();
    for (i, x) in b.iter().enumerate() {
        // SAFETY: i < size_of::<T>(); every byte is written before assume_init; T is plain data
        unsafe { (v.as_mut_ptr() as *mut u8).add(i).write(*x as u8) };
    }
    // SAFETY: fully initialised
    unsafe { v.assume_init() }
}
/// memory image of an object
fn w_to<T: ByteValued>(v: &T, out: &mut Vec<u128>) {
    let p = v as *const T as *const u8;
    for i in 0..std::mem::size_of::<T>() {
        // SAFETY: inside the object
        out.push(unsafe { p.add(i).read() } as u128);
    }
}
fn w_vec<T: ByteValued>(l: &[u128]) -> Vec<T> {
    l.chunks(std::mem::size_of::<T>()).map(|c| w_from::<T>(c)).collect()
}
fn w_flat<T: ByteValued>(v: &[T]) -> Vec<u128> {
    let mut out = Vec::new();
    for x in v {
        w_to(x, &mut out);
    }
    out
}

/// the typed operations for element types wider than 16 bytes (values as byte images)
fn typed_wide<T: ByteValued>(cn: &Cont, code: u64, a: u64, b: u128, c: u128, d: u128, l: &[u128]) -> Out {
    let bu = b as u64 as usize;
    let au = a as usize;
    let img = |v: &T| {
        let mut o = Vec::new();
        w_to(v, &mut o);
        o
    };
    match code {
        4 => unit(cn.write_obj(w_from::<T>(l), a)),
        5 => match cn.read_obj::<T>(a) {
            Ok(v) => (0, 0, img(&v)),
            Err(k) => (k, 0, vec![]),
        },
        8 => match cn.vs().get_ref::<T>(au) {
            Ok(r) => {
                r.store(w_from::<T>(l));
                (0, 0, vec![])
            }
            Err(e) => (verr(&e), 0, vec![]),
        },
        9 => match cn.vs().get_ref::<T>(au) {
            Ok(r) => (0, 0, img(&r.load())),
            Err(e) => (verr(&e), 0, vec![]),
        },
        10 => match cn.vs().get_array_ref::<T>(au, bu) {
            Ok(r) => {
                r.store(c as u64 as usize, w_from::<T>(l));
                (0, 0, vec![])
            }
            Err(e) => (verr(&e), 0, vec![]),
        },
        11 => match cn.vs().get_array_ref::<T>(au, bu) {
            Ok(r) => (0, 0, img(&r.load(c as u64 as usize))),
            Err(e) => (verr(&e), 0, vec![]),
        },
        12 => {
            let mut buf: Vec<T> = w_vec(l);
            match cn.vs().get_array_ref::<T>(au, bu) {
                Ok(r) => {
                    let k = r.copy_to(&mut buf[..]);
                    (0, k as u128, w_flat(&buf))
                }
                Err(e) => (verr(&e), 0, w_flat(&buf)),
            }
        }
        13 => {
            let buf: Vec<T> = w_vec(l);
            match cn.vs().get_array_ref::<T>(au, bu) {
                Ok(r) => {
                    r.copy_from(&buf[..]);
                    (0, 0, vec![])
                }
                Err(e) => (verr(&e), 0, vec![]),
            }
        }
        14 => {
            let s = cn.vs();
            match s.get_array_ref::<T>(au, bu) {
                Ok(r) => match s.get_slice(c as u64 as usize, d as u64 as usize) {
                    Ok(dst) => {
                        r.copy_to_volatile_slice(dst);
                        (0, 0, vec![])
                    }
                    Err(e) => (verr(&e), 0, vec![]),
                },
                Err(e) => (verr(&e), 0, vec![]),
            }
        }
        15 => {
            let mut buf: Vec<T> = w_vec(l);
            match cn.vs().get_slice(au, bu) {
                Ok(s) => {
                    let k = s.copy_to::<T>(&mut buf[..]);
                    (0, k as u128, w_flat(&buf))
                }
                Err(e) => (verr(&e), 0, w_flat(&buf)),
            }
        }
        16 => {
            let buf: Vec<T> = w_vec(l);
            match cn.vs().get_slice(au, bu) {
                Ok(s) => {
                    s.copy_from::<T>(&buf[..]);
                    (0, 0, vec![])
                }
                Err(e) => (verr(&e), 0, vec![]),
            }
        }
        _ => panic!("bad typed op"),
    }
}
/// (size, tcode) of the wide element types
const WIDE_TYS: [(u64, u64); 8] = [(17, 2), (24, 2), (31, 2), (32, 2), (18, 14), (20, 16), (32, 18), (256, 18)];

macro_rules! arr_dispatch {
    ($sz:expr, $($args:expr),*) => {
        match $sz {
            0 => typed::<[u8; 0]>($($args),*), 1 => typed::<[u8; 1]>($($args),*),
            2 => typed::<[u8; 2]>($($args),*), 3 => typed::<[u8; 3]>($($args),*),
            4 => typed::<[u8; 4]>($($args),*), 5 => typed::<[u8; 5]>($($args),*),
            6 => typed::<[u8; 6]>($($args),*), 7 => typed::<[u8; 7]>($($args),*),
            8 => typed::<[u8; 8]>($($args),*), 9 => typed::<[u8; 9]>($($args),*),
            10 => typed::<[u8; 10]>($($args),*), 11 => typed::<[u8; 11]>($($args),*),
            12 => typed::<[u8; 12]>($($args),*), 13 => typed::<[u8; 13]>($($args),*),
            14 => typed::<[u8; 14]>($($args),*), 15 => typed::<[u8; 15]>($($args),*),
            16 => typed::<[u8; 16]>($($args),*),
            _ => panic!("bad array size"),
        }
    };
}

fn run_typed(cn: &Cont, code: u64, sz: u64, tc: u64, a: u64, b: u128, c: u128, d: u128, l: &[u128]) -> Out {
    match (tc, sz) {
        (0, 1) => typed::<u8>(cn, code, a, b, c, d, l),
        (0, 2) => typed::<u16>(cn, code, a, b, c, d, l),
        (0, 4) => typed::<u32>(cn, code, a, b, c, d, l),
        (0, 8) => typed::<u64>(cn, code, a, b, c, d, l),
        (0, 16) => typed::<u128>(cn, code, a, b, c, d, l),
        (0 | 2, 17) => typed_wide::<[u8; 17]>(cn, code, a, b, c, d, l),
        (0 | 2, 24) => typed_wide::<[u8; 24]>(cn, code, a, b, c, d, l),
        (0 | 2, 31) => typed_wide::<[u8; 31]>(cn, code, a, b, c, d, l),
        (0 | 2, 32) => typed_wide::<[u8; 32]>(cn, code, a, b, c, d, l),
        (14, 18) => typed_wide::<[u16; 9]>(cn, code, a, b, c, d, l),
        (16, 20) => typed_wide::<[u32; 5]>(cn, code, a, b, c, d, l),
        (18, 32) => typed_wide::<[u64; 4]>(cn, code, a, b, c, d, l),
        (18, 256) => typed_wide::<[u64; 32]>(cn, code, a, b, c, d, l),
        (0, s) | (2, s) => arr_dispatch!(s, cn, code, a, b, c, d, l),
        (1, 2) => typed::<Be16>(cn, code, a, b, c, d, l),
        (1, 4) => typed::<Be32>(cn, code, a, b, c, d, l),
        (1, 8) => typed::<Be64>(cn, code, a, b, c, d, l),
        (3, 8) => typed::<BeSize>(cn, code, a, b, c, d, l),
        (4, 1) => typed::<i8>(cn, code, a, b, c, d, l),
        (4, 2) => typed::<i16>(cn, code, a, b, c, d, l),
        (4, 4) => typed::<i32>(cn, code, a, b, c, d, l),
        (4, 8) => typed::<i64>(cn, code, a, b, c, d, l),
        (4, 16) => typed::<i128>(cn, code, a, b, c, d, l),
        (6, 2) => typed::<Le16>(cn, code, a, b, c, d, l),
        (6, 4) => typed::<Le32>(cn, code, a, b, c, d, l),
        (6, 8) => typed::<Le64>(cn, code, a, b, c, d, l),
        (8, 8) => typed::<usize>(cn, code, a, b, c, d, l),
        (10, 8) => typed::<isize>(cn, code, a, b, c, d, l),
        (12, 8) => typed::<LeSize>(cn, code, a, b, c, d, l),
        _ => panic!("bad type"),
    }
}
fn run_atomic(cn: &Cont, code: u64, sz: u64, tc: u64, a: u64, b: u128) -> Out {
    match (tc, sz) {
        (0, 1) => atomic::<u8>(cn, code, a, b),
        (0, 2) => atomic::<u16>(cn, code, a, b),
        (0, 4) => atomic::<u32>(cn, code, a, b),
        (0, 8) => atomic::<u64>(cn, code, a, b),
        (4, 1) => atomic::<i8>(cn, code, a, b),
        (4, 2) => atomic::<i16>(cn, code, a, b),
        (4, 4) => atomic::<i32>(cn, code, a, b),
        (4, 8) => atomic::<i64>(cn, code, a, b),
        (8, 8) => atomic::<usize>(cn, code, a, b),
        (10, 8) => atomic::<isize>(cn, code, a, b),
        _ => panic!("bad atomic type"),
    }
}

fn run_op(cn: &Cont, t: &[Tok]) -> Out {
    let code = t[0].u();
    let (sz, tc) = (t[1].u(), t[2].u());
    let (a, b, c, d) = (t[3].u(), t[4].n(), t[5].n(), t[6].n());
    let l = t[7].l();
    match code {
        0 => match cn.write(&t[7].bytes(), a) {
            Ok(k) => (0, k as u128, vec![]),
            Err(k) => (k, 0, vec![]),
        },
        1 => {
            let mut buf = t[7].bytes();
            let r = cn.read(&mut buf[..], a);
            let after = buf.iter().map(|x| *x as u128).collect();
            match r {
                Ok(k) => (0, k as u128, after),
                Err(k) => (k, 0, after),
            }
        }
        2 => unit(cn.write_slice(&t[7].bytes(), a)),
        3 => {
            let mut buf = t[7].bytes();
            let r = cn.read_slice(&mut buf[..], a);
            let after = buf.iter().map(|x| *x as u128).collect();
            match r {
                Ok(()) => (0, 0, after),
                Err(k) => (k, 0, after),
            }
        }
        6 | 7 => run_atomic(cn, code, sz, tc, a, b),
        17 => {
            let s = cn.vs();
            match s.get_slice(a as usize, b as u64 as usize) {
                Ok(src) => match s.get_slice(c as u64 as usize, d as u64 as usize) {
                    Ok(dst) => {
                        src.copy_to_volatile_slice(dst);
                        (0, 0, vec![])
                    }
                    Err(e) => (verr(&e), 0, vec![]),
                },
                Err(e) => (verr(&e), 0, vec![]),
            }
        }
        4 | 5 | 8..=16 => run_typed(cn, code, sz, tc, a, b, c, d, l),
        _ => panic!("bad op"),
    }
}

fn init_byte(seed: u64, i: u64) -> u8 {
    ((seed + i * 7 + i / 64) % 256) as u8
}

fn exec(case: &[Tok]) -> Vec<Tok> {
    let kind = case[0].u();
    let (hbm, pre, nn, post, seed) =
        (case[2].u() as usize, case[3].u() as usize, case[4].u() as usize, case[5].u() as usize, case[6].u());
    assert!(hbm < PAGE && pre + nn + post <= 65536 && kind <= 2);
    assert!((case.len() - 7) % 8 == 0);
    let total = pre + nn + post;
    let arena = Arena::new();
    // SAFETY: hbm + total <= ARENA
    let heap = unsafe { arena.0.add(hbm) };
    for i in 0..total {
        // SAFETY: inside the arena
        unsafe { heap.add(i).write_volatile(init_byte(seed, i as u64)) };
    }
    // SAFETY: inside the arena
    let cptr = unsafe { heap.add(pre) };
    let mmap: Option<MmapRegion> = if kind == 1 {
        // SAFETY: the memory outlives the region (dropped before the arena); not owned by the region
        Some(unsafe {
            MmapRegion::build_raw(cptr, nn, libc::PROT_READ | libc::PROT_WRITE, libc::MAP_ANONYMOUS | libc::MAP_PRIVATE)
                .unwrap()
        })
    } else {
        None
    };
    let guest: Option<GuestRegionMmap> = if kind == 2 {
        // SAFETY: as above
        let m = unsafe {
            MmapRegion::build_raw(cptr, nn, libc::PROT_READ | libc::PROT_WRITE, libc::MAP_ANONYMOUS | libc::MAP_PRIVATE)
                .unwrap()
        };
        Some(GuestRegionMmap::new(m, GuestAddress(0x1000_0000)).unwrap())
    } else {
        None
    };
    let cn = match kind {
        // SAFETY: cptr..cptr+nn is inside the arena, which outlives the slice
        0 => Cont::S(unsafe { VolatileSlice::new(cptr, nn) }),
        1 => Cont::M(mmap.as_ref().unwrap()),
        _ => Cont::G(guest.as_ref().unwrap()),
    };
    let snapshot = |v: &mut Vec<u8>| {
        v.clear();
        for i in 0..total {
            // SAFETY: inside the arena; raw read, independent of every accessor
            v.push(unsafe { heap.add(i).read_volatile() });
        }
    };
    let mut shadow: Vec<u8> = Vec::with_capacity(total);
    snapshot(&mut shadow);
    let mut cur: Vec<u8> = Vec::with_capacity(total);
    let mut out = Vec::new();
    for t in case[7..].chunks(8) {
        let code = t[0].u();
        let (kind_, n_, buf_) = match util::catch(|| run_op(&cn, t)) {
            Some(o) => o,
            None => (7, 0, if matches!(code, 1 | 3 | 12 | 15) { t[7].l().to_vec() } else { vec![] }),
        };
        snapshot(&mut cur);
        let mut di = Vec::new();
        let mut dv = Vec::new();
        for i in 0..total {
            if cur[i] != shadow[i] {
                di.push(i as u128);
                dv.push(cur[i] as u128);
            }
        }
        std::mem::swap(&mut shadow, &mut cur);
        out.push(n(kind_));
        out.push(Tok::N(n_));
        out.push(Tok::L(buf_));
        out.push(Tok::L(di));
        out.push(Tok::L(dv));
    }
    out
}

// ------------------------------------------------------------------------------------------ gen
const INT_SIZES: [u64; 5] = [1, 2, 4, 8, 16];

fn mask(v: u128, sz: u64) -> u128 {
    if sz >= 16 {
        v
    } else if sz == 0 {
        0
    } else {
        v & ((1u128 << (8 * sz)) - 1)
    }
}
fn rand_val(rng: &mut Rng, sz: u64) -> u128 {
    let v = ((rng.next() as u128) << 64) | rng.next() as u128;
    mask(v, sz)
}
/// (size, tcode) of a ByteValued type
fn pick_ty(rng: &mut Rng) -> (u64, u64) {
    match rng.below(10) {
        0..=3 => (*rng.pick(&INT_SIZES), 0),
        4 => (*rng.pick(&INT_SIZES), 4),
        5 | 6 => (rng.below(17), 2),
        7 => (*rng.pick(&[2u64, 4, 8]), 1),
        8 => (*rng.pick(&[2u64, 4, 8]), 6),
        _ => (8, *rng.pick(&[8u64, 10, 12, 3])),
    }
}
fn pick_aty(rng: &mut Rng) -> (u64, u64) {
    match rng.below(8) {
        0..=4 => (*rng.pick(&[1u64, 2, 4, 8]), 0),
        5 | 6 => (*rng.pick(&[1u64, 2, 4, 8]), 4),
        _ => (8, *rng.pick(&[8u64, 10])),
    }
}
/// an offset inside / touching / past the end of a container of nn bytes
fn pick_off(rng: &mut Rng, nn: u64) -> u64 {
    match rng.below(16) {
        0 => 0,
        1 => nn,
        2 => nn.saturating_sub(1),
        3 => nn + 1,
        4 => nn.saturating_sub(rng.below(20)),
        5 => nn + rng.below(4),
        6 => *rng.pick(&[u64::MAX, u64::MAX - 1, 1 << 63, (1 << 63) - 1, u64::MAX - nn, 1 << 32]),
        _ => {
            if nn == 0 {
                0
            } else {
                rng.below(nn)
            }
        }
    }
}
/// a length 0..24, biased to touch / cross the end from `off`
fn pick_len(rng: &mut Rng, nn: u64, off: u64) -> u64 {
    let room = nn.saturating_sub(off);
    let l = match rng.below(10) {
        0 => 0,
        1 => room,
        2 => room + 1,
        3 => room.saturating_sub(1),
        4 => *rng.pick(&[7u64, 8, 9, 16]),
        _ => rng.below(25),
    };
    l.min(24)
}
fn op_tokens(code: u64, sz: u64, tc: u64, a: u64, b: u128, c: u128, d: u128, l: Vec<u128>) -> Vec<Tok> {
    vec![n(code), n(sz), n(tc), n(a), Tok::N(b), Tok::N(c), Tok::N(d), Tok::L(l)]
}
fn rand_bytes(rng: &mut Rng, k: u64) -> Vec<u128> {
    (0..k).map(|_| (rng.next() & 0xff) as u128).collect()
}
/// an element count making off + cnt*sz land around the end, sometimes huge
fn pick_cnt(rng: &mut Rng, nn: u64, off: u64, sz: u64) -> u64 {
    let room = nn.saturating_sub(off);
    let fit = if sz == 0 { rng.below(8) } else { room / sz };
    match rng.below(12) {
        0 => fit + 1,
        1 => fit.saturating_sub(1),
        2 => 0,
        3 => *rng.pick(&[u64::MAX, 1 << 63, (1 << 63) - 1, (1u64 << 63) / sz.max(1), ((1u64 << 63) / sz.max(1)) + 1, 1 << 60]),
        4 | 5 => rng.below(fit + 2),
        _ => fit,
    }
}

/// one typed operation on a wide element type (values as byte images in the list token)
fn gen_wide_op(rng: &mut Rng, nn: u64, code: u64, sz: u64, tc: u64, off: u64) -> Vec<Tok> {
    match code {
        4 | 8 => op_tokens(code, sz, tc, off, 0, 0, 0, rand_bytes(rng, sz)),
        5 | 9 => op_tokens(code, sz, tc, off, 0, 0, 0, vec![]),
        10 | 11 => {
            let cnt = pick_cnt(rng, nn, off, sz);
            let idx = match rng.below(6) {
                0 => cnt,
                1 => cnt.saturating_sub(1),
                _ => rng.below(cnt.min(8) + 1),
            };
            op_tokens(code, sz, tc, off, cnt as u128, idx as u128, 0, if code == 10 { rand_bytes(rng, sz) } else { vec![] })
        }
        12 | 13 => {
            let cnt = pick_cnt(rng, nn, off, sz);
            let k = rng.below(if sz > 64 { 3 } else { 6 });
            op_tokens(code, sz, tc, off, cnt as u128, 0, 0, rand_bytes(rng, k * sz))
        }
        14 => {
            let cnt = pick_cnt(rng, nn, off, sz);
            let off2 = pick_off(rng, nn);
            let cnt2 = rng.below(nn.saturating_sub(off2) + 2);
            op_tokens(code, sz, tc, off, cnt as u128, off2 as u128, cnt2 as u128, vec![])
        }
        _ => {
            let b = rng.below(nn.saturating_sub(off) + 2);
            let k = rng.below(if sz > 64 { 3 } else { 6 });
            op_tokens(code, sz, tc, off, b as u128, 0, 0, rand_bytes(rng, k * sz))
        }
    }
}

fn gen_op(rng: &mut Rng, nn: u64) -> Vec<Tok> {
    let code = match rng.below(24) {
        x @ 0..=17 => x,
        18 => 0,
        19 => 1,
        20 => 12,
        21 => 13,
        22 => 15,
        _ => 16,
    };
    if matches!(code, 4 | 5 | 8..=16) && rng.chance(1, 7) {
        let (sz, tc) = *rng.pick(&WIDE_TYS);
        let mut off = pick_off(rng, nn);
        if rng.chance(1, 2) {
            off = nn.saturating_sub(sz + rng.below(3));
        }
        return gen_wide_op(rng, nn, code, sz, tc, off);
    }
    match code {
        0 | 2 => {
            let a = pick_off(rng, nn);
            let k = pick_len(rng, nn, a);
            op_tokens(code, 0, 0, a, 0, 0, 0, rand_bytes(rng, k))
        }
        1 | 3 => {
            let a = pick_off(rng, nn);
            let k = pick_len(rng, nn, a);
            op_tokens(code, 0, 0, a, 0, 0, 0, rand_bytes(rng, k))
        }
        4 | 5 | 8 | 9 => {
            let (sz, tc) = pick_ty(rng);
            let mut a = pick_off(rng, nn);
            if rng.chance(1, 3) {
                a = nn.saturating_sub(sz) + rng.below(3);
                a = a.saturating_sub(1);
            }
            op_tokens(code, sz, tc, a, rand_val(rng, sz), 0, 0, vec![])
        }
        6 | 7 => {
            let (sz, tc) = pick_aty(rng);
            let mut a = pick_off(rng, nn);
            if rng.chance(2, 3) {
                // mostly aligned positions, also the last aligned slot and the one past it
                a = match rng.below(3) {
                    0 => (nn / sz) * sz,
                    1 => (nn / sz).saturating_sub(1) * sz,
                    _ => rng.below(nn / sz + 1) * sz,
                };
                if rng.chance(1, 6) {
                    a += rng.below(sz);
                }
            }
            op_tokens(code, sz, tc, a, rand_val(rng, sz), 0, 0, vec![])
        }
        10 | 11 => {
            let (sz, tc) = pick_ty(rng);
            let off = pick_off(rng, nn);
            let cnt = pick_cnt(rng, nn, off, sz);
            let idx = match rng.below(6) {
                0 => cnt,
                1 => cnt.saturating_sub(1),
                2 => cnt.wrapping_add(1),
                _ => rng.below(cnt.min(64) + 1),
            };
            op_tokens(code, sz, tc, off, cnt as u128, idx as u128, rand_val(rng, sz), vec![])
        }
        12 | 13 | 15 | 16 => {
            let (sz, tc) = pick_ty(rng);
            let off = pick_off(rng, nn);
            let b = if code <= 13 { pick_cnt(rng, nn, off, sz) } else { pick_len(rng, nn, off).max(rng.below(41)).min(nn + 2) };
            let k = rng.below(25);
            let l = (0..k).map(|_| rand_val(rng, sz)).collect();
            op_tokens(code, sz, tc, off, b as u128, 0, 0, l)
        }
        14 => {
            let (sz, tc) = pick_ty(rng);
            let off = pick_off(rng, nn);
            let cnt = pick_cnt(rng, nn, off, sz);
            let off2 = pick_off(rng, nn);
            let cnt2 = pick_len(rng, nn, off2).max(rng.below(41)).min(nn.saturating_sub(off2) + rng.below(2));
            op_tokens(code, sz, tc, off, cnt as u128, off2 as u128, cnt2 as u128, vec![])
        }
        _ => {
            let off = pick_off(rng, nn);
            let cnt = rng.below(nn.saturating_sub(off) + 2);
            let off2 = if rng.bool() { pick_off(rng, nn) } else { off.saturating_add(rng.below(6)).saturating_sub(3) };
            let cnt2 = rng.below(nn.saturating_sub(off2) + 2);
            op_tokens(17, 0, 0, off, cnt as u128, off2 as u128, cnt2 as u128, vec![])
        }
    }
}

fn header(kind: u64, al: u64, nn: u64, seed: u64) -> Vec<Tok> {
    let pre = 64u64;
    let hbm = (PAGE as u64 - pre + al) % PAGE as u64;
    vec![n(kind), n(crate::build_mode()), n(hbm), n(pre), n(nn), n(64u8), n(seed)]
}

fn gen(rng: &mut Rng, tier: Tier, emit: &mut dyn FnMut(Vec<Tok>)) {
    let quick = tier == Tier::Quick;
    // 1. small universe, one operation per history: every (size, offset, length) for the four
    //    byte-buffer transfers, on a slice and on a guest region
    let top = if quick { 6 } else { 12 };
    for nn in 0..=top {
        for a in 0..=nn + 1 {
            for k in 0..=nn + 2 {
                for code in 0..4u64 {
                    for kind in [0u64, 2] {
                        let mut c = header(kind, if kind == 0 { (nn + a) % 16 } else { 0 }, nn, (nn * 31 + a) % 256);
                        c.extend(op_tokens(code, 0, 0, a, 0, 0, 0, rand_bytes(rng, k)));
                        emit(c);
                    }
                }
            }
        }
    }
    // 2. every element size x every offset near the end: object / ref / array round trips
    for sz in 0..=16u64 {
        for nn in [0u64, 1, 15, 16, 17, 33] {
            for a in nn.saturating_sub(sz + 1)..=nn + 1 {
                let mut c = header(0, a % 16, nn, (sz * 7 + a) % 256);
                let tc = if INT_SIZES.contains(&sz) && a % 2 == 0 { 0 } else { 2 };
                let v = rand_val(rng, sz);
                c.extend(op_tokens(4, sz, tc, a, v, 0, 0, vec![]));
                c.extend(op_tokens(5, sz, tc, a, 0, 0, 0, vec![]));
                c.extend(op_tokens(9, sz, tc, a, 0, 0, 0, vec![]));
                c.extend(op_tokens(8, sz, tc, a, rand_val(rng, sz), 0, 0, vec![]));
                c.extend(op_tokens(11, sz, tc, a, 1, 0, 0, vec![]));
                c.extend(op_tokens(15, sz, tc, 0, nn as u128, 0, 0, (0..3).map(|_| rand_val(rng, sz)).collect()));
                emit(c);
            }
        }
    }
    // 2b. wide element types (17..256 bytes): every typed route, at offsets around the end of
    //     containers around the element size; the store is followed by loads through the other routes
    for &(sz, tc) in &WIDE_TYS {
        for nn in [sz - 1, sz, sz + 1, sz + 9, 2 * sz + 3] {
            for a in [0u64, 1, nn.saturating_sub(sz + 1), nn.saturating_sub(sz), nn.saturating_sub(sz) + 1, nn] {
                for kind in if quick { vec![0u64] } else { vec![0u64, 1, 2] } {
                    let mut c = header(kind, if kind == 0 { (a + sz) % 16 } else { 0 }, nn, (sz * 7 + a) % 256);
                    for code in [4u64, 5, 9, 8, 5, 11, 10, 9, 13, 12, 16, 15, 14] {
                        c.extend(gen_wide_op(rng, nn, code, sz, tc, a));
                    }
                    emit(c);
                }
            }
        }
    }
    // 3. random histories
    let ncases = if quick { 2200 } else { 40_000 };
    for i in 0..ncases {
        let kind = match i % 6 {
            0..=2 => 0,
            3 | 4 => 2,
            _ => 1,
        };
        let nn = match rng.below(10) {
            0 => *rng.pick(&[4095u64, 4096, 4097]),
            1 => *rng.pick(&[0u64, 1, 7, 8, 9, 16, 24, 32, 40]),
            _ => rng.below(41),
        };
        let al = if kind == 0 {
            if rng.bool() {
                rng.below(16)
            } else {
                *rng.pick(&[0u64, 1, 2, 4, 8])
            }
        } else {
            0
        };
        let nops = if rng.chance(1, 4) { rng.range(1, 5) } else { rng.range(1, 50) };
        let mut c = header(kind, al, nn, rng.below(256));
        for _ in 0..nops {
            c.extend(gen_op(rng, nn));
        }
        emit(c);
    }
}

// ========================================================================== C04big: LARGE transfers
// (suite C04big) one bulk operation on a container of up to 1 MiB; contents are NOT on the wire.
// case: kind al n route size off cnt blen off2 cnt2 salt
//   kind 0 VolatileSlice / 1 MmapRegion; container = bytes [64, 64+n) of a buffer with 64-byte margins
//   whose first byte sits at a page boundary + al; heap byte i = (i*31 + salt) % 127 (< 127), caller's
//   buffer byte j = 128 + (j*17 + salt) % 127 (>= 128: every byte written from the buffer changes the heap)
//   route: 0 write 1 read 2 write_slice 3 read_slice (blen bytes at off); 12/13 get_array_ref(off,cnt)
//   .copy_to/.copy_from(buffer of blen elements); 14 ….copy_to_volatile_slice(get_slice(off2,cnt2));
//   15/16 get_slice(off,cnt).copy_to/copy_from::<T>(blen elements); 17 get_slice(off,cnt)
//   .copy_to_volatile_slice(get_slice(off2,cnt2)).  size = size_of::<T>() in {1,2,4,8,16,3}
// obs: kind count bufdiff heapdiff first last
//   bufdiff / heapdiff: first index where the caller's buffer / the whole heap (margins included) differs
//   from the EXPECTED result, which is computed here with plain slice copies from the request alone
//   (independently of what the library answered); first / last: first and last heap position whose byte
//   changed at all.  ffffffffffffffff = none.
const BNONE: u128 = u64::MAX as u128;

fn first_diff(a: &[u8], b: &[u8]) -> u128 {
    assert!(a.len() == b.len());
    a.iter().zip(b.iter()).position(|(x, y)| x != y).map(|i| i as u128).unwrap_or(BNONE)
}

fn exec_big(case: &[Tok]) -> Vec<Tok> {
    let (kind, al, nn, route, sz) = (case[0].u(), case[1].u() as usize, case[2].u() as usize, case[3].u(), case[4].u() as usize);
    let (off, cnt, blen, off2, cnt2, salt) =
        (case[5].u() as usize, case[6].u() as usize, case[7].u() as usize, case[8].u() as usize, case[9].u() as usize, case[10].u() as usize);
    assert!(kind <= 1 && al < 16 && nn <= 1 << 21 && blen <= 1 << 21 && matches!(sz, 1 | 2 | 3 | 4 | 8 | 16));
    let pre = 64usize;
    let total = pre + nn + 64;
    let lay = std::alloc::Layout::from_size_align(total + 2 * PAGE, PAGE).unwrap();
    // SAFETY: non-zero size
    let raw = unsafe { std::alloc::alloc_zeroed(lay) };
    assert!(!raw.is_null());
    assert!(kind == 0 || al == 0); // build_raw wants a page-aligned container
    // SAFETY: inside the allocation; the CONTAINER (heap + 64) sits at a page boundary + al
    let heap = unsafe { raw.add(PAGE - pre + al) };
    let init: Vec<u8> = (0..total).map(|i| ((i * 31 + salt) % 127) as u8).collect();
    // SAFETY: inside the allocation
    unsafe { std::ptr::copy_nonoverlapping(init.as_ptr(), heap, total) };
    let buf_bytes = if route <= 3 { blen } else if matches!(route, 14 | 17) { 0 } else { blen * sz };
    let buf0: Vec<u8> = (0..buf_bytes).map(|j| 128 + ((j * 17 + salt) % 127) as u8).collect();

    // ---- the expected result, from the request alone (plain slices)
    let mut heap_exp = init.clone();
    let mut buf_exp = buf0.clone();
    let fits = |o: usize, b: usize| (o as u128) + (b as u128) <= nn as u128;
    match route {
        0 | 2 => {
            if blen > 0 && off < nn {
                let k = blen.min(nn - off);
                heap_exp[pre + off..pre + off + k].copy_from_slice(&buf0[..k]);
            }
        }
        1 | 3 => {
            if blen > 0 && off < nn {
                let k = blen.min(nn - off);
                buf_exp[..k].copy_from_slice(&init[pre + off..pre + off + k]);
            }
        }
        12 | 13 | 15 | 16 => {
            let elems = if route <= 13 { cnt } else { cnt / sz };
            let acc = if route <= 13 { cnt * sz } else { cnt };
            if fits(off, acc) {
                let k = blen.min(elems) * sz;
                if route == 12 || route == 15 {
                    buf_exp[..k].copy_from_slice(&init[pre + off..pre + off + k]);
                } else {
                    heap_exp[pre + off..pre + off + k].copy_from_slice(&buf0[..k]);
                }
            }
        }
        14 | 17 => {
            let bytes = if route == 14 { cnt * sz } else { cnt };
            if fits(off, bytes) && fits(off2, cnt2) {
                let k = bytes.min(cnt2);
                heap_exp.copy_within(pre + off..pre + off + k, pre + off2);
            }
        }
        _ => panic!("bad route"),
    }

    // ---- the real library
    // SAFETY: inside the allocation
    let cptr = unsafe { heap.add(pre) };
    let mmap: Option<MmapRegion> = if kind == 1 {
        // SAFETY: the memory outlives the region; not owned by it
        Some(unsafe { MmapRegion::build_raw(cptr, nn, libc::PROT_READ | libc::PROT_WRITE, libc::MAP_ANONYMOUS | libc::MAP_PRIVATE).unwrap() })
    } else {
        None
    };
    let cn = match kind {
        // SAFETY: inside the allocation, which outlives the slice
        0 => Cont::S(unsafe { VolatileSlice::new(cptr, nn) }),
        _ => Cont::M(mmap.as_ref().unwrap()),
    };
    let l: Vec<u128> = buf0.iter().map(|x| *x as u128).collect();
    let (a, b, c, d) = (off as u64, cnt as u128, off2 as u128, cnt2 as u128);
    let res: Option<Out> = util::catch(|| match route {
        0..=3 | 17 => run_op(&cn, &op_tokens(route, 0, 0, a, b, c, d, l.clone())),
        _ => match sz {
            1 => typed_wide::<u8>(&cn, route, a, b, c, d, &l),
            2 => typed_wide::<u16>(&cn, route, a, b, c, d, &l),
            4 => typed_wide::<u32>(&cn, route, a, b, c, d, &l),
            8 => typed_wide::<u64>(&cn, route, a, b, c, d, &l),
            16 => typed_wide::<u128>(&cn, route, a, b, c, d, &l),
            _ => typed_wide::<[u8; 3]>(&cn, route, a, b, c, d, &l),
        },
    });
    let (k_, n_, after) = match res {
        Some(o) => o,
        None => (7, 0, l.clone()),
    };
    // buffer after the call: the routes that hand a buffer back report it; the others leave it alone
    let buf_after: Vec<u8> = if matches!(route, 1 | 3 | 12 | 15) { after.iter().map(|x| *x as u8).collect() } else { buf0.clone() };
    let mut cur = vec![0u8; total];
    // SAFETY: raw read of the whole heap, independent of every accessor
    unsafe { std::ptr::copy_nonoverlapping(heap as *const u8, cur.as_mut_ptr(), total) };
    let first = first_diff(&cur, &init);
    let last = cur.iter().zip(init.iter()).rposition(|(x, y)| x != y).map(|i| i as u128).unwrap_or(BNONE);
    let out = vec![n(k_), Tok::N(n_), Tok::N(first_diff(&buf_after, &buf_exp)), Tok::N(first_diff(&cur, &heap_exp)), Tok::N(first), Tok::N(last)];
    drop(cn);
    drop(mmap);
    // SAFETY: allocated with the same layout
    unsafe { std::alloc::dealloc(raw, lay) };
    out
}

fn gen_big(rng: &mut Rng, tier: Tier, emit: &mut dyn FnMut(Vec<Tok>)) {
    let quick = tier == Tier::Quick;
    let cap: u64 = if quick { 65536 } else { 1 << 20 };
    let idx = std::cell::Cell::new(0u64);
    let case = |kind: u64, nn: u64, route: u64, sz: u64, off: u64, cnt: u64, blen: u64, off2: u64, cnt2: u64, emit: &mut dyn FnMut(Vec<Tok>)| {
        idx.set(idx.get() + 1);
        let i = idx.get();
        emit(vec![n(kind), n(if kind == 1 { 0 } else { i % 16 }), n(nn), n(route), n(sz), n(off), n(cnt), n(blen), n(off2), n(cnt2), n(i * 7 % 127)]);
    };
    for sz in [1u64, 2, 4, 8, 16, 3] {
        let mut counts: Vec<u64> = vec![1023, 1024, 1025, 2047, 2048, 2049, 4096, 8191, 65536 / sz, 65536 / sz - 1];
        if !quick {
            counts.extend([16383, 16384, 16385, (1 << 20) / sz - 3]);
        }
        for &cnt in &counts {
            for off in [0u64, 5] {
                let bytes = cnt * sz;
                // typed routes
                for route in [12u64, 13, 15, 16] {
                    let acc = if route <= 13 { cnt } else { bytes + (cnt % 2) * (sz - 1) };
                    for (slack, blen) in [(0u64, cnt), (9, cnt + 3), (0, cnt - 1), (9, cnt)] {
                        let nn = off + bytes + (cnt % 2) * (sz - 1) + slack;
                        if nn <= cap {
                            case(idx.get() % 2, nn, route, sz, off, acc, blen, 0, 0, emit);
                        }
                    }
                    // an accessor one byte too long: refused, nothing moves
                    let nn = off + if route <= 13 { bytes } else { acc };
                    if nn <= cap && cnt % 3 == 0 {
                        case(0, nn - 1, route, sz, off, acc, cnt, 0, 0, emit);
                    }
                }
                // heap-to-heap
                for route in [14u64, 17] {
                    let src = if route == 14 { cnt } else { bytes };
                    let mut off2 = off + bytes + 13;
                    if (off2 - off) % 127 == 0 {
                        off2 += 1;
                    }
                    for cnt2 in [bytes, bytes - 1, bytes + 5] {
                        let nn = off2 + cnt2 + (cnt % 2) * 9;
                        if nn <= cap {
                            case(idx.get() % 2, nn, route, sz, off, src, 0, off2, cnt2, emit);
                        }
                    }
                    // overlapping move (memmove semantics), destination below / above the source
                    let sh = 1 + rng.below(100);
                    let nn = off + sh + bytes + 3;
                    if nn <= cap && sh % 127 != 0 {
                        case(0, nn, route, sz, off + sh, src, 0, off, bytes, emit);
                        case(0, nn, route, sz, off, src, 0, off + sh, bytes, emit);
                    }
                }
                // byte-buffer routes (the element size plays no part)
                if sz <= 2 {
                    for route in 0..4u64 {
                        for nn in [off + bytes, off + bytes + 9, off + bytes - 3] {
                            if nn <= cap {
                                case(idx.get() % 2, nn, route, 1, off, 0, bytes, 0, 0, emit);
                            }
                        }
                    }
                }
            }
        }
    }
}
