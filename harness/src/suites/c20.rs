//! C20: endian wrappers.  case: type(0..7 = Le16 Le32 Le64 LeSize Be16 Be32 Be64 BeSize) v x
//! obs: [bytes in guest memory after write_obj(wrapper)] to_native (w==x) (x==w) (w!=x) (x!=w) size align native_size native_align routes_agree
use crate::tok::{n, us};
use crate::{Rng, Suite, Tier, Tok};
use std::mem::{align_of, size_of};
use vm_memory::{Be16, Be32, Be64, BeSize, Bytes, Le16, Le32, Le64, LeSize, VolatileMemory, VolatileSlice};

pub const SUITES: &[Suite] = &[Suite { name: "C20", gen, exec }];

macro_rules! run {
    ($W:ty, $U:ty, $v:expr, $x:expr) => {{
        let v = $v as $U;
        let x = $x as $U;
        let w: $W = <$W>::from(v);
        // store the wrapper into (misaligned) guest memory and read the raw bytes back through the host pointer
        let mut backing = [0xa5u8; 32];
        let ptr = backing.as_mut_ptr();
        {
            let vs = unsafe { VolatileSlice::new(ptr, 32) };
            vs.write_obj(w, 3).unwrap();
            // and the typed-reference route must produce the same bytes
            let vs2 = vs.get_slice(16, size_of::<$W>()).unwrap();
            vs2.write_obj(w, 0).unwrap();
        }
        // a table of wrappers stored element by element through an array reference (index >= 1 matters:
        // element i must land at byte offset i * size_of::<W>()) and read back as raw bytes
        let mut table = [0x5au8; 64];
        let tptr = table.as_mut_ptr();
        let mut table_ok = true;
        {
            let vt = unsafe { VolatileSlice::new(tptr, 64) };
            let arr = vt.get_array_ref::<$W>(1, 3).unwrap();
            arr.store(2, w);
            arr.store(1, w);
            table_ok &= arr.load(1).to_native() == v && arr.load(2).to_native() == v;
            let mut out = [<$W>::from(0 as $U); 3];
            arr.copy_to(&mut out[..]);
            table_ok &= out[1].to_native() == v && out[2].to_native() == v;
        }
        let sz = size_of::<$W>();
        let bytes: Vec<u8> = backing[3..3 + size_of::<$W>()].to_vec();
        let bytes2: Vec<u8> = backing[16..16 + size_of::<$W>()].to_vec();
        table_ok &= table[1 + sz..1 + 2 * sz] == bytes[..] && table[1 + 2 * sz..1 + 3 * sz] == bytes[..];
        table_ok &= table[0] == 0x5a && table[1 + 3 * sz..].iter().all(|b| *b == 0x5a);
        let native: $U = w.to_native();
        let native2: $U = <$U>::from(w);
        let mut out = vec![
            Tok::of_bytes(&bytes),
            n(native as u64),
            Tok::b(w == x),
            Tok::b(x == w),
            Tok::b(w != x),
            Tok::b(x != w),
            us(size_of::<$W>()),
            us(align_of::<$W>()),
            us(size_of::<$U>()),
            us(align_of::<$U>()),
        ];
        // do all storage routes agree (typed reference, element array at index >= 1, bulk array copy)?
        out.push(Tok::b(bytes == bytes2 && native == native2 && table_ok));
        out
    }};
}

fn exec(case: &[Tok]) -> Vec<Tok> {
    let (ty, v, x) = (case[0].u(), case[1].u(), case[2].u());
    match ty {
        0 => run!(Le16, u16, v, x),
        1 => run!(Le32, u32, v, x),
        2 => run!(Le64, u64, v, x),
        3 => run!(LeSize, usize, v, x),
        4 => run!(Be16, u16, v, x),
        5 => run!(Be32, u32, v, x),
        6 => run!(Be64, u64, v, x),
        7 => run!(BeSize, usize, v, x),
        _ => panic!("bad type"),
    }
}

fn structured(bits: u32) -> Vec<u64> {
    let mask: u64 = if bits == 64 { u64::MAX } else { (1u64 << bits) - 1 };
    let mut v = vec![0, 1, 0xff, 0x100, 0xff00, 0x0102030405060708, 0x8000000000000000, 0x00ff00ff00ff00ff,
                     0x1122334455667788, u64::MAX, 0xfffe, 0x7fff_ffff, 0x8000_0000, 0xdeadbeef];
    for i in 0..(bits / 8) {
        v.push(0xabu64 << (8 * i));
        v.push(!(0xffu64 << (8 * i)));
    }
    v.iter().map(|x| x & mask).collect()
}

fn gen(rng: &mut Rng, tier: Tier, emit: &mut dyn FnMut(Vec<Tok>)) {
    let mut case = |ty: u64, v: u64, x: u64| emit(vec![n(ty), n(v), n(x)]);
    // 16-bit types: every value, compared with itself, its byte swap and a neighbour
    for ty in [0u64, 4] {
        for v in 0..=0xffffu64 {
            let x = match v % 3 {
                0 => v,
                1 => (v as u16).swap_bytes() as u64,
                _ => (v + 1) & 0xffff,
            };
            case(ty, v, x);
        }
    }
    for (ty, bits) in [(1u64, 32u32), (2, 64), (3, 64), (5, 32), (6, 64), (7, 64)] {
        let mask: u64 = if bits == 64 { u64::MAX } else { (1u64 << bits) - 1 };
        let st = structured(bits);
        for &v in &st {
            case(ty, v, v);
            case(ty, v, if bits == 32 { (v as u32).swap_bytes() as u64 } else { v.swap_bytes() });
            case(ty, v, *rng.pick(&st));
        }
        let nrand = if tier == Tier::Quick { 8_000 } else { 400_000 };
        for _ in 0..nrand {
            let v = rng.next() & mask;
            let x = match rng.below(3) {
                0 => v,
                1 => if bits == 32 { (v as u32).swap_bytes() as u64 } else { v.swap_bytes() },
                _ => rng.next() & mask,
            };
            case(ty, v, x);
        }
    }
    // thorough: all 2^32 values of the 32-bit types against std's to_le_bytes/to_be_bytes, inside the harness
    // (the per-value result is summarised as one case per 2^24 block: the first value of the block whose bytes differ,
    // else the block's last value - which is then also judged by the model)
    if tier == Tier::Thorough {
        for ty in [1u64, 5] {
            for blk in 0..256u64 {
                let mut witness = (blk << 24) | 0xffffff;
                for lo in 0..(1u64 << 24) {
                    let v = ((blk << 24) | lo) as u32;
                    let ok = if ty == 1 {
                        let w = Le32::from(v);
                        let b: [u8; 4] = unsafe { std::mem::transmute(w) };
                        b == v.to_le_bytes() && w.to_native() == v
                    } else {
                        let w = Be32::from(v);
                        let b: [u8; 4] = unsafe { std::mem::transmute(w) };
                        b == v.to_be_bytes() && w.to_native() == v
                    };
                    if !ok {
                        witness = v as u64;
                        break;
                    }
                }
                case(ty, witness, witness);
            }
        }
    }
}
