//! C11: snapshots of a GuestMemoryAtomic<GuestMemoryMmap> stay whole and usable during replacement.
//!
//! Suite C11 (sequential histories).  case: ONE list [code,arg, code,arg, ...]
//!   0 Load t | 1 Clone h | 2 IntoInner h | 3 Use h | 4 Drop h | 5 Lock t | 6 ReadCur t | 7 Replace t | 8 Unlock t
//!   t = thread slot (each slot owns its own clone of the GuestMemoryAtomic), h = handle id (handles
//!   are numbered in creation order and never reused).
//! obs: ONE list [st,val,live, ...] per operation: st 1 done / 0 not possible, val = id of the map
//!   seen through the handle (read from the region BYTES through the raw host pointer and cross-checked
//!   against the region list: a map that is not whole reads as 0xbad....), live = bit g set iff the
//!   uniquely named backing files of map g are still in /proc/self/maps.
//! Map g consists of one shared region (guest 0) plus 1 + g%2 private "tag" regions at guest
//! 0x100000*(g+1) + 0x10000*j, each a memfd named vmh11_<case>_m<g>_<j> holding [g, j, MAGIC^g].
//! A replacement derives the new map from the one read under the lock (remove_region of the old tag
//! regions, insert_region of the new ones), or builds it from scratch when no ReadCur preceded.
//!
//! Suite C11probe: structure probes without source hooks (see coq/Spec/C11.v).
//! Suite C11mt: multi-thread stress with tag validation.
use crate::Suite;
// the unix (non-xen) mmap backend is the subject; under the harness feature `xen` the suite is empty
#[cfg(not(feature = "xen"))]
pub const SUITES: &[Suite] = imp::SUITES_IMPL;
#[cfg(feature = "xen")]
pub const SUITES: &[Suite] = &[];

#[cfg(not(feature = "xen"))]
pub mod imp {
use crate::tok::n;
use crate::{util, Rng, Suite, Tier, Tok};
use std::collections::HashMap;
use std::os::unix::io::FromRawFd;
use std::sync::atomic::{AtomicBool, AtomicU64, Ordering};
use std::sync::{mpsc, Arc, Mutex};
use std::time::Duration;
use vm_memory::atomic::GuestMemoryExclusiveGuard;
use vm_memory::{
    FileOffset, GuestAddress, GuestAddressSpace, GuestMemory, GuestMemoryAtomic, GuestMemoryLoadGuard,
    GuestMemoryMmap, GuestMemoryRegion, GuestRegionMmap, MmapRegion,
};

pub const SUITES_IMPL: &[Suite] = &[
    Suite { name: "C11", gen, exec },
    Suite { name: "C11probe", gen: gen_probe, exec: exec_probe },
    Suite { name: "C11mt", gen: gen_mt, exec: exec_mt },
];

type M = GuestMemoryMmap<()>;
type R = GuestRegionMmap<()>;
type A = GuestMemoryAtomic<M>;
const PAGE: usize = 0x1000;
const MAGIC: u64 = 0x5eed_c0de_0000_0011;
static CASE: AtomicU64 = AtomicU64::new(0);

pub fn memfd(name: &str, size: usize) -> std::fs::File {
    let c = std::ffi::CString::new(name).unwrap();
    // SAFETY: plain syscalls on a fresh descriptor
    unsafe {
        let fd = libc::memfd_create(c.as_ptr(), 0);
        assert!(fd >= 0, "memfd_create");
        assert_eq!(libc::ftruncate(fd, size as libc::off_t), 0);
        std::fs::File::from_raw_fd(fd)
    }
}
pub fn file_region(name: &str, gpa: u64, words: &[u64]) -> Arc<R> {
    let f = memfd(name, PAGE);
    let r = MmapRegion::<()>::from_file(FileOffset::new(f, 0), PAGE).unwrap();
    // SAFETY: fresh mapping of one page, written through its raw pointer
    unsafe {
        for (i, w) in words.iter().enumerate() {
            std::ptr::write_volatile((r.as_ptr() as *mut u64).add(i), *w);
        }
    }
    Arc::new(GuestRegionMmap::new(r, GuestAddress(gpa)).unwrap())
}
pub fn maps() -> String {
    std::fs::read_to_string("/proc/self/maps").unwrap_or_default()
}
fn word(r: &R, i: usize) -> u64 {
    // SAFETY: independent route - the raw host pointer of the mapping; faults if it was unmapped
    unsafe { std::ptr::read_volatile((r.as_ptr() as *const u64).add(i)) }
}
fn ntag(g: u64) -> u64 {
    1 + g % 2
}
fn tag_gpa(g: u64, j: u64) -> u64 {
    0x100000 * (g + 1) + 0x10000 * j
}
fn tag_name(case: u64, g: u64, j: u64) -> String {
    format!("vmh11_{}_m{}_{}", case, g, j)
}
fn tag_regions(case: u64, g: u64) -> Vec<Arc<R>> {
    (0..ntag(g)).map(|j| file_region(&tag_name(case, g, j), tag_gpa(g, j), &[g, j, MAGIC ^ g])).collect()
}

/// The id a snapshot shows, or 0xbad000xx when the map is not one complete published map.
fn read_id(m: &M) -> u64 {
    let regs: Vec<&R> = m.iter().collect();
    if regs.len() < 2 || m.num_regions() != regs.len() {
        return 0xbad0_0001;
    }
    let s = regs[0];
    if s.start_addr().0 != 0 || s.len() != PAGE as u64 || word(s, 0) != MAGIC {
        return 0xbad0_0002;
    }
    let g = word(regs[1], 0);
    if regs.len() as u64 != 1 + ntag(g) {
        return 0xbad0_0003;
    }
    for (j, r) in regs[1..].iter().enumerate() {
        let j = j as u64;
        if r.start_addr().0 != tag_gpa(g, j) || r.len() != PAGE as u64 {
            return 0xbad0_0004;
        }
        if word(r, 0) != g || word(r, 1) != j || word(r, 2) != MAGIC ^ g {
            return 0xbad0_0005;
        }
        // the same bytes through the library's address translation
        match m.get_host_address(GuestAddress(tag_gpa(g, j))) {
            Ok(p) if p == r.as_ptr() => {}
            _ => return 0xbad0_0006,
        }
    }
    g
}

fn live_mask(case: u64, nmaps: u64) -> u128 {
    let mp = maps();
    let mut mask: u128 = 0;
    for g in 0..nmaps.min(120) {
        let mut cnt = 0;
        for j in 0..ntag(g) {
            if mp.contains(&format!("{} (deleted)", tag_name(case, g, j))) {
                cnt += 1;
            }
        }
        if cnt == ntag(g) {
            mask |= 1u128 << g;
        } else if cnt != 0 {
            return u128::MAX; // a map that is half unmapped
        }
    }
    mask
}

enum H {
    Guard(GuestMemoryLoadGuard<M>),
    Arc(Arc<M>),
}
struct Slot {
    atomic: *mut A,
    guard: Option<GuestMemoryExclusiveGuard<'static, M>>,
    derived: Option<M>,
}

fn build_map(shared: &Arc<R>, tags: Vec<Arc<R>>) -> M {
    let mut v = vec![shared.clone()];
    v.extend(tags);
    GuestMemoryMmap::from_arc_regions(v).unwrap()
}

fn exec(case: &[Tok]) -> Vec<Tok> {
    let ops: Vec<u128> = case[0].l().to_vec();
    let cid = CASE.fetch_add(1, Ordering::SeqCst);
    let shared = file_region(&format!("vmh11_{}_shared", cid), 0, &[MAGIC]);
    let root: A = GuestMemoryAtomic::new(build_map(&shared, tag_regions(cid, 0)));
    let mut nmaps: u64 = 1;
    let mut handles: Vec<Option<H>> = Vec::new();
    let mut slots: HashMap<u128, Slot> = HashMap::new();
    let mut out: Vec<u128> = Vec::new();
    // In half of the cases (chosen by the history itself) an Unlock is an updater that PANICS while it holds the
    // guard: the update mutex is poisoned, and every later lock() recovers the guard from the PoisonError.  The
    // model knows no poison: a recovered guard must lock, publish and unlock exactly like a fresh one.
    let by_panic = ops.iter().fold(ops.len() as u128, |acc, x| acc.wrapping_add(*x)) % 2 == 1;
    for p in ops.chunks(2).take(400) {
        if p.len() < 2 {
            break;
        }
        let (code, a) = (p[0], p[1]);
        let mut res: Option<u64> = None; // Some(val) = done
        let hid = if a < 1 << 32 { a as usize } else { usize::MAX };
        if (0..=8).contains(&code) && (code == 0 || code >= 5) && !slots.contains_key(&a) {
            // SAFETY: the box is reclaimed at the end of the case, after every guard borrowed from it
            slots.insert(a, Slot { atomic: Box::into_raw(Box::new(root.clone())), guard: None, derived: None });
        }
        match code {
            0 => {
                let s = &slots[&a];
                // SAFETY: see above
                let g = unsafe { &*s.atomic }.memory();
                res = Some(read_id(&g));
                handles.push(Some(H::Guard(g)));
            }
            1 => {
                let new = match handles.get(hid) {
                    Some(Some(H::Guard(g))) => Some(H::Guard(g.clone())),
                    Some(Some(H::Arc(m))) => Some(H::Arc(m.clone())),
                    _ => None,
                };
                if let Some(h) = new {
                    res = Some(match &h {
                        H::Guard(g) => read_id(g),
                        H::Arc(m) => read_id(m),
                    });
                    handles.push(Some(h));
                }
            }
            2 => {
                if let Some(Some(H::Guard(_))) = handles.get(hid) {
                    if let Some(H::Guard(g)) = handles[hid].take() {
                        let m = g.into_inner();
                        res = Some(read_id(&m));
                        handles[hid] = Some(H::Arc(m));
                    }
                }
            }
            3 => match handles.get(hid) {
                Some(Some(H::Guard(g))) => res = Some(read_id(g)),
                Some(Some(H::Arc(m))) => res = Some(read_id(m)),
                _ => {}
            },
            4 => {
                if let Some(Some(_)) = handles.get(hid) {
                    handles[hid] = None;
                    res = Some(0);
                }
            }
            5 => {
                // one OS thread plays all slots: a lock() while some slot holds the guard would block
                // for ever, which IS the model's "not enabled"; real blocking is probed in C11probe
                if slots.values().all(|s| s.guard.is_none()) {
                    let s = slots.get_mut(&a).unwrap();
                    // SAFETY: see above
                    s.guard = Some(unsafe { &*s.atomic }.lock().unwrap_or_else(|e| e.into_inner()));
                    s.derived = None;
                    res = Some(0);
                }
            }
            6 => {
                let s = slots.get_mut(&a).unwrap();
                if s.guard.is_some() {
                    // SAFETY: see above
                    let cur = unsafe { &*s.atomic }.memory();
                    let g = read_id(&cur);
                    // derive: the current map minus its private regions (keeps only the shared Arc alive)
                    let mut m: M = (*cur).clone();
                    if g < 0xbad0_0000 {
                        for j in 0..ntag(g) {
                            m = m.remove_region(GuestAddress(tag_gpa(g, j)), PAGE as u64).unwrap().0;
                        }
                    }
                    s.derived = Some(m);
                    res = Some(g);
                }
            }
            7 => {
                let s = slots.get_mut(&a).unwrap();
                if let Some(guard) = s.guard.take() {
                    let g = nmaps;
                    nmaps += 1;
                    let tags = tag_regions(cid, g);
                    let new = match s.derived.take() {
                        Some(mut m) if m.num_regions() == 1 => {
                            for t in tags {
                                m = m.insert_region(t).unwrap();
                            }
                            m
                        }
                        _ => build_map(&shared, tags),
                    };
                    guard.replace(new);
                    res = Some(g);
                }
            }
            8 => {
                let s = slots.get_mut(&a).unwrap();
                if let Some(g) = s.guard.take() {
                    if by_panic {
                        let r = util::catch(move || {
                            let _held = g;
                            std::panic::resume_unwind(Box::new("updater died holding the guard"));
                        });
                        assert!(r.is_none());
                        // harness self-check: the mutex really is poisoned now
                        // SAFETY: see above
                        assert!(unsafe { &*s.atomic }.lock().is_err(), "unlock by unwinding did not poison the update mutex");
                    } else {
                        drop(g);
                    }
                    s.derived = None;
                    res = Some(0);
                }
            }
            _ => {}
        }
        out.push(res.is_some() as u128);
        out.push(res.unwrap_or(0) as u128);
        out.push(live_mask(cid, nmaps));
    }
    handles.clear();
    for (_, s) in slots.drain() {
        drop(s.guard);
        drop(s.derived);
        // SAFETY: created by Box::into_raw above; no borrow of it is left
        drop(unsafe { Box::from_raw(s.atomic) });
    }
    drop(root);
    vec![Tok::L(out)]
}

fn gen(rng: &mut Rng, tier: Tier, emit: &mut dyn FnMut(Vec<Tok>)) {
    let mut case = |ops: &[(u64, u64)]| {
        emit(vec![Tok::L(ops.iter().flat_map(|(c, a)| [*c as u128, *a as u128]).collect())])
    };
    // directed: clone / use / into_inner of a guard taken BEFORE a replacement; drop orders
    case(&[(0, 0), (5, 1), (6, 1), (7, 1), (1, 0), (3, 0), (3, 1), (4, 0), (3, 1), (4, 1)]);
    case(&[(0, 0), (2, 0), (5, 0), (7, 0), (5, 1), (6, 1), (7, 1), (3, 0), (1, 0), (4, 0), (4, 1)]);
    case(&[(5, 0), (5, 1), (6, 1), (7, 1), (6, 0), (7, 0), (8, 0), (0, 2), (3, 0)]);
    case(&[(0, 0), (0, 1), (5, 2), (6, 2), (7, 2), (0, 0), (5, 2), (7, 2), (0, 3), (4, 1), (4, 0), (4, 2), (4, 3)]);
    case(&[(5, 0), (8, 0), (8, 0), (7, 0), (6, 0), (2, 5), (9, 9), (4, 0)]);
    let ncases = if tier == Tier::Quick { 1500 } else { 40_000 };
    for _ in 0..ncases {
        let maxlen = if rng.chance(1, 8) { 60 } else { 24 };
        let len = rng.range(1, maxlen);
        let mut ops = Vec::new();
        let mut nh = 0u64; // handles created so far (approximation: every Load/Clone counted)
        let nthreads = rng.range(1, 4);
        for _ in 0..len {
            let pick_h = |rng: &mut Rng, nh: u64| if nh == 0 || rng.chance(1, 12) { rng.below(nh + 3) } else { rng.below(nh) };
            let t = rng.below(nthreads);
            match rng.below(20) {
                0..=3 => {
                    ops.push((0, t));
                    nh += 1;
                }
                4..=5 => {
                    ops.push((1, pick_h(rng, nh)));
                    nh += 1;
                }
                6 => ops.push((2, pick_h(rng, nh))),
                7..=9 => ops.push((3, pick_h(rng, nh))),
                10..=12 => ops.push((4, pick_h(rng, nh))),
                13..=14 => ops.push((5, t)),
                15 => ops.push((6, t)),
                16..=17 => {
                    // the usual protocol in one go
                    ops.push((5, t));
                    ops.push((6, t));
                    ops.push((7, t));
                }
                18 => ops.push((7, t)),
                _ => ops.push((if rng.chance(1, 6) { rng.range(9, 12) } else { 8 }, t)),
            }
        }
        // a Clone may have been refused, so handle ids above are only roughly valid - that is intended
        case(&ops);
    }
}

// ------------------------------------------------------------------------------------------ probes
struct ProbeCtx {
    atomic: Mutex<Option<GuestMemoryAtomic<ProbeMem>>>,
    in_replace: AtomicBool,
    results: Mutex<Vec<(u64, bool, bool)>>, // (map id, dropped inside replace, update mutex held then)
    helpers: Mutex<Vec<std::thread::JoinHandle<()>>>,
    raw: std::sync::atomic::AtomicUsize, // address of the sole handle (kind 2), 0 otherwise
}
/// A GuestMemory whose Drop reports whether it runs inside `replace` and whether the update mutex of
/// the GuestMemoryAtomic is held at that moment (asked from a helper thread: lock() must block).
struct ProbeMem {
    inner: M,
    id: u64,
    ctx: Arc<ProbeCtx>,
}
impl GuestMemory for ProbeMem {
    type R = R;
    fn num_regions(&self) -> usize {
        self.inner.num_regions()
    }
    fn find_region(&self, addr: GuestAddress) -> Option<&R> {
        self.inner.find_region(addr)
    }
    fn iter(&self) -> impl Iterator<Item = &Self::R> {
        self.inner.iter()
    }
}
// only needed because `#[derive(Clone)]` on GuestMemoryAtomic<M> asks for M: Clone; never called
impl Clone for ProbeMem {
    fn clone(&self) -> Self {
        ProbeMem { inner: self.inner.clone(), id: u64::MAX, ctx: self.ctx.clone() }
    }
}
impl Drop for ProbeMem {
    fn drop(&mut self) {
        let ins = self.ctx.in_replace.load(Ordering::SeqCst);
        let mut held = false;
        if ins {
            let raw = self.ctx.raw.load(Ordering::SeqCst);
            if raw != 0 {
                let (tx, rx) = mpsc::channel();
                let h = std::thread::spawn(move || {
                    // SAFETY: exec_probe keeps the handle alive until every helper thread was joined
                    let a: &GuestMemoryAtomic<ProbeMem> = unsafe { &*(raw as *const GuestMemoryAtomic<ProbeMem>) };
                    let g = a.lock();
                    let _ = tx.send(());
                    drop(g);
                });
                held = rx.recv_timeout(Duration::from_millis(40)).is_err();
                self.ctx.helpers.lock().unwrap().push(h);
            }
            let a = self.ctx.atomic.lock().unwrap().clone();
            if let Some(a) = a {
                let (tx, rx) = mpsc::channel();
                let h = std::thread::spawn(move || {
                    let g = a.lock();
                    let _ = tx.send(());
                    drop(g);
                });
                held = rx.recv_timeout(Duration::from_millis(40)).is_err();
                self.ctx.helpers.lock().unwrap().push(h);
            }
        }
        self.ctx.results.lock().unwrap().push((self.id, ins, held));
    }
}

fn exec_probe(case: &[Tok]) -> Vec<Tok> {
    let (kind, nrep, hold) = (case[0].u(), case[1].u().min(63), case[2].u());
    let mk = || GuestMemoryMmap::<()>::from_ranges(&[(GuestAddress(0), PAGE)]).unwrap();
    let ctx = Arc::new(ProbeCtx {
        atomic: Mutex::new(None),
        in_replace: AtomicBool::new(false),
        results: Mutex::new(Vec::new()),
        helpers: Mutex::new(Vec::new()),
        raw: std::sync::atomic::AtomicUsize::new(0),
    });
    let a = GuestMemoryAtomic::new(ProbeMem { inner: mk(), id: 0, ctx: ctx.clone() });
    if kind == 2 {
        // sole handle: the helper thread reaches it by reference (address), no clone is ever made
        ctx.raw.store(&a as *const GuestMemoryAtomic<ProbeMem> as usize, Ordering::SeqCst);
    } else {
        *ctx.atomic.lock().unwrap() = Some(a.clone());
    }
    let mut out: Vec<u128> = Vec::new();
    if kind == 0 || kind == 2 {
        let reader = if hold == 1 { Some(a.memory()) } else { None };
        for k in 0..nrep {
            let g = a.lock().unwrap();
            let cur = a.memory();
            let new = ProbeMem { inner: cur.inner.clone(), id: k + 1, ctx: ctx.clone() };
            drop(cur);
            ctx.in_replace.store(true, Ordering::SeqCst);
            g.replace(new);
            ctx.in_replace.store(false, Ordering::SeqCst);
            let r = ctx.results.lock().unwrap().iter().find(|r| r.0 == k).copied();
            match r {
                Some((_, true, held)) => {
                    out.push(1);
                    out.push(held as u128);
                }
                _ => {
                    out.push(0);
                    out.push(0);
                }
            }
        }
        drop(reader);
    } else {
        let g = a.lock().unwrap();
        let a2 = a.clone();
        let (tx, rx) = mpsc::channel();
        let h = std::thread::spawn(move || {
            let g2 = a2.lock();
            let _ = tx.send(());
            drop(g2);
        });
        let got_while_held = rx.recv_timeout(Duration::from_millis(60)).is_ok();
        g.replace(ProbeMem { inner: mk(), id: 1, ctx: ctx.clone() });
        let got_after = got_while_held || rx.recv_timeout(Duration::from_secs(5)).is_ok();
        let _ = h.join();
        out.push(got_while_held as u128);
        out.push(got_after as u128);
    }
    // break the cycle ctx -> atomic -> ProbeMem -> ctx and let the helper threads finish
    *ctx.atomic.lock().unwrap() = None;
    // helper threads of the sole-handle probe use `a` by address: join them before `a` goes away
    let hs: Vec<_> = ctx.helpers.lock().unwrap().drain(..).collect();
    for h in hs {
        let _ = h.join();
    }
    ctx.raw.store(0, Ordering::SeqCst);
    drop(a);
    let hs: Vec<_> = ctx.helpers.lock().unwrap().drain(..).collect();
    for h in hs {
        let _ = h.join();
    }
    vec![Tok::L(out)]
}

fn gen_probe(_rng: &mut Rng, tier: Tier, emit: &mut dyn FnMut(Vec<Tok>)) {
    let reps: &[u64] = if tier == Tier::Quick { &[1, 3] } else { &[1, 2, 3, 5, 8] };
    for &nrep in reps {
        for hold in 0..2u64 {
            emit(vec![n(0u8), n(nrep), n(hold)]);
            emit(vec![n(2u8), n(nrep), n(hold)]);
        }
    }
    for _ in 0..(if tier == Tier::Quick { 2 } else { 10 }) {
        emit(vec![n(1u8), n(0u8), n(0u8)]);
    }
}

// ------------------------------------------------------------------------------------------ stress
fn mt_map(case: u64, shared: &Arc<R>, tag: u64) -> M {
    let t: Vec<Arc<R>> = (0..2u64)
        .map(|j| file_region(&format!("vmh11mt_{}_m{}_{}", case, tag, j), tag_gpa(0, j), &[tag, j, MAGIC ^ tag]))
        .collect();
    build_map(shared, t)
}
/// (tag, whole?) of a snapshot, through raw host pointers
fn mt_read(m: &M) -> (u64, bool) {
    let regs: Vec<&R> = m.iter().collect();
    if regs.len() != 3 {
        return (0, false);
    }
    let (t0, t1) = (word(regs[1], 0), word(regs[2], 0));
    let ok = word(regs[0], 0) == MAGIC
        && t0 == t1
        && word(regs[1], 2) == MAGIC ^ t0
        && word(regs[2], 2) == MAGIC ^ t0
        && word(regs[1], 1) == 0
        && word(regs[2], 1) == 1;
    (t0, ok)
}

fn exec_mt(case: &[Tok]) -> Vec<Tok> {
    let (nr, nu, k) = (case[0].u().min(16), case[1].u().min(16), case[2].u().min(20_000));
    let cid = CASE.fetch_add(1, Ordering::SeqCst);
    let shared = file_region(&format!("vmh11mt_{}_shared", cid), 0, &[MAGIC]);
    let a: A = GuestMemoryAtomic::new(mt_map(cid, &shared, 0));
    let bad = Arc::new(AtomicU64::new(0));
    let done = Arc::new(AtomicBool::new(false));
    let mut readers = Vec::new();
    for r in 0..nr {
        let (a, bad, done) = (a.clone(), bad.clone(), done.clone());
        readers.push(std::thread::spawn(move || {
            let mut last = 0u64;
            let mut kept: Vec<(GuestMemoryLoadGuard<M>, u64)> = Vec::new();
            let mut owned: Vec<(Arc<M>, u64)> = Vec::new();
            let mut i = 0u64;
            loop {
                let fin = done.load(Ordering::SeqCst);
                let g = a.memory();
                let (t, ok) = mt_read(&g);
                if !ok || t < last {
                    bad.fetch_add(1, Ordering::SeqCst);
                }
                last = t;
                // clones and owned handles keep showing the same complete map
                if i % 3 == r % 3 {
                    kept.push((g.clone(), t));
                }
                if i % 5 == 0 {
                    owned.push((g.clone().into_inner(), t));
                }
                drop(g);
                if kept.len() > 4 {
                    let (g, t) = kept.remove(0);
                    if mt_read(&g) != (t, true) {
                        bad.fetch_add(1, Ordering::SeqCst);
                    }
                }
                if owned.len() > 3 {
                    let (m, t) = owned.remove(0);
                    if mt_read(&m) != (t, true) {
                        bad.fetch_add(1, Ordering::SeqCst);
                    }
                }
                i += 1;
                if fin {
                    break;
                }
                if i % 64 == 0 {
                    std::thread::yield_now();
                }
            }
            for (g, t) in kept {
                if mt_read(&g) != (t, true) {
                    bad.fetch_add(1, Ordering::SeqCst);
                }
            }
            for (m, t) in owned {
                if mt_read(&m) != (t, true) {
                    bad.fetch_add(1, Ordering::SeqCst);
                }
            }
        }));
    }
    let mut updaters = Vec::new();
    for _ in 0..nu {
        let (a, shared) = (a.clone(), shared.clone());
        updaters.push(std::thread::spawn(move || {
            for _ in 0..k {
                let l = a.lock().unwrap();
                let cur = a.memory();
                let (t, _) = mt_read(&cur);
                drop(cur);
                std::thread::yield_now(); // widen the window between reading and publishing
                l.replace(mt_map(cid, &shared, t + 1));
            }
        }));
    }
    for u in updaters {
        let _ = u.join();
    }
    done.store(true, Ordering::SeqCst);
    for r in readers {
        let _ = r.join();
    }
    let (fin, ok) = mt_read(&a.memory());
    if !ok {
        bad.fetch_add(1, Ordering::SeqCst);
    }
    let mp = maps();
    let pre = format!("vmh11mt_{}_m", cid);
    let leaked = mp.lines().filter(|l| l.contains(&pre) && !l.contains(&format!("{}{}_", pre, fin))).count();
    drop(a);
    vec![Tok::L(vec![bad.load(Ordering::SeqCst) as u128, fin as u128, leaked as u128])]
}

fn gen_mt(rng: &mut Rng, tier: Tier, emit: &mut dyn FnMut(Vec<Tok>)) {
    if tier == Tier::Quick {
        for (r, u, k) in [(1u64, 1u64, 20u64), (2, 2, 60), (3, 3, 40), (0, 4, 50), (2, 4, 100)] {
            emit(vec![n(r), n(u), n(k)]);
        }
    } else {
        for _ in 0..12 {
            emit(vec![n(rng.range(1, 6)), n(rng.range(1, 4)), n(rng.range(50, 600))]);
        }
        emit(vec![n(6u8), n(2u8), n(2500u16)]);
        emit(vec![n(4u8), n(4u8), n(1000u16)]);
    }
    let _ = util::fnv;
}
}
