//! C13: every ReadVolatile / WriteVolatile adapter of vm-memory against the real std::io operation
//! on a twin stream.
//! case:  mode kind [content] pos (opcode [arg])*
//!   kind 0 &[u8]  1 &mut [u8]  2 Vec<u8>  3 Cursor<&[u8]>  4 Cursor<&mut [u8]>  5 File  6 UnixStream
//!        7 pipe (OwnedFd / File twin)  8 Cursor<Vec<u8>>
//!        9..12 MESSAGE QUEUE: non-blocking AF_UNIX socketpair, every read(2) delivers (at most) one message, so
//!        an exact read is served in PIECES, deterministically (no timing): 9 SOCK_SEQPACKET as OwnedFd,
//!        10 SOCK_DGRAM as UnixStream, 11 SOCK_SEQPACKET as File and 12 SOCK_DGRAM as BorrowedFd, the last two
//!        driven through VolatileSlice::{read_volatile_from, read_exact_volatile_from, write_volatile_to,
//!        write_all_volatile_to}; twin: std::fs::File (read(2) / write(2)) on a second socketpair.
//!        [content] and [out] of a message queue: every message followed by the marker 0x100.
//!   opcode 0 read [prefill]  1 read_exact [prefill]  2 write [data]  3 write_all [data]  4 set_position [p]
//! obs per op (13 tokens): adapter rk n [buf] margins_ok [data] pos [out]; twin rk n [buf] [data] pos [out]
//!   rk 0 Ok(n) 1 Ok(()) 2 UnexpectedEof 3 WriteZero 4 Interrupted 5 other io 6 bounds 7 skipped 8 panic 9 pos set
//! The buffer lives in an arena with 8 canary bytes on each side; the stream state is observed through
//! the backing array / a second descriptor / FIONREAD, never through the adapter; a message queue is observed
//! by receiving every queued message with recv(2) and sending them again through the peer.
use crate::tok::n;
use crate::{util, Rng, Suite, Tier, Tok};
use std::fs::File;
use std::io::{Cursor, ErrorKind, Read, Seek, SeekFrom, Write};
use std::mem::ManuallyDrop;
use std::os::fd::{AsFd, AsRawFd, FromRawFd, OwnedFd};
use std::os::unix::net::UnixStream;
use std::sync::atomic::{AtomicU64, Ordering};
use vm_memory::{Bytes, ReadVolatile, VolatileMemoryError, VolatileSlice, WriteVolatile};

// C14adapt: the same cases and observations, judged by C14's conservation checker (coq/Suite/C14.v)
// C13fd: scripted REAL descriptors (read(2) / write(2) intercepted by crate::fdscript), see the end of this file
pub const SUITES: &[Suite] = &[
    Suite { name: "C13", gen, exec },
    Suite { name: "C14adapt", gen, exec },
    Suite { name: "C13fd", gen: gen_fd, exec: exec_fd },
    Suite { name: "C13big", gen: gen_big, exec: exec_big },
];

const CANARY: u8 = 197;
const MARGIN: usize = 8;
static FILE_ID: AtomicU64 = AtomicU64::new(0);

fn kind_code(k: ErrorKind) -> u64 {
    match k {
        ErrorKind::UnexpectedEof => 2,
        ErrorKind::WriteZero => 3,
        ErrorKind::Interrupted => 4,
        _ => 5,
    }
}
fn verr(e: &VolatileMemoryError) -> (u64, u64) {
    match e {
        VolatileMemoryError::IOError(e) => (kind_code(e.kind()), 0),
        VolatileMemoryError::OutOfBounds { .. } | VolatileMemoryError::Overflow { .. } => (6, 0),
        _ => (10, 0),
    }
}
fn vn(r: Result<usize, VolatileMemoryError>) -> (u64, u64) {
    match r {
        Ok(k) => (0, k as u64),
        Err(e) => verr(&e),
    }
}
fn vu(r: Result<(), VolatileMemoryError>) -> (u64, u64) {
    match r {
        Ok(()) => (1, 0),
        Err(e) => verr(&e),
    }
}
fn sn(r: std::io::Result<usize>) -> (u64, u64) {
    match r {
        Ok(k) => (0, k as u64),
        Err(e) => (kind_code(e.kind()), 0),
    }
}
fn su(r: std::io::Result<()>) -> (u64, u64) {
    match r {
        Ok(()) => (1, 0),
        Err(e) => (kind_code(e.kind()), 0),
    }
}

/// a heap array that outlives the slices / cursors borrowed from it (freed in Drop)
pub(crate) struct Backing {
    pub(crate) ptr: *mut u8,
    pub(crate) len: usize,
}
impl Backing {
    fn new(content: &[u8]) -> Backing {
        let b: Box<[u8]> = content.to_vec().into_boxed_slice();
        let len = b.len();
        Backing { ptr: Box::into_raw(b) as *mut u8, len }
    }
    fn snapshot(&self) -> Vec<u8> {
        (0..self.len).map(|i| unsafe { std::ptr::read_volatile(self.ptr.add(i)) }).collect()
    }
    unsafe fn shared(&self, from: usize) -> &'static [u8] {
        std::slice::from_raw_parts(self.ptr.add(from), self.len - from)
    }
    unsafe fn exclusive(&self, from: usize) -> &'static mut [u8] {
        std::slice::from_raw_parts_mut(self.ptr.add(from), self.len - from)
    }
}
impl Drop for Backing {
    fn drop(&mut self) {
        unsafe { drop(Box::from_raw(std::ptr::slice_from_raw_parts_mut(self.ptr, self.len))) }
    }
}

fn set_nonblock(fd: i32) {
    unsafe {
        let fl = libc::fcntl(fd, libc::F_GETFL);
        libc::fcntl(fd, libc::F_SETFL, fl | libc::O_NONBLOCK);
    }
}
fn drain(fd: i32) -> Vec<u8> {
    let mut out = Vec::new();
    let mut b = [0u8; 65536];
    loop {
        let r = unsafe { libc::read(fd, b.as_mut_ptr() as *mut libc::c_void, b.len()) };
        if r <= 0 {
            break;
        }
        out.extend_from_slice(&b[..r as usize]);
    }
    out
}
fn queued(fd: i32) -> u64 {
    let mut k: libc::c_int = 0;
    unsafe { libc::ioctl(fd, libc::FIONREAD, &mut k) };
    k as u64
}
fn make_pipe() -> (OwnedFd, OwnedFd) {
    let mut fds = [0i32; 2];
    assert_eq!(unsafe { libc::pipe(fds.as_mut_ptr()) }, 0);
    unsafe { (OwnedFd::from_raw_fd(fds[0]), OwnedFd::from_raw_fd(fds[1])) }
}

const MSG_END: u128 = 0x100;
fn msg_pair(kind: u64) -> (OwnedFd, OwnedFd) {
    let ty = if kind == 9 || kind == 11 { libc::SOCK_SEQPACKET } else { libc::SOCK_DGRAM };
    let mut fds = [0i32; 2];
    assert_eq!(unsafe { libc::socketpair(libc::AF_UNIX, ty | libc::SOCK_NONBLOCK | libc::SOCK_CLOEXEC, 0, fds.as_mut_ptr()) }, 0);
    unsafe { (OwnedFd::from_raw_fd(fds[0]), OwnedFd::from_raw_fd(fds[1])) }
}
fn send_msg(fd: i32, m: &[u8]) {
    let r = unsafe { libc::send(fd, m.as_ptr() as *const libc::c_void, m.len(), 0) };
    assert_eq!(r, m.len() as isize, "send on the message queue");
}
/// every queued message, in order (the queue is empty afterwards)
fn recv_all(fd: i32) -> Vec<Vec<u8>> {
    let mut out = Vec::new();
    let mut b = [0u8; 4096];
    loop {
        let r = unsafe { libc::recv(fd, b.as_mut_ptr() as *mut libc::c_void, b.len(), libc::MSG_DONTWAIT) };
        if r < 0 {
            break;
        }
        out.push(b[..r as usize].to_vec());
    }
    out
}
fn enc_msgs(ms: &[Vec<u8>]) -> Tok {
    let mut l: Vec<u128> = Vec::new();
    for m in ms {
        l.extend(m.iter().map(|x| *x as u128));
        l.push(MSG_END);
    }
    Tok::L(l)
}
fn dec_msgs(l: &[u128]) -> Vec<Vec<u8>> {
    if l.iter().any(|x| *x > MSG_END) || (!l.is_empty() && *l.last().unwrap() != MSG_END) {
        panic!("bad message queue contents");
    }
    let mut out = Vec::new();
    let mut cur = Vec::new();
    for x in l {
        if *x == MSG_END {
            out.push(std::mem::take(&mut cur));
        } else {
            cur.push(*x as u8);
        }
    }
    out
}

pub(crate) enum Stream {
    /// message queue: `a` is the end under test, `b` the peer (stays open)
    Msg { a: OwnedFd, b: OwnedFd, kind: u64 },
    SliceR { back: Backing, cur: &'static [u8] },
    SliceW { back: Backing, cur: &'static mut [u8] },
    VecW { v: Vec<u8>, pos0: u64 },
    CurR { back: Backing, c: Cursor<&'static [u8]> },
    CurRV { c: Cursor<Vec<u8>> },
    CurW { back: Backing, c: Cursor<&'static mut [u8]> },
    FileS { f: File, path: std::path::PathBuf },
    Sock { a: UnixStream, b: UnixStream },
    /// TcpStream over a 127.0.0.1 loopback pair; `a` is the end under test.  `open`: the peer keeps its sending side open
    Tcp { a: std::net::TcpStream, b: std::net::TcpStream, open: bool },
    /// a pipe that `std::io::Stdout` writes to while fd 1 is redirected onto `wr` (vm) / that a File twin writes to
    StdoutPipe { wr: OwnedFd, out_rd: OwnedFd, vm: bool },
    /// incoming pipe read end, outgoing pipe write end, drain end of the outgoing pipe
    PipeVm { rd: OwnedFd, wr: OwnedFd, out_rd: OwnedFd },
    PipeTw { rd: File, wr: File, out_rd: OwnedFd },
}

fn tmp_dir() -> std::path::PathBuf {
    let shm = std::path::Path::new("/dev/shm");
    if shm.is_dir() {
        shm.to_path_buf()
    } else {
        std::env::temp_dir()
    }
}

impl Stream {
    fn new_msg(kind: u64, content: &[u128]) -> Stream {
        let (a, b) = msg_pair(kind);
        for m in dec_msgs(content) {
            send_msg(b.as_raw_fd(), &m);
        }
        Stream::Msg { a, b, kind }
    }

    pub(crate) fn new(kind: u64, content: &[u8], pos: u64, vm: bool) -> Stream {
        match kind {
            0 => {
                let back = Backing::new(content);
                let cur = unsafe { back.shared(pos as usize) };
                Stream::SliceR { back, cur }
            }
            1 => {
                let back = Backing::new(content);
                let cur = unsafe { back.exclusive(pos as usize) };
                Stream::SliceW { back, cur }
            }
            2 => Stream::VecW { v: content.to_vec(), pos0: pos },
            3 => {
                let back = Backing::new(content);
                let mut c = Cursor::new(unsafe { back.shared(0) });
                c.set_position(pos);
                Stream::CurR { back, c }
            }
            8 => {
                let mut c = Cursor::new(content.to_vec());
                c.set_position(pos);
                Stream::CurRV { c }
            }
            4 => {
                let back = Backing::new(content);
                let mut c = Cursor::new(unsafe { back.exclusive(0) });
                c.set_position(pos);
                Stream::CurW { back, c }
            }
            5 => {
                let id = FILE_ID.fetch_add(1, Ordering::Relaxed);
                let path = tmp_dir().join(format!("vmh-c13-{}-{}", std::process::id(), id));
                let mut f = std::fs::OpenOptions::new().read(true).write(true).create(true).truncate(true).open(&path).unwrap();
                f.write_all(content).unwrap();
                f.seek(SeekFrom::Start(pos)).unwrap();
                Stream::FileS { f, path }
            }
            6 => {
                let (a, mut b) = UnixStream::pair().unwrap();
                b.write_all(content).unwrap();
                b.shutdown(std::net::Shutdown::Write).unwrap();
                set_nonblock(b.as_raw_fd());
                Stream::Sock { a, b }
            }
            7 => {
                let (rd, wr_in) = make_pipe();
                let mut w = File::from(wr_in);
                w.write_all(content).unwrap();
                drop(w); // incoming stream ends after `content`
                let (out_rd, wr) = make_pipe();
                set_nonblock(out_rd.as_raw_fd());
                if vm {
                    Stream::PipeVm { rd, wr, out_rd }
                } else {
                    Stream::PipeTw { rd: File::from(rd), wr: File::from(wr), out_rd }
                }
            }
            16 | 17 => {
                let (a, mut b) = tcp_pair();
                b.write_all(content).unwrap();
                if kind == 16 {
                    b.shutdown(std::net::Shutdown::Write).unwrap();
                }
                wait_arrival(a.as_raw_fd(), content.len(), kind == 16);
                set_nonblock(b.as_raw_fd());
                Stream::Tcp { a, b, open: kind == 17 }
            }
            18 => {
                let (out_rd, wr) = make_pipe();
                set_nonblock(out_rd.as_raw_fd());
                Stream::StdoutPipe { wr, out_rd, vm }
            }
            _ => panic!("bad kind"),
        }
    }

    /// (data, pos, out) observed independently of the adapter
    pub(crate) fn observe(&mut self) -> (Tok, u64, Tok) {
        if let Stream::Msg { a, b, .. } = self {
            // what the adapter sent, then what is still queued for it (sent again in the same order)
            let out = recv_all(b.as_raw_fd());
            let queued = recv_all(a.as_raw_fd());
            for m in &queued {
                send_msg(b.as_raw_fd(), m);
            }
            return (enc_msgs(&queued), 0, enc_msgs(&out));
        }
        let (d, p, o) = self.observe_bytes();
        (Tok::of_bytes(&d), p, Tok::of_bytes(&o))
    }

    fn observe_bytes(&mut self) -> (Vec<u8>, u64, Vec<u8>) {
        match self {
            Stream::Msg { .. } => unreachable!(),
            Stream::SliceR { back, cur } => {
                let off = (cur.as_ptr() as usize).wrapping_sub(back.ptr as usize);
                let pos = if off <= back.len && cur.len() == back.len - off { off as u64 } else { 0xdead_0000 + cur.len() as u64 };
                (back.snapshot(), pos, vec![])
            }
            Stream::SliceW { back, cur } => {
                let off = (cur.as_ptr() as usize).wrapping_sub(back.ptr as usize);
                let pos = if off <= back.len && cur.len() == back.len - off { off as u64 } else { 0xdead_0000 + cur.len() as u64 };
                (back.snapshot(), pos, vec![])
            }
            Stream::VecW { v, pos0 } => (v.clone(), *pos0, vec![]),
            Stream::CurR { back, c } => (back.snapshot(), c.position(), vec![]),
            Stream::CurRV { c } => (c.get_ref().clone(), c.position(), vec![]),
            Stream::CurW { back, c } => (back.snapshot(), c.position(), vec![]),
            Stream::FileS { f, path } => {
                let pos = unsafe { libc::lseek(f.as_raw_fd(), 0, libc::SEEK_CUR) } as u64;
                (std::fs::read(&*path).unwrap(), pos, vec![])
            }
            Stream::Sock { a, b } => (vec![], queued(a.as_raw_fd()), drain(b.as_raw_fd())),
            Stream::Tcp { a, b, .. } => {
                wait_sent(a.as_raw_fd());
                (vec![], queued(a.as_raw_fd()), drain(b.as_raw_fd()))
            }
            Stream::StdoutPipe { out_rd, .. } => (vec![], 0, drain(out_rd.as_raw_fd())),
            Stream::PipeVm { rd, out_rd, .. } => (vec![], queued(rd.as_raw_fd()), drain(out_rd.as_raw_fd())),
            Stream::PipeTw { rd, out_rd, .. } => (vec![], queued(rd.as_raw_fd()), drain(out_rd.as_raw_fd())),
        }
    }

    fn set_pos(&mut self, p: u64) {
        match self {
            Stream::CurR { c, .. } => c.set_position(p),
            Stream::CurRV { c } => c.set_position(p),
            Stream::CurW { c, .. } => c.set_position(p),
            Stream::FileS { f, .. } => {
                f.seek(SeekFrom::Start(p)).unwrap();
            }
            _ => {}
        }
    }

    /// one read / read_exact into arena[MARGIN..MARGIN+len]
    fn read(&mut self, vm: bool, arena: &mut [u8], len: usize, exact: bool) -> (u64, u64) {
        macro_rules! go {
            ($s:expr) => {{
                let b = &mut arena[MARGIN..MARGIN + len];
                if vm {
                    let mut vs = VolatileSlice::from(b);
                    if exact {
                        vu(ReadVolatile::read_exact_volatile($s, &mut vs))
                    } else {
                        vn(ReadVolatile::read_volatile($s, &mut vs))
                    }
                } else if exact {
                    su(Read::read_exact($s, b))
                } else {
                    sn(Read::read($s, b))
                }
            }};
        }
        match self {
            Stream::SliceR { cur, .. } => go!(cur),
            Stream::CurR { c, .. } => go!(c),
            Stream::CurRV { c } => go!(c),
            Stream::FileS { f, .. } => go!(f),
            Stream::Sock { a, .. } => go!(a),
            Stream::PipeVm { rd, .. } => {
                let mut vs = VolatileSlice::from(&mut arena[MARGIN..MARGIN + len]);
                if exact {
                    vu(rd.read_exact_volatile(&mut vs))
                } else {
                    vn(rd.read_volatile(&mut vs))
                }
            }
            Stream::PipeTw { rd, .. } => {
                let b = &mut arena[MARGIN..MARGIN + len];
                if exact {
                    su(rd.read_exact(b))
                } else {
                    sn(rd.read(b))
                }
            }
            Stream::Msg { a, kind, .. } => {
                let fd = a.as_raw_fd();
                let b = &mut arena[MARGIN..MARGIN + len];
                // wrappers around the same descriptor; never closed through the wrapper
                let mut file = ManuallyDrop::new(unsafe { File::from_raw_fd(fd) });
                if !vm {
                    return if exact { su(file.read_exact(b)) } else { sn(file.read(b)) };
                }
                let mut vs = VolatileSlice::from(b);
                match *kind {
                    9 => {
                        if exact {
                            vu(a.read_exact_volatile(&mut vs))
                        } else {
                            vn(a.read_volatile(&mut vs))
                        }
                    }
                    10 => {
                        let mut u = ManuallyDrop::new(unsafe { UnixStream::from_raw_fd(fd) });
                        if exact {
                            vu(u.read_exact_volatile(&mut vs))
                        } else {
                            vn(u.read_volatile(&mut vs))
                        }
                    }
                    11 => {
                        if exact {
                            vu(vs.read_exact_volatile_from(0, &mut *file, len))
                        } else {
                            vn(vs.read_volatile_from(0, &mut *file, len))
                        }
                    }
                    _ => {
                        let mut bf = a.as_fd();
                        if exact {
                            vu(vs.read_exact_volatile_from(0, &mut bf, len))
                        } else {
                            vn(vs.read_volatile_from(0, &mut bf, len))
                        }
                    }
                }
            }
            _ => panic!("read on a writer"),
        }
    }

    /// one write / write_all of arena[MARGIN..MARGIN+len]
    fn write(&mut self, vm: bool, arena: &mut [u8], len: usize, all: bool) -> (u64, u64) {
        macro_rules! go {
            ($s:expr) => {{
                let b = &mut arena[MARGIN..MARGIN + len];
                if vm {
                    let vs = VolatileSlice::from(b);
                    if all {
                        vu(WriteVolatile::write_all_volatile($s, &vs))
                    } else {
                        vn(WriteVolatile::write_volatile($s, &vs))
                    }
                } else if all {
                    su(Write::write_all($s, b))
                } else {
                    sn(Write::write($s, b))
                }
            }};
        }
        match self {
            Stream::SliceW { cur, .. } => go!(cur),
            Stream::VecW { v, .. } => go!(v),
            Stream::CurW { c, .. } => go!(c),
            Stream::FileS { f, .. } => go!(f),
            Stream::Sock { a, .. } => go!(a),
            Stream::PipeVm { wr, .. } => {
                let vs = VolatileSlice::from(&mut arena[MARGIN..MARGIN + len]);
                if all {
                    vu(wr.write_all_volatile(&vs))
                } else {
                    vn(wr.write_volatile(&vs))
                }
            }
            Stream::PipeTw { wr, .. } => {
                let b = &arena[MARGIN..MARGIN + len];
                if all {
                    su(wr.write_all(b))
                } else {
                    sn(wr.write(b))
                }
            }
            Stream::Msg { a, kind, .. } => {
                let fd = a.as_raw_fd();
                let b = &mut arena[MARGIN..MARGIN + len];
                let mut file = ManuallyDrop::new(unsafe { File::from_raw_fd(fd) });
                if !vm {
                    return if all { su(file.write_all(b)) } else { sn(file.write(b)) };
                }
                let vs = VolatileSlice::from(b);
                match *kind {
                    9 => {
                        if all {
                            vu(a.write_all_volatile(&vs))
                        } else {
                            vn(a.write_volatile(&vs))
                        }
                    }
                    10 => {
                        let mut u = ManuallyDrop::new(unsafe { UnixStream::from_raw_fd(fd) });
                        if all {
                            vu(u.write_all_volatile(&vs))
                        } else {
                            vn(u.write_volatile(&vs))
                        }
                    }
                    11 => {
                        if all {
                            vu(vs.write_all_volatile_to(0, &mut *file, len))
                        } else {
                            vn(vs.write_volatile_to(0, &mut *file, len))
                        }
                    }
                    _ => {
                        let mut bf = a.as_fd();
                        if all {
                            vu(vs.write_all_volatile_to(0, &mut bf, len))
                        } else {
                            vn(vs.write_volatile_to(0, &mut bf, len))
                        }
                    }
                }
            }
            _ => panic!("write on a reader"),
        }
    }
}
impl Drop for Stream {
    fn drop(&mut self) {
        if let Stream::FileS { path, .. } = self {
            let _ = std::fs::remove_file(&*path);
        }
    }
}

/// runs one operation; returns (rc, buffer after, margins intact)
fn step(s: &mut Stream, vm: bool, opc: u64, arg: &Tok) -> ((u64, u64), Vec<u8>, bool) {
    if opc == 4 {
        s.set_pos(arg.l()[0] as u64);
        return ((9, 0), vec![], true);
    }
    let buf = arg.bytes();
    let len = buf.len();
    let mut arena = vec![CANARY; len + 2 * MARGIN];
    arena[MARGIN..MARGIN + len].copy_from_slice(&buf);
    let rc = match util::catch(|| match opc {
        0 => s.read(vm, &mut arena, len, false),
        1 => s.read(vm, &mut arena, len, true),
        2 => s.write(vm, &mut arena, len, false),
        3 => s.write(vm, &mut arena, len, true),
        _ => panic!("bad opcode"),
    }) {
        Some(rc) => rc,
        None => (8, 0),
    };
    let ok = arena[..MARGIN].iter().all(|&x| x == CANARY) && arena[MARGIN + len..].iter().all(|&x| x == CANARY);
    (rc, arena[MARGIN..MARGIN + len].to_vec(), ok)
}

fn exec(case: &[Tok]) -> Vec<Tok> {
    // a retry loop that never ends (e.g. EAGAIN of an empty message queue treated like EINTR) must not stall the check
    crate::fdscript::watched(|| exec_inner(case))
}
fn exec_inner(case: &[Tok]) -> Vec<Tok> {
    let kind = case[1].u();
    let msgq = (9..=12).contains(&kind);
    let content = if msgq { vec![] } else { case[2].bytes() };
    let pos = case[3].u();
    assert!((case.len() - 4) % 2 == 0);
    if (kind == 0 || kind == 1) && pos > content.len() as u64 {
        panic!("slice offset beyond the array");
    }
    // perturbed cases (shrinker / neighbourhood search): never seek a real file to an absurd offset
    if kind == 5 && (pos > 65536 || case[4..].chunks(2).any(|op| op[0].u() == 4 && op[1].l()[0] > 65536)) {
        panic!("file offset out of the supported range");
    }
    if msgq && pos != 0 {
        panic!("a message queue has no position");
    }
    let mut a = if msgq { Stream::new_msg(kind, case[2].l()) } else { Stream::new(kind, &content, pos, true) };
    let mut t = Some(if msgq { Stream::new_msg(kind, case[2].l()) } else { Stream::new(kind, &content, pos, false) });
    let mut out = Vec::new();
    for op in case[4..].chunks(2) {
        let opc = op[0].u();
        let (rc, buf, ok) = step(&mut a, true, opc, &op[1]);
        let (d, p, o) = a.observe();
        out.extend([n(rc.0), n(rc.1), Tok::of_bytes(&buf), Tok::b(ok), d, n(p), o]);
        match t.as_mut() {
            None => out.extend([n(7u8), n(0u8), Tok::L(vec![]), Tok::L(vec![]), n(0u8), Tok::L(vec![])]),
            Some(tw) => {
                let (rc, buf, _) = step(tw, false, opc, &op[1]);
                if rc.0 == 0 || rc.0 == 1 || rc.0 == 9 {
                    let (d, p, o) = tw.observe();
                    let tb = if opc <= 1 { buf } else { vec![] };
                    out.extend([n(rc.0), n(rc.1), Tok::of_bytes(&tb), d, n(p), o]);
                } else {
                    // std leaves the stream (and the buffer) unspecified after a failed exact transfer
                    out.extend([n(rc.0), n(rc.1), Tok::L(vec![]), Tok::L(vec![]), n(0u8), Tok::L(vec![])]);
                    t = None;
                }
            }
        }
    }
    out
}

// ------------------------------------------------------------------------------------------- generator
fn readers() -> &'static [u64] {
    &[0, 3, 8, 5, 6, 7]
}
fn pattern(rng: &mut Rng, len: usize) -> Vec<u8> {
    let base = rng.below(200) as u8;
    (0..len).map(|i| base.wrapping_add(i as u8).wrapping_add(1)).collect()
}

fn gen(rng: &mut Rng, tier: Tier, emit: &mut dyn FnMut(Vec<Tok>)) {
    let mode = crate::build_mode();
    let quick = tier == Tier::Quick;
    let mut raw = |kind: u64, content: Tok, pos: u64, ops: &[(u64, Tok)]| {
        let mut v = vec![n(mode), n(kind), content, n(pos)];
        for (c, a) in ops {
            v.push(n(*c));
            v.push(a.clone());
        }
        emit(v)
    };
    macro_rules! case {
        ($k:expr, $c:expr, $p:expr, $o:expr) => {
            raw($k, Tok::of_bytes($c), $p, $o)
        };
    }
    // 1. single calls, exhaustively: stream length 0..20 x position 0..25 and u64::MAX x buffer length 0..20
    let mut i = 0u64;
    for kind in [0u64, 1, 2, 3, 8, 4, 5, 6, 7] {
        let positions: Vec<u64> = match kind {
            3 | 8 | 4 => (0..=25).chain([u64::MAX, u64::MAX - 1, 1 << 63, 1 << 32]).collect(),
            5 => (0..=25).collect(),
            _ => vec![0],
        };
        let ops: &[u64] = match kind {
            0 | 3 | 8 => &[0, 1],
            1 | 2 | 4 => &[2, 3],
            _ => &[0, 1, 2, 3],
        };
        let slow = kind >= 5;
        for slen in 0..=20usize {
            for &pos in &positions {
                for blen in 0..=20usize {
                    for &opc in ops {
                        i += 1;
                        // descriptors are slow (files, sockets): subsample them in the quick tier
                        if quick && slow && i % 5 != 0 {
                            continue;
                        }
                        if quick && !slow && positions.len() > 1 && i % 2 != 0 && pos > 22 && pos < 1 << 30 {
                            continue;
                        }
                        let content = pattern(rng, slen);
                        let buf = pattern(rng, blen);
                        case!(kind, &content, pos, &[(opc, Tok::of_bytes(&buf))]);
                    }
                }
            }
        }
    }
    // slices starting in the middle of the backing array
    for kind in [0u64, 1] {
        for slen in [1usize, 7, 8, 9, 20] {
            for pos in 0..=slen {
                for blen in [0usize, 1, 7, 8, 9, 20] {
                    for opc in if kind == 0 { [0u64, 1] } else { [2, 3] } {
                        let content = pattern(rng, slen);
                        let buf = pattern(rng, blen);
                        case!(kind, &content, pos as u64, &[(opc, Tok::of_bytes(&buf))]);
                    }
                }
            }
        }
    }
    // 1b. message queues: every queue of up to 3 messages with lengths in {0,1,2,3,5,8} x buffer length 0..12 x
    // read / read_exact (the exact read has to assemble its buffer from several messages), and the writers
    let lens = [0usize, 1, 2, 3, 5, 8];
    let mut queues: Vec<Vec<usize>> = vec![vec![]];
    for &a in &lens {
        queues.push(vec![a]);
        for &b in &lens {
            queues.push(vec![a, b]);
            for &c in &lens {
                queues.push(vec![a, b, c]);
            }
        }
    }
    let msgs = |rng: &mut Rng, q: &[usize]| -> Tok {
        let mut l: Vec<u128> = Vec::new();
        let mut v = rng.below(100) as u8;
        for &k in q {
            for _ in 0..k {
                v = v.wrapping_add(1);
                l.push(v as u128);
            }
            l.push(MSG_END);
        }
        Tok::L(l)
    };
    let mut j = 0u64;
    for kind in 9..=12u64 {
        for q in &queues {
            for blen in 0..=12usize {
                for opc in [0u64, 1] {
                    j += 1;
                    if quick && j % 4 != 0 {
                        continue;
                    }
                    let content = msgs(rng, q);
                    // a second exact read shows where the first one left the queue
                    raw(kind, content, 0, &[(opc, Tok::of_bytes(&vec![0xAA; blen])), (1, Tok::of_bytes(&[0xBB, 0xBB]))]);
                }
            }
        }
        for blen in 0..=12usize {
            for opc in [2u64, 3] {
                let content = msgs(rng, &[2, 1]);
                let buf = pattern(rng, blen);
                raw(kind, content, 0, &[(opc, Tok::of_bytes(&buf)), (opc, Tok::of_bytes(&buf[..blen / 2]))]);
            }
        }
    }
    // random histories on message queues
    let nmsg = if quick { 4_000 } else { 100_000 };
    for _ in 0..nmsg {
        let kind = rng.range(9, 12);
        let nq = rng.below(7) as usize;
        let q: Vec<usize> = (0..nq).map(|_| if rng.chance(1, 8) { 0 } else { rng.range(1, 8) as usize }).collect();
        let total: usize = q.iter().sum();
        let content = msgs(rng, &q);
        let nops = rng.range(1, 5);
        let mut ops = Vec::new();
        for _ in 0..nops {
            let blen = match rng.below(5) {
                0 => 0,
                1 => total.min(20),
                2 => (total / 2).min(20),
                _ => rng.below(21) as usize,
            };
            let opc = if rng.chance(1, 4) { 2 + rng.below(2) } else { rng.below(4).min(1) };
            ops.push((opc, Tok::of_bytes(&rng.bytes(blen))));
        }
        raw(kind, content, 0, &ops);
    }
    // 2. histories of up to 5 consecutive calls on one stream
    let nhist = if quick { 12_000 } else { 400_000 };
    for _ in 0..nhist {
        let kind = *rng.pick(&[0u64, 0, 1, 1, 2, 3, 3, 8, 4, 4, 4, 5, 6, 7]);
        let slen = match rng.below(4) {
            0 => rng.below(4) as usize,
            _ => rng.below(21) as usize,
        };
        let content = rng.bytes(slen);
        let pos = match kind {
            3 | 8 | 4 => match rng.below(8) {
                0 => u64::MAX - rng.below(2),
                1 => slen as u64 + rng.below(6),
                _ => rng.below(slen as u64 + 1),
            },
            5 => rng.below(26),
            0 | 1 => {
                if rng.chance(1, 4) {
                    rng.below(slen as u64 + 1)
                } else {
                    0
                }
            }
            _ => 0,
        };
        let nops = rng.range(1, 5);
        let mut ops = Vec::new();
        for _ in 0..nops {
            let can_read = readers().contains(&kind);
            let can_write = !matches!(kind, 0 | 3 | 8);
            let seek = matches!(kind, 3 | 8 | 4 | 5);
            if seek && rng.chance(1, 6) {
                let p = match rng.below(4) {
                    0 if kind != 5 => u64::MAX,
                    1 => slen as u64 + rng.below(4),
                    _ => rng.below(slen as u64 + 1),
                };
                ops.push((4u64, Tok::L(vec![p as u128])));
                continue;
            }
            let blen = match rng.below(5) {
                0 => 0,
                1 => rng.range(7, 9) as usize,
                2 => slen.saturating_sub(rng.below(2) as usize).min(20),
                _ => rng.below(21) as usize,
            };
            let wr = if can_read && can_write { rng.bool() } else { can_write };
            let opc = if wr { 2 + rng.below(2) } else { rng.below(2) };
            ops.push((opc, Tok::of_bytes(&rng.bytes(blen))));
        }
        case!(kind, &content, pos, &ops);
    }
}

// =========================================================================================== suite C13fd
// C13fd: the descriptor adapters (File, UnixStream, OwnedFd, BorrowedFd) on REAL descriptors whose read(2) /
// write(2) calls follow a per-operation script (crate::fdscript: Full, Short k, Zero, Eintr, hard error; the
// real call when the script is over).  The std twin is a std::fs::File around a twin descriptor under the SAME
// script (std's read_exact / write_all loops go through the same intercepted calls).
// case:  mode kind [content] pos (opcode [arg] [script])*
//   kind 16 TcpStream (127.0.0.1 loopback, peer shut down) 17 TcpStream, peer stays open (one read) 18 Stdout (fd 1 onto a pipe)
//   kind 5 File  6 UnixStream  7 pipe (OwnedFd)   13 / 14 / 15: the same through VolatileSlice::{read_volatile_from,
//        read_exact_volatile_from, write_volatile_to, write_all_volatile_to}(0, fd, len) (14 as BorrowedFd)
//   script element 0 Full 1 Zero 2 Eintr 3..8 hard error (EIO EAGAIN EBADF ENOSPC EPIPE ECONNRESET) 16+k Short k
// obs per op (14 tokens): adapter rk n [buf] margins_ok [data] pos [out] calls; twin rk n [buf] [data] pos [out]
use crate::fdscript::{self, Beh};

impl Stream {
    /// the descriptor an operation of the given direction goes to
    pub(crate) fn raw_fd(&self, is_read: bool) -> i32 {
        match self {
            Stream::FileS { f, .. } => f.as_raw_fd(),
            Stream::Sock { a, .. } => a.as_raw_fd(),
            Stream::Tcp { a, .. } => a.as_raw_fd(),
            Stream::StdoutPipe { wr, vm, .. } => if *vm { 1 } else { wr.as_raw_fd() },
            Stream::PipeVm { rd, wr, .. } => if is_read { rd.as_raw_fd() } else { wr.as_raw_fd() },
            Stream::PipeTw { rd, wr, .. } => if is_read { rd.as_raw_fd() } else { wr.as_raw_fd() },
            _ => panic!("not a descriptor stream"),
        }
    }

    /// one operation (0 read 1 read_exact 2 write 3 write_all) on arena[MARGIN..MARGIN+len]
    fn fd_op(&mut self, vm: bool, route: bool, opc: u64, arena: &mut [u8], len: usize) -> (u64, u64) {
        let fd = self.raw_fd(opc <= 1);
        let b = &mut arena[MARGIN..MARGIN + len];
        if !vm {
            // std twin: a File around the descriptor (read(2) / write(2); std's UnixStream would use recv / send)
            let mut file = ManuallyDrop::new(unsafe { File::from_raw_fd(fd) });
            return match opc {
                0 => sn(file.read(b)),
                1 => su(file.read_exact(b)),
                2 => sn(file.write(b)),
                _ => su(file.write_all(b)),
            };
        }
        macro_rules! run {
            ($s:expr) => {{
                let mut vs = VolatileSlice::from(b);
                match (opc, route) {
                    (0, false) => vn(ReadVolatile::read_volatile($s, &mut vs)),
                    (1, false) => vu(ReadVolatile::read_exact_volatile($s, &mut vs)),
                    (2, false) => vn(WriteVolatile::write_volatile($s, &vs)),
                    (3, false) => vu(WriteVolatile::write_all_volatile($s, &vs)),
                    (0, true) => vn(vs.read_volatile_from(0, $s, len)),
                    (1, true) => vu(vs.read_exact_volatile_from(0, $s, len)),
                    (2, true) => vn(vs.write_volatile_to(0, $s, len)),
                    _ => vu(vs.write_all_volatile_to(0, $s, len)),
                }
            }};
        }
        match self {
            Stream::FileS { f, .. } => run!(f),
            Stream::Sock { a, .. } => {
                if route {
                    let mut bf = a.as_fd();
                    run!(&mut bf)
                } else {
                    run!(a)
                }
            }
            Stream::PipeVm { rd, wr, .. } => {
                if opc <= 1 {
                    run!(rd)
                } else {
                    run!(wr)
                }
            }
            Stream::Tcp { a, .. } => run!(a),
            Stream::StdoutPipe { wr, .. } => {
                assert!(opc >= 2, "Stdout is a writer");
                // fd 1 is redirected onto the pipe for the duration of the call (restored also on a panic)
                let _redir = Redirect1::onto(wr.as_raw_fd());
                let mut so = std::io::stdout();
                let vs = VolatileSlice::from(b);
                if opc == 2 {
                    vn(so.write_volatile(&vs))
                } else {
                    vu(so.write_all_volatile(&vs))
                }
            }
            _ => panic!("not a vm-memory descriptor stream"),
        }
    }
}

/// fd 1 redirected onto another descriptor; undone on drop
struct Redirect1 {
    saved: i32,
}
impl Redirect1 {
    fn onto(fd: i32) -> Redirect1 {
        let saved = unsafe { libc::dup(1) };
        assert!(saved >= 0);
        assert!(unsafe { libc::dup2(fd, 1) } == 1);
        Redirect1 { saved }
    }
}
impl Drop for Redirect1 {
    fn drop(&mut self) {
        unsafe {
            libc::dup2(self.saved, 1);
            libc::close(self.saved);
        }
    }
}

fn force_bufs(fd: i32, bytes: i32) {
    // SO_SNDBUFFORCE / SO_RCVBUFFORCE (root): large single transfers must fit the socket buffers
    for opt in [32, 33] {
        unsafe { libc::setsockopt(fd, libc::SOL_SOCKET, opt, &bytes as *const i32 as *const libc::c_void, 4) };
    }
}
pub(crate) fn tcp_pair() -> (std::net::TcpStream, std::net::TcpStream) {
    let l = std::net::TcpListener::bind("127.0.0.1:0").expect("loopback listener");
    force_bufs(l.as_raw_fd(), 16 << 20);
    let sock = unsafe { libc::socket(libc::AF_INET, libc::SOCK_STREAM | libc::SOCK_CLOEXEC, 0) };
    assert!(sock >= 0);
    force_bufs(sock, 16 << 20);
    let addr = l.local_addr().unwrap();
    let sa = libc::sockaddr_in {
        sin_family: libc::AF_INET as u16,
        sin_port: addr.port().to_be(),
        sin_addr: libc::in_addr { s_addr: u32::from_ne_bytes([127, 0, 0, 1]) },
        sin_zero: [0; 8],
    };
    let r = unsafe { libc::connect(sock, &sa as *const libc::sockaddr_in as *const libc::sockaddr, std::mem::size_of::<libc::sockaddr_in>() as u32) };
    assert!(r == 0, "loopback connect");
    let a = unsafe { std::net::TcpStream::from_raw_fd(sock) };
    let (b, _) = l.accept().unwrap();
    a.set_nodelay(true).unwrap();
    b.set_nodelay(true).unwrap();
    (a, b)
}
/// waits until `n` bytes (and, if `fin`, the peer's FIN) have arrived at `fd`
pub(crate) fn wait_arrival(fd: i32, n: usize, fin: bool) {
    let t0 = std::time::Instant::now();
    loop {
        let mut pfd = libc::pollfd { fd, events: libc::POLLIN | libc::POLLRDHUP, revents: 0 };
        unsafe { libc::poll(&mut pfd, 1, 0) };
        let hup = pfd.revents & libc::POLLRDHUP != 0;
        if queued(fd) as usize >= n && (!fin || hup) {
            return;
        }
        assert!(t0.elapsed().as_secs() < 5, "loopback data did not arrive");
        std::thread::yield_now();
    }
}
/// waits until everything written to `fd` has been acknowledged by the peer (SIOCOUTQ = 0)
pub(crate) fn wait_sent(fd: i32) {
    let t0 = std::time::Instant::now();
    loop {
        let mut k: libc::c_int = 0;
        unsafe { libc::ioctl(fd, libc::TIOCOUTQ, &mut k) };
        if k == 0 || t0.elapsed().as_secs() >= 5 {
            return;
        }
        std::thread::yield_now();
    }
}

fn script_of(t: &Tok) -> Vec<Beh> {
    t.l().iter().map(|x| fdscript::beh_of(*x)).collect()
}

/// runs one scripted operation; returns (rc, buffer after, margins intact, calls the descriptor received)
fn fd_step(s: &mut Stream, vm: bool, route: bool, opc: u64, arg: &Tok, script: &[Beh]) -> ((u64, u64), Vec<u8>, bool, u64) {
    if opc == 4 {
        s.set_pos(arg.l()[0] as u64);
        return ((9, 0), vec![], true, 0);
    }
    assert!(opc <= 3, "bad opcode");
    let buf = arg.bytes();
    let len = buf.len();
    let mut arena = vec![CANARY; len + 2 * MARGIN];
    arena[MARGIN..MARGIN + len].copy_from_slice(&buf);
    let fd = s.raw_fd(opc <= 1);
    // Open-peer TCP (kind 17): a read must return what is AVAILABLE.  Should it wait for the buffer to fill instead, a
    // helper sends the missing bytes one second after the call has started, so that the wrong count becomes visible
    // (for a read that returns at once the helper sends nothing: the outcome does not depend on timing).
    let rescue = match s {
        Stream::Tcp { b, open: true, .. } if opc <= 1 => {
            let mut peer = b.try_clone().unwrap();
            let started = std::sync::Arc::new(std::sync::atomic::AtomicBool::new(false));
            let done = std::sync::Arc::new(std::sync::atomic::AtomicBool::new(false));
            let (st2, dn2) = (started.clone(), done.clone());
            let h = std::thread::spawn(move || {
                while !st2.load(Ordering::SeqCst) {
                    std::thread::yield_now();
                }
                let t0 = std::time::Instant::now();
                while !dn2.load(Ordering::SeqCst) {
                    if t0.elapsed().as_millis() >= 1000 {
                        let _ = peer.set_nonblocking(false);
                        let _ = peer.write_all(&vec![0xEE; len]);
                        return;
                    }
                    std::thread::sleep(std::time::Duration::from_millis(2));
                }
            });
            Some((h, started, done))
        }
        _ => None,
    };
    if let Some((_, started, _)) = &rescue {
        started.store(true, Ordering::SeqCst);
    }
    let (rc, calls) = fdscript::with_script(fd, script, || s.fd_op(vm, route, opc, &mut arena, len));
    if let Some((h, _, done)) = rescue {
        done.store(true, Ordering::SeqCst);
        let _ = h.join();
    }
    let rc = rc.unwrap_or((8, 0));
    let ok = arena[..MARGIN].iter().all(|&x| x == CANARY) && arena[MARGIN + len..].iter().all(|&x| x == CANARY);
    (rc, arena[MARGIN..MARGIN + len].to_vec(), ok, calls)
}

fn exec_fd(case: &[Tok]) -> Vec<Tok> {
    fdscript::self_test();
    fdscript::watched(|| exec_fd_inner(case))
}
fn exec_fd_inner(case: &[Tok]) -> Vec<Tok> {
    let kind = case[1].u();
    let (base, route) = match kind {
        5 | 6 | 7 => (kind, false),
        13 | 14 | 15 => (kind - 8, true),
        16 | 17 | 18 => (kind, false),
        _ => panic!("bad kind"),
    };
    let content = case[2].bytes();
    let pos = case[3].u();
    assert!((case.len() - 4) % 3 == 0);
    let ops: Vec<(u64, &Tok, Vec<Beh>)> = case[4..].chunks(3).map(|op| (op[0].u(), &op[1], script_of(&op[2]))).collect();
    if kind == 17 && !(ops.len() == 1 && ops[0].0 == 0 && !content.is_empty()) {
        panic!("open-peer TCP: exactly one read of a stream that holds data");
    }
    if kind == 18 && ops.iter().any(|op| op.0 != 2 && op.0 != 3) {
        panic!("Stdout is a writer");
    }
    if base == 5 && (pos > 65536 || ops.iter().any(|op| op.0 == 4 && op.1.l()[0] > 65536)) {
        panic!("file offset out of the supported range");
    }
    if base != 5 && pos != 0 {
        panic!("a queue has no position");
    }
    if ops.iter().any(|op| op.2.len() > 64 || (op.0 == 4 && !op.2.is_empty())) {
        panic!("bad script");
    }
    if route && ops.iter().any(|op| (op.0 == 0 || op.0 == 2) && op.2.first() == Some(&Beh::Eintr)) {
        panic!("up-to forms of the VolatileSlice route retry EINTR: not a C13fd case");
    }
    let mut a = Stream::new(base, &content, pos, true);
    let mut t = Some(Stream::new(base, &content, pos, false));
    let mut out = Vec::new();
    for (opc, arg, script) in &ops {
        let (rc, buf, ok, calls) = fd_step(&mut a, true, route, *opc, arg, script);
        let (d, p, o) = a.observe();
        out.extend([n(rc.0), n(rc.1), Tok::of_bytes(&buf), Tok::b(ok), d, n(p), o, n(calls)]);
        match t.as_mut() {
            None => out.extend([n(7u8), n(0u8), Tok::L(vec![]), Tok::L(vec![]), n(0u8), Tok::L(vec![])]),
            Some(tw) => {
                let (rc, buf, _, _) = fd_step(tw, false, false, *opc, arg, script);
                if rc.0 == 0 || rc.0 == 1 || rc.0 == 9 {
                    let (d, p, o) = tw.observe();
                    let tb = if *opc <= 1 { buf } else { vec![] };
                    out.extend([n(rc.0), n(rc.1), Tok::of_bytes(&tb), d, n(p), o]);
                } else {
                    out.extend([n(rc.0), n(rc.1), Tok::L(vec![]), Tok::L(vec![]), n(0u8), Tok::L(vec![])]);
                    t = None;
                }
            }
        }
    }
    out
}

const FD_ALPHABET: [&[u128]; 9] = [&[0], &[17], &[19], &[1], &[2], &[2, 2], &[3], &[4], &[16]];

fn gen_fd(rng: &mut Rng, tier: Tier, emit: &mut dyn FnMut(Vec<Tok>)) {
    let mode = crate::build_mode();
    let quick = tier == Tier::Quick;
    let mut raw = |kind: u64, content: &[u8], pos: u64, ops: &[(u64, Tok, Vec<u128>)]| {
        let mut v = vec![n(mode), n(kind), Tok::of_bytes(content), n(pos)];
        for (c, a, s) in ops {
            // the up-to forms of the VolatileSlice route must not start with EINTR (see Suite/C13fd.v)
            let mut s = s.clone();
            if kind >= 13 && (*c == 0 || *c == 2) {
                while s.first() == Some(&2) {
                    s.remove(0);
                }
            }
            if *c == 4 {
                s.clear();
            }
            v.push(n(*c));
            v.push(a.clone());
            v.push(Tok::L(s));
        }
        emit(v)
    };
    // 1. every script of up to 2 (quick) / 3 (thorough) symbols x stream length x buffer length x operation x kind
    let maxlen = if quick { 2 } else { 3 };
    let mut scripts: Vec<Vec<u128>> = vec![vec![]];
    let mut frontier: Vec<Vec<u128>> = vec![vec![]];
    for _ in 0..maxlen {
        let mut next = Vec::new();
        for s in &frontier {
            for a in FD_ALPHABET.iter() {
                let mut t = s.clone();
                t.extend_from_slice(a);
                next.push(t);
            }
        }
        scripts.extend(next.iter().cloned());
        frontier = next;
    }
    let mut i = 0u64;
    for kind in [5u64, 6, 7, 13, 14, 15, 16, 18] {
        for slen in [0usize, 2, 8, 11] {
            for blen in [0usize, 1, 5, 9] {
                for opc in 0..4u64 {
                    for sc in &scripts {
                        i += 1;
                        if quick && i % 2 != 0 {
                            continue;
                        }
                        // Stdout only writes (and has no incoming stream); loopback pairs are slower: a third of them
                        if kind == 18 && (opc <= 1 || slen != 0) {
                            continue;
                        }
                        if kind == 16 && quick && i % 6 != 0 {
                            continue;
                        }
                        let content = pattern(rng, slen);
                        let buf = pattern(rng, blen);
                        let pos = if kind % 8 == 5 { (i % 4).min(slen as u64) } else { 0 };
                        raw(kind, &content, pos, &[(opc, Tok::of_bytes(&buf), sc.clone())]);
                    }
                }
            }
        }
    }
    // 1b. TcpStream whose peer stays OPEN and has sent fewer bytes than the buffer holds: a read returns what is
    //     available (never waits for the buffer to fill), with and without a script
    for slen in [1usize, 3, 8] {
        for blen in [0usize, 1, 3, 5, 9, 20] {
            for sc in [&[][..], &[0], &[18], &[2], &[4], &[1]] {
                let content = pattern(rng, slen);
                let buf = pattern(rng, blen);
                raw(17, &content, 0, &[(0, Tok::of_bytes(&buf), sc.to_vec())]);
            }
        }
    }
    // 2. random histories of up to 4 operations, every operation with its own random script
    let nhist = if quick { 16_000 } else { 300_000 };
    for _ in 0..nhist {
        let kind = *rng.pick(&[5u64, 5, 6, 7, 13, 14, 15, 5, 6, 7, 13, 14, 15, 16, 18]);
        let file = kind % 8 == 5;
        let slen = if rng.chance(1, 4) { rng.below(4) as usize } else { rng.below(21) as usize };
        let content = rng.bytes(slen);
        let pos = if file { rng.below(slen as u64 + 3) } else { 0 };
        let nops = rng.range(1, 4);
        let mut ops = Vec::new();
        for _ in 0..nops {
            if file && rng.chance(1, 6) {
                ops.push((4u64, Tok::L(vec![rng.below(slen as u64 + 4) as u128]), vec![]));
                continue;
            }
            let blen = match rng.below(5) {
                0 => 0,
                1 => rng.range(7, 9) as usize,
                2 => slen.saturating_sub(rng.below(2) as usize).min(20),
                _ => rng.below(21) as usize,
            };
            let nsym = if rng.chance(1, 8) { rng.range(5, 9) } else { rng.range(0, 4) };
            let mut sc: Vec<u128> = Vec::new();
            for _ in 0..nsym {
                match rng.below(8) {
                    0 => sc.push(16 + rng.below(6) as u128),
                    1 => sc.push(16 + rng.range(1, 12) as u128),
                    2 => sc.push(3 + rng.below(6) as u128),
                    _ => sc.extend_from_slice(*rng.pick(&FD_ALPHABET)),
                }
            }
            let opc = if kind == 18 { 2 + rng.below(2) } else { rng.below(4) };
            ops.push((opc, Tok::of_bytes(&rng.bytes(blen)), sc));
        }
        let content = if kind == 18 { vec![] } else { content };
        raw(kind, &content, pos, &ops);
    }
}

// =========================================================================================== suite C13big
// The adapters at LARGE sizes (4095 ... 3 MiB): contents are patterns, the observation is counts plus first-difference
// indices computed here against the expected bytes (coq/Spec/C13big.v, coq/Suite/C13big.v).
// case:  mode kind clen pos op blen [script] cpat bpat
//   kind 0 &[u8]  2 Vec  3 Cursor<&[u8]>  8 Cursor<Vec>  5 File  20 BorrowedFd of a File  6 UnixStream  7 OwnedFd of a UnixStream
//        16 TcpStream (loopback)  18 Stdout (fd 1 onto a UnixStream); socket buffers enlarged (SO_SNDBUFFORCE / SO_RCVBUFFORCE)
// obs:   adapter rk n moved d1 d2 margins rest calls apos slen   twin rk n moved d1 apos slen
fn pat(p: u64, i: usize) -> u8 {
    ((i * 31 + 7 + 13 * p as usize) % 251) as u8
}
fn pat_vec(p: u64, len: usize) -> Vec<u8> {
    (0..len).map(|i| pat(p, i)).collect()
}
fn unix_pair_big() -> (UnixStream, UnixStream) {
    let (a, b) = UnixStream::pair().unwrap();
    force_bufs(a.as_raw_fd(), 16 << 20);
    force_bufs(b.as_raw_fd(), 16 << 20);
    (a, b)
}
fn big_stream(kind: u64, content: &[u8], pos: u64, vm: bool) -> Stream {
    match kind {
        0 | 2 | 3 | 8 | 5 | 16 => Stream::new(kind, content, pos, vm),
        20 => Stream::new(5, content, pos, vm),
        6 | 7 | 18 => {
            let (a, mut b) = unix_pair_big();
            b.write_all(content).unwrap();
            b.shutdown(std::net::Shutdown::Write).unwrap();
            set_nonblock(b.as_raw_fd());
            match kind {
                6 => Stream::Sock { a, b },
                18 => Stream::StdoutPipe { wr: OwnedFd::from(a), out_rd: OwnedFd::from(b), vm },
                _ => {
                    let rd = OwnedFd::from(a);
                    let wr = rd.try_clone().unwrap();
                    let out_rd = OwnedFd::from(b);
                    if vm {
                        Stream::PipeVm { rd, wr, out_rd }
                    } else {
                        Stream::PipeTw { rd: File::from(rd), wr: File::from(wr), out_rd }
                    }
                }
            }
        }
        _ => panic!("bad kind"),
    }
}
fn first_diff(a: &[u8], from: usize, to: usize, expect: impl Fn(usize) -> Option<u8>) -> u64 {
    for i in from..to {
        if a.get(i).copied() != expect(i) || a.get(i).is_none() {
            return i as u64;
        }
    }
    to as u64
}

/// one big case on one stream; returns (rk, n, moved, d1, d2, margins, rest, calls, apos, slen)
fn big_run(kind: u64, vm: bool, clen: usize, pos: u64, opc: u64, blen: usize, script: &[Beh], cpat: u64, bpat: u64) -> [u64; 10] {
    let content = pat_vec(cpat, clen);
    let prefill = pat_vec(bpat, blen);
    let mut s = big_stream(kind, &content, pos, vm);
    let is_fd = matches!(kind, 5 | 20 | 6 | 7 | 16 | 18);
    let rd = opc <= 1;
    let mut arena = vec![CANARY; blen + 2 * MARGIN];
    arena[MARGIN..MARGIN + blen].copy_from_slice(&prefill);
    let (rc, calls) = if is_fd {
        let fd = s.raw_fd(rd);
        fdscript::with_script(fd, script, || {
            if kind == 20 && vm {
                // the same regular file through BorrowedFd
                if let Stream::FileS { f, .. } = &mut s {
                    let mut bf = f.as_fd();
                    let mut vs = VolatileSlice::from(&mut arena[MARGIN..MARGIN + blen]);
                    return match opc {
                        0 => vn(bf.read_volatile(&mut vs)),
                        1 => vu(bf.read_exact_volatile(&mut vs)),
                        2 => vn(bf.write_volatile(&vs)),
                        _ => vu(bf.write_all_volatile(&vs)),
                    };
                }
            }
            s.fd_op(vm, false, opc, &mut arena, blen)
        })
    } else {
        let r = util::catch(|| if rd { s.read(vm, &mut arena, blen, opc == 1) } else { s.write(vm, &mut arena, blen, opc == 3) });
        (r, 0)
    };
    let rc = rc.unwrap_or((8, 0));
    let margins = arena[..MARGIN].iter().all(|&x| x == CANARY) && arena[MARGIN + blen..].iter().all(|&x| x == CANARY);
    let buf = &arena[MARGIN..MARGIN + blen];
    let queue = matches!(kind, 6 | 7 | 16 | 18);
    let (data, p, out) = s.observe_bytes();
    // what is still queued for the reader of a byte queue (read directly, the case is over)
    let still: Vec<u8> = if queue && kind != 18 { drain(s.raw_fd(true)) } else { vec![] };
    let (moved, d1, d2, rest, apos, slen);
    if rd {
        let start = match kind {
            3 | 8 => (pos.min(clen as u64)) as usize,
            6 | 7 | 16 => 0,
            _ => pos as usize,
        };
        moved = if queue { (clen as u64).saturating_sub(p) } else { p.wrapping_sub(pos) };
        let m = (moved as usize).min(blen);
        d1 = if moved as usize > blen { blen as u64 } else { first_diff(buf, 0, m, |i| content.get(start + i).copied()) };
        d2 = first_diff(buf, m, blen, |i| Some(prefill[i]));
        rest = if queue { still[..] == content[(moved as usize).min(clen)..] } else { data == content };
        apos = if queue { 0 } else { p };
        slen = if queue { p } else { data.len() as u64 };
    } else {
        let sink: Vec<u8> = match kind {
            2 => data.get(clen..).map(|x| x.to_vec()).unwrap_or_default(),
            5 | 20 => {
                let (a, b) = (pos as usize, p as usize);
                if b >= a && b <= data.len() { data[a..b].to_vec() } else { vec![] }
            }
            _ => out.clone(),
        };
        moved = match kind {
            5 | 20 => p.wrapping_sub(pos),
            _ => sink.len() as u64,
        };
        let m = (moved as usize).min(blen).min(sink.len());
        d1 = if moved as usize != sink.len() || moved as usize > blen { 0 } else { first_diff(&sink, 0, m, |i| Some(prefill[i])) };
        d2 = first_diff(buf, 0, blen, |i| Some(prefill[i]));
        rest = match kind {
            2 => data.len() >= clen && data[..clen] == content[..],
            5 | 20 => {
                // bytes before the offset: the old contents, then zeros when the offset lies past the old end; bytes
                // behind the written range: the old contents; the size: max(old size, end of the written range)
                let (a, b) = (pos as usize, p as usize);
                let size_ok = data.len() == if moved > 0 { clen.max(b) } else { clen };
                size_ok
                    && (0..a.min(data.len())).all(|i| data[i] == if i < clen { content[i] } else { 0 })
                    && (b..data.len()).all(|i| i < clen && data[i] == content[i])
            }
            18 => true,
            _ => still == content,
        };
        apos = if queue || kind == 2 { 0 } else { p };
        slen = match kind {
            2 | 5 | 20 => data.len() as u64,
            18 => 0,
            _ => still.len() as u64,
        };
    }
    [rc.0, rc.1, moved, d1, d2, margins as u64, rest as u64, calls, apos, slen]
}

fn exec_big(case: &[Tok]) -> Vec<Tok> {
    fdscript::self_test();
    fdscript::watched(|| exec_big_inner(case))
}
fn exec_big_inner(case: &[Tok]) -> Vec<Tok> {
    let kind = case[1].u();
    let clen = case[2].u();
    let pos = case[3].u();
    let opc = case[4].u();
    let blen = case[5].u();
    let script = script_of(&case[6]);
    let (cpat, bpat) = (case[7].u(), case[8].u());
    const MAXB: u64 = 64 << 20;
    assert!(clen <= MAXB && blen <= MAXB && opc <= 3 && cpat < 251 && bpat < 251 && script.len() <= 16);
    let is_fd = matches!(kind, 5 | 20 | 6 | 7 | 16 | 18);
    assert!(is_fd || script.is_empty());
    match kind {
        0 => assert!(pos <= clen && opc <= 1),
        3 | 8 => assert!(opc <= 1),
        2 => assert!(pos == 0 && opc >= 2),
        5 | 20 => assert!(pos <= MAXB),
        6 | 7 | 16 => assert!(pos == 0),
        18 => assert!(pos == 0 && opc >= 2),
        _ => panic!("bad kind"),
    }
    let a = big_run(kind, true, clen as usize, pos, opc, blen as usize, &script, cpat, bpat);
    let t = big_run(kind, false, clen as usize, pos, opc, blen as usize, &script, cpat, bpat);
    let mut out: Vec<Tok> = a.iter().map(|x| n(*x)).collect();
    if t[0] == 0 || t[0] == 1 {
        out.extend([n(t[0]), n(t[1]), n(t[2]), n(t[3]), n(t[8]), n(t[9])]);
    } else {
        // std leaves stream and buffer unspecified after a failure
        out.extend([n(t[0]), n(t[1]), n(0u8), n(0u8), n(0u8), n(0u8)]);
    }
    out
}

fn gen_big(rng: &mut Rng, tier: Tier, emit: &mut dyn FnMut(Vec<Tok>)) {
    let mode = crate::build_mode();
    let quick = tier == Tier::Quick;
    const M: u64 = 1 << 20;
    let sizes: [u64; 8] = [4095, 4096, 4097, 65536, M - 1, M, M + 1, 3 * M];
    let mut case = |rng: &mut Rng, kind: u64, clen: u64, pos: u64, opc: u64, blen: u64, script: &[u128]| {
        emit(vec![n(mode), n(kind), n(clen), n(pos), n(opc), n(blen), Tok::L(script.to_vec()), n(rng.below(251)), n(rng.below(251))])
    };
    let mut i = 0u64;
    for kind in [0u64, 2, 3, 8, 5, 20, 6, 7, 16, 18] {
        let is_fd = matches!(kind, 5 | 20 | 6 | 7 | 16 | 18);
        let ops: &[u64] = match kind {
            0 | 3 | 8 => &[0, 1],
            2 | 18 => &[2, 3],
            _ => &[0, 1, 2, 3],
        };
        // (stream length, buffer length): equal, stream shorter, stream longer
        let mut pairs: Vec<(u64, u64)> = sizes.iter().map(|s| (*s, *s)).collect();
        pairs.extend([(4096, 65536), (65536, 4097), (M + 1, 3 * M), (3 * M, M + 1), (3 * M, M), (M - 1, M), (0, M + 1)]);
        for (clen, blen) in pairs {
            for &opc in ops {
                i += 1;
                // the quick tier runs every large (kind, size pair) with the up-to forms (ONE call must move the whole
                // buffer) and a third of the exact forms
                if quick && clen >= M - 1 && (opc == 1 || opc == 3) && i % 3 != 0 {
                    continue;
                }
                let clen = if kind == 18 { 0 } else { clen };
                let pos = match kind {
                    0 | 5 | 20 if i % 3 == 0 && clen > 100 => 100,
                    3 | 8 if i % 3 == 0 => clen + 5,
                    3 | 8 if i % 3 == 1 && clen > 7 => 7,
                    _ => 0,
                };
                case(rng, kind, clen, pos, opc, blen, &[]);
                if is_fd && (!quick || i % 2 == 0) {
                    // big pieces: the first call moves at most M + 1 bytes / is interrupted / 4096 bytes then an error
                    let k1 = 16 + (M + 1) as u128;
                    case(rng, kind, clen, pos, opc, blen, &[k1]);
                    case(rng, kind, clen, pos, opc, blen, &[2, 16 + 4096, 2, 0]);
                    if !quick {
                        case(rng, kind, clen, pos, opc, blen, &[16 + 65536, 4]);
                        case(rng, kind, clen, pos, opc, blen, &[0, 1]);
                    }
                }
            }
        }
    }
}
