//! Suite C18arr (array forms on zero-sized element types) lives in c18.rs (standard builds); this is its empty
//! stand-in in the Xen builds, like the C18 / C18huge stand-ins of c18_xen.rs.
use crate::{Rng, Suite, Tier, Tok};

fn nogen(_: &mut Rng, _: Tier, _: &mut dyn FnMut(Vec<Tok>)) {}
fn noexec(_: &[Tok]) -> Vec<Tok> {
    vec![Tok::N(0xbad0bad)]
}

pub const SUITES: &[Suite] = &[Suite { name: "C18arr", gen: nogen, exec: noexec }];
