//! Suites C05 / C16 (one generator + executor, registered under both names): dirty-bitmap tracking.
//!
//! Runs in the standard build AND in the Xen build (src/mmap/xen.rs instead of unix.rs): there the regions are built with
//! `MmapRegion::<B>::from_range(MmapRange::new_unix(..))` or - region kind 1 - as a GRANT region mapped in advance over the emulated
//! gntdev of c17_xen.rs; the Xen constructor creates the bitmap itself (`B::with_len(size)`, B: NewBitmap), so every bitmap
//! flavour implements NewBitmap here, taking the page size of the case from a static set just before the constructor runs
//! (flavour 7, and flavour 1 with ps = 4096, are the crate's own `AtomicBitmap::with_len`).
//!
//! case:  hostmod nregions [start,size,ps,flavour + 16*rkind]*  step*      (each step one list token)
//!   rkind 2..8: the region is made by one of the crate's OWN bitmap-creating constructors (the bitmap is `B::with_len(size)` made
//!   INSIDE the crate): 2 MmapRegion::<B>::new(size)  3 MmapRegion::from_file(memfd, size)  4 MmapRegion::build(None, size, prot, flags)
//!   5 MmapRegion::build_raw(own mmap)  (2..5: standard build; the Xen build has none of them and takes kind 0)
//!   6 GuestRegionMmap::from_range(start, size, None | Some(memfd) by region index)  7 GuestMemoryMmap::<B>::from_ranges (one page size
//!   for all regions)  8 GuestMemoryMmap::<B>::from_ranges_with_files (memfd for odd region indices)   (6..8: both builds)
//!   rkind 0: the build's ordinary anonymous region; 1 (start a multiple of 4096): in the Xen build a grant region mapped in
//!   advance, in the standard build the ordinary region again
//!   step  [0, ri, opcode, a1, a2, a3, a4, nchain, (dop, x, y, z)*]   accessor derived from region ri, then one op
//!         [1, opcode, a1, a2, a3]                                    guest-memory level op
//!         [2, ri]                                                    bitmap reset
//!         [3, ri, off, len]                                          reset_addr_range
//!         [4, ri, rj, doff, dlen, nchain, (dop, x, y, z)*]           slice-to-slice copy: accessor derived from region ri
//!                                                                    (slice or array) .copy_to_volatile_slice(region rj .get_slice(doff, dlen))
//!         [5, ri, rk, rx, ry, rz, opcode, a1, a2, a3, a4, nchain, (dop, x, y, z)*]   as step 0, but the FIRST accessor is
//!               rk = 0 region.as_volatile_slice()      1 MmapRegion::get_slice(rx, ry) (the mapping behind the region, Deref)
//!                    2 GuestRegionMmap::get_slice(MemoryRegionAddress(rx), ry)      3 gm.get_slice(GuestAddress(rx), ry)
//!                    4 MmapRegion::get_ref::<T>(rx), size_of T = ry                 5 MmapRegion::get_array_ref::<T>(rx, rz), size_of T = ry
//!         [6, ri, opcode, a1, a2, a3, a4]      REGION layer: the op issued as regs[ri].<op>(.., MemoryRegionAddress(a2)) (Bytes<MemoryRegionAddress>);
//!               opcodes of the slice level (0 1 2 4 5 6 7 8 9 11 12 19) + 21 write_obj::<T> / 22 read_obj::<T> (size_of T = a1)
//!         [7, ri, rk, rx, ry, rz, rj, doff, dlen, nchain, (dop, x, y, z)*]   as step 4, source chain from first accessor rk (not 3),
//!               destination regs[rj].get_slice(MemoryRegionAddress(doff), dlen) (the region's own get_slice)
//!         [8, ri, q, a]   QUERY, writes nothing: q 0 regs[ri].get_host_address(MemoryRegionAddress(a)) (count 1 when granted)
//!               1 gm.get_host_address(GuestAddress(a)) (count 1)   2 regs[ri].as_ptr() + len() + bitmap() (count 0)
//!   accessor opcodes 23 / 24 (steps 0 and 5, not root kind 3): `ptr_guard()` / `ptr_guard_mut()` of the accessor (slice, typed
//!         reference or element array) taken, `as_ptr()` / `len()` read, and dropped: count = the accessor's len()
//! obs:   per step  [ok,count,late]  then per region  [dirty bit per page, +2 margin]  [changed-byte runs o,n,...]
//!
//!   accessor opcode 6 (descriptor read) a4: 0 a file holding a3 bytes, 1 a write-only descriptor (EBADF, nothing
//!         stored), 2 a read that FAILS PART-WAY: the source is a datagram of a1 bytes and the host pages of the
//!         region from region offset a3 (a multiple of 4096) on are mprotect()ed to PROT_NONE through the raw host
//!         pointer for the duration of the call: the kernel stores the bytes in front of a3, then returns EFAULT.
//!
//!   late (bitmap flavour 5 only, else 0): number of pages holding a byte that changed AFTER the last mark_dirty call
//!         covering the page.  Flavour 5 is a third-party `Bitmap` (struct Probe) wrapping AtomicBitmap; on every
//!         mark_dirty call it notes which bytes of the covered pages already differ from X.
//!
//! Observation is independent of the accessors under test: before every step all region memory is
//! filled (raw pointer) with the byte X, everything the step writes is the byte Y != X, and afterwards
//! the memory is scanned (raw pointer) for bytes != X; the bitmap is scanned with dirty_at on every page.
use crate::tok::n;
use crate::{Rng, Suite, Tier, Tok};
use std::num::NonZeroUsize;
use std::sync::atomic::{AtomicUsize, Ordering};
use std::sync::Arc;
use std::sync::Mutex;
use vm_memory::bitmap::{ArcSlice, AtomicBitmap, Bitmap, BitmapSlice, RefSlice, WithBitmapSlice};
#[cfg(not(feature = "xen"))]
use vm_memory::mmap::MmapRegionBuilder;
use vm_memory::volatile_memory::{VolatileArrayRef, VolatileRef};
use vm_memory::{
    ByteValued, Bytes, GuestAddress, GuestMemory, GuestMemoryMmap, GuestMemoryRegion, GuestRegionMmap, MemoryRegionAddress,
    VolatileMemory, VolatileSlice,
};

pub const SUITES: &[Suite] = &[Suite { name: "C05", gen, exec }, Suite { name: "C16", gen, exec }];

/// raw host base / mapping length of the region the current accessor step works on (for opcode 6, a4 = 2)
static REGION_BASE: AtomicUsize = AtomicUsize::new(0);
static REGION_MAPLEN: AtomicUsize = AtomicUsize::new(0);
/// region offset from which the host pages of the current region are inaccessible (opcode 6, a4 = 2), else MAX
static NOACCESS_FROM: AtomicUsize = AtomicUsize::new(usize::MAX);

/// host range of the SOURCE of a slice-to-slice copy step (pre-filled with Y through the raw pointer, so
/// not a change made by the library: excluded from the changed-byte scan and from the late-store probe)
static SRC_LO: AtomicUsize = AtomicUsize::new(0);
static SRC_LEN: AtomicUsize = AtomicUsize::new(0);
fn in_src(addr: usize) -> bool {
    let (lo, len) = (SRC_LO.load(Ordering::SeqCst), SRC_LEN.load(Ordering::SeqCst));
    addr >= lo && addr - lo < len
}

/// before a slice-to-slice copy: refuses (None) when source and destination overlap (decided on the
/// pointers the accessors themselves report), else fills the source with Y through the raw pointer and
/// returns the number of bytes the copy is to move
fn copy_prepare<S: BitmapSlice>(sp: usize, sl: usize, d: &VolatileSlice<S>) -> Option<u64> {
    let (dp, dl) = (d.ptr_guard().as_ptr() as usize, d.len());
    if sl > 0 && dl > 0 && sp < dp + dl && dp < sp + sl {
        return None;
    }
    if sl > 0 {
        unsafe { std::ptr::write_bytes(sp as *mut u8, Y, sl) };
    }
    SRC_LO.store(sp, Ordering::SeqCst);
    SRC_LEN.store(sl, Ordering::SeqCst);
    Some(std::cmp::min(sl, dl) as u64)
}

const X: u8 = 0x11;
const Y: u8 = 0xee;

/// harness-side wrapper exercising ArcSlice (same shape as the crate-private AtomicBitmapArc)
pub struct ArcBm(Arc<AtomicBitmap>);
impl WithBitmapSlice<'_> for ArcBm {
    type S = ArcSlice<AtomicBitmap>;
}
impl Bitmap for ArcBm {
    fn mark_dirty(&self, offset: usize, len: usize) {
        self.0.set_addr_range(offset, len)
    }
    fn dirty_at(&self, offset: usize) -> bool {
        self.0.is_addr_set(offset)
    }
    fn slice_at(&self, offset: usize) -> ArcSlice<AtomicBitmap> {
        ArcSlice::new(self.0.clone(), offset)
    }
}

/// what the region constructor of the build needs from the bitmap type: the Xen constructor (`MmapRegion::from_range`) creates
/// the bitmap itself through `NewBitmap::with_len(size)`
trait FlBase: vm_memory::bitmap::NewBitmap {}
impl<T: vm_memory::bitmap::NewBitmap> FlBase for T {}

/// page size `with_len` of the harness flavours uses (set from the case just before a region is constructed)
static NEXT_PS: AtomicUsize = AtomicUsize::new(4096);
macro_rules! new_bitmap_via_make {
    ($($t:ty),*) => {$(
        impl Default for $t {
            fn default() -> Self {
                <$t as Flavour>::make(0, 1)
            }
        }
        impl vm_memory::bitmap::NewBitmap for $t {
            fn with_len(len: usize) -> Self {
                <$t as Flavour>::make(len, NEXT_PS.load(Ordering::SeqCst))
            }
        }
    )*};
}
new_bitmap_via_make!(Probe, OptSome, OptNone, Grown, WithLenBm, ArcBm, Unit, PlainBm);

/// flavour 1 in the Xen build when the page size of the case is not the host page: AtomicBitmap::new(size, ps) behind a
/// newtype (AtomicBitmap's own `with_len` fixes the page size)
pub struct PlainBm(AtomicBitmap);
impl<'a> WithBitmapSlice<'a> for PlainBm {
    type S = RefSlice<'a, AtomicBitmap>;
}
impl Bitmap for PlainBm {
    fn mark_dirty(&self, o: usize, l: usize) {
        self.0.mark_dirty(o, l)
    }
    fn dirty_at(&self, o: usize) -> bool {
        self.0.dirty_at(o)
    }
    fn slice_at(&self, o: usize) -> RefSlice<'_, AtomicBitmap> {
        self.0.slice_at(o)
    }
}
impl Flavour for PlainBm {
    fn make(size: usize, ps: usize) -> Self {
        PlainBm(AtomicBitmap::new(size, NonZeroUsize::new(ps).unwrap()))
    }
    fn inner(&self) -> Option<&AtomicBitmap> {
        Some(&self.0)
    }
}

trait Flavour: FlBase + Sized {
    fn make(size: usize, ps: usize) -> Self;
    fn inner(&self) -> Option<&AtomicBitmap>;
    /// tells the bitmap where its region's memory is (probing flavour only)
    fn attach(&self, _base: usize) {}
    /// pages holding a changed byte not covered by a LATER mark_dirty call; forgets the notes
    fn take_late(&self) -> u64 {
        0
    }
}

/// flavour 5: a third-party Bitmap that probes the ORDER of "store the bytes" and "mark_dirty".
/// Every mark_dirty call (forwarded to an AtomicBitmap) notes which bytes of the pages it covers
/// have already changed (differ from the fill byte X); a changed byte that no such note covers was
/// stored after the last mark of its page - a reset falling in between would lose it.
pub struct Probe {
    inner: AtomicBitmap,
    ps: usize,
    size: usize,
    base: AtomicUsize,
    safe: Mutex<Vec<bool>>,
}
impl<'a> WithBitmapSlice<'a> for Probe {
    type S = RefSlice<'a, Probe>;
}
impl Bitmap for Probe {
    fn mark_dirty(&self, offset: usize, len: usize) {
        self.inner.set_addr_range(offset, len);
        let base = self.base.load(Ordering::SeqCst);
        if len == 0 || base == 0 {
            return;
        }
        let first = offset / self.ps;
        let last = offset.saturating_add(len - 1) / self.ps;
        let np = self.size.div_ceil(self.ps);
        let limit = std::cmp::min(self.size, NOACCESS_FROM.load(Ordering::SeqCst));
        let mut safe = self.safe.lock().unwrap();
        let mut p = first;
        while p <= last && p < np {
            let lo = p * self.ps;
            let hi = std::cmp::min(lo.saturating_add(self.ps), limit);
            for b in lo..hi.max(lo) {
                // SAFETY: b < size, accessible (below the inaccessible part, if any)
                if unsafe { std::ptr::read_volatile((base + b) as *const u8) } != X {
                    safe[b] = true;
                }
            }
            p += 1;
        }
    }
    fn dirty_at(&self, offset: usize) -> bool {
        self.inner.is_addr_set(offset)
    }
    fn slice_at(&self, offset: usize) -> RefSlice<'_, Probe> {
        RefSlice::new(self, offset)
    }
}
impl Flavour for Probe {
    fn make(size: usize, ps: usize) -> Self {
        Probe {
            inner: AtomicBitmap::new(size, NonZeroUsize::new(ps).unwrap()),
            ps,
            size,
            base: AtomicUsize::new(0),
            safe: Mutex::new(vec![false; size]),
        }
    }
    fn inner(&self) -> Option<&AtomicBitmap> {
        Some(&self.inner)
    }
    fn attach(&self, base: usize) {
        self.base.store(base, Ordering::SeqCst);
    }
    fn take_late(&self) -> u64 {
        let base = self.base.load(Ordering::SeqCst);
        let mut safe = self.safe.lock().unwrap();
        let np = self.size.div_ceil(self.ps);
        let mut late = 0;
        for p in 0..np {
            let lo = p * self.ps;
            let hi = std::cmp::min(lo.saturating_add(self.ps), self.size);
            if (lo..hi).any(|b| unsafe { std::ptr::read_volatile((base + b) as *const u8) } != X && !safe[b] && !in_src(base + b)) {
                late += 1;
            }
        }
        for x in safe.iter_mut() {
            *x = false;
        }
        late
    }
}
impl Flavour for AtomicBitmap {
    fn make(size: usize, ps: usize) -> Self {
        AtomicBitmap::new(size, NonZeroUsize::new(ps).unwrap())
    }
    fn inner(&self) -> Option<&AtomicBitmap> {
        Some(self)
    }
}
struct OptSome(Option<AtomicBitmap>);
struct OptNone(Option<AtomicBitmap>);
macro_rules! fwd_opt {
    ($t:ident, $mk:expr) => {
        impl<'a> WithBitmapSlice<'a> for $t {
            type S = <Option<AtomicBitmap> as WithBitmapSlice<'a>>::S;
        }
        impl Bitmap for $t {
            fn mark_dirty(&self, o: usize, l: usize) {
                self.0.mark_dirty(o, l)
            }
            fn dirty_at(&self, o: usize) -> bool {
                self.0.dirty_at(o)
            }
            fn slice_at(&self, o: usize) -> <Self as WithBitmapSlice>::S {
                self.0.slice_at(o)
            }
        }
        impl Flavour for $t {
            fn make(size: usize, ps: usize) -> Self {
                $t(($mk)(size, ps))
            }
            fn inner(&self) -> Option<&AtomicBitmap> {
                self.0.as_ref()
            }
        }
    };
}
fwd_opt!(OptSome, |s, p| Some(AtomicBitmap::new(s, NonZeroUsize::new(p).unwrap())));
fwd_opt!(OptNone, |_s, _p| None);
/// flavour 6: an AtomicBitmap that reached the region's size by growing (new(s0) + enlarge + enlarge, the first
/// enlarge staying within the slack of the last page where possible): what a region sees must not depend on how the
/// bitmap got its size (state left behind by enlarge)
pub struct Grown(AtomicBitmap);
impl<'a> WithBitmapSlice<'a> for Grown {
    type S = RefSlice<'a, AtomicBitmap>;
}
impl Bitmap for Grown {
    fn mark_dirty(&self, o: usize, l: usize) {
        self.0.mark_dirty(o, l)
    }
    fn dirty_at(&self, o: usize) -> bool {
        self.0.dirty_at(o)
    }
    fn slice_at(&self, o: usize) -> RefSlice<'_, AtomicBitmap> {
        self.0.slice_at(o)
    }
}
impl Flavour for Grown {
    fn make(size: usize, ps: usize) -> Self {
        let s0 = size - size / 2;
        let slack = (ps - s0 % ps) % ps;
        let k1 = std::cmp::min(size - s0, std::cmp::max(1, slack / 2));
        let k2 = size - s0 - k1;
        let mut b = AtomicBitmap::new(s0, NonZeroUsize::new(ps).unwrap());
        if k1 > 0 {
            b.enlarge(k1);
        }
        if k2 > 0 {
            b.enlarge(k2);
        }
        Grown(b)
    }
    fn inner(&self) -> Option<&AtomicBitmap> {
        Some(&self.0)
    }
}
/// flavour 7: the bitmap every DEFAULT constructor of the crate creates (`MmapRegion::new`, `from_file`, `build`,
/// `GuestMemoryMmap::<AtomicBitmap>::from_ranges` ...): `<AtomicBitmap as NewBitmap>::with_len(size)`, one bit per HOST page
/// (sysconf(_SC_PAGE_SIZE), 4096 on this host; the case carries ps = 4096 and the decoder insists on it)
pub struct WithLenBm(AtomicBitmap);
impl<'a> WithBitmapSlice<'a> for WithLenBm {
    type S = RefSlice<'a, AtomicBitmap>;
}
impl Bitmap for WithLenBm {
    fn mark_dirty(&self, o: usize, l: usize) {
        self.0.mark_dirty(o, l)
    }
    fn dirty_at(&self, o: usize) -> bool {
        self.0.dirty_at(o)
    }
    fn slice_at(&self, o: usize) -> RefSlice<'_, AtomicBitmap> {
        self.0.slice_at(o)
    }
}
impl Flavour for WithLenBm {
    fn make(size: usize, _ps: usize) -> Self {
        WithLenBm(<AtomicBitmap as vm_memory::bitmap::NewBitmap>::with_len(size))
    }
    fn inner(&self) -> Option<&AtomicBitmap> {
        Some(&self.0)
    }
}
impl Flavour for ArcBm {
    fn make(size: usize, ps: usize) -> Self {
        ArcBm(Arc::new(AtomicBitmap::new(size, NonZeroUsize::new(ps).unwrap())))
    }
    fn inner(&self) -> Option<&AtomicBitmap> {
        Some(&self.0)
    }
}
struct Unit;
impl WithBitmapSlice<'_> for Unit {
    type S = ();
}
impl Bitmap for Unit {
    fn mark_dirty(&self, _o: usize, _l: usize) {}
    fn dirty_at(&self, _o: usize) -> bool {
        false
    }
    fn slice_at(&self, _o: usize) {}
}
impl Flavour for Unit {
    fn make(_s: usize, _p: usize) -> Self {
        Unit
    }
    fn inner(&self) -> Option<&AtomicBitmap> {
        None
    }
}

struct Geo {
    start: u64,
    size: usize,
    ps: usize,
}

fn exec(case: &[Tok]) -> Vec<Tok> {
    let nreg = case[1].u() as usize;
    let flavour = case[2].l()[3] as u64 % 16;
    match flavour {
        // Xen build: AtomicBitmap itself gets its page size from the host (NewBitmap::with_len)
        // ... and so it does in the standard build when the region comes from one of the crate's own constructors (rkind >= 2)
        1 if (cfg!(feature = "xen") || case[2].l()[3] / 16 >= 2) && case[2..2 + nreg].iter().any(|g| g.l()[2] != 4096) => run::<PlainBm>(case, nreg),
        1 => run::<AtomicBitmap>(case, nreg),
        2 => run::<OptSome>(case, nreg),
        3 => run::<ArcBm>(case, nreg),
        4 => run::<OptNone>(case, nreg),
        5 => run::<Probe>(case, nreg),
        6 => run::<Grown>(case, nreg),
        7 => run::<WithLenBm>(case, nreg),
        _ => run::<Unit>(case, nreg),
    }
}

fn bad() -> Vec<Tok> {
    vec![Tok::L(vec![9, 9])]
}

/// one tracked region of the case.  Standard build: MmapRegionBuilder::new_with_bitmap (the caller supplies the bitmap).
#[cfg(not(feature = "xen"))]
fn mk_region<B: Flavour>(start: u64, size: usize, ps: usize, rkind: u64, idx: usize, _devfd: &mut Option<i32>, raw: &mut Vec<(usize, usize)>) -> Option<GuestRegionMmap<B>> {
    use vm_memory::mmap::MmapRegion;
    NEXT_PS.store(ps, Ordering::SeqCst);
    let anon = libc::MAP_ANONYMOUS | libc::MAP_PRIVATE | libc::MAP_NORESERVE;
    let rw = libc::PROT_READ | libc::PROT_WRITE;
    let r = match rkind {
        // the crate's own constructors: the bitmap is created inside (B::with_len(size))
        2 => MmapRegion::<B>::new(size).ok()?,
        3 => MmapRegion::<B>::from_file(memfd_of(size), size).ok()?,
        4 => MmapRegion::<B>::build(None, size, rw, anon).ok()?,
        5 => {
            let len = size.div_ceil(4096) * 4096;
            let p = unsafe { libc::mmap(std::ptr::null_mut(), len, rw, anon, -1, 0) };
            if p == libc::MAP_FAILED {
                return None;
            }
            raw.push((p as usize, len));
            // SAFETY: p is a live private mapping of at least `size` bytes, unmapped by `run` after the regions are gone
            unsafe { MmapRegion::<B>::build_raw(p as *mut u8, size, rw, anon) }.ok()?
        }
        6 => return from_range_of::<B>(start, size, idx),
        // (0, and 1 = a Xen mapping kind: this build's ordinary region, the bitmap made by the harness)
        _ => MmapRegionBuilder::new_with_bitmap(size, B::make(size, ps)).with_mmap_prot(rw).with_mmap_flags(anon).build().ok()?,
    };
    GuestRegionMmap::new(r, GuestAddress(start)).ok()
}
/// a memfd of `size` bytes as a FileOffset at 0
fn memfd_of(size: usize) -> vm_memory::FileOffset {
    use std::os::fd::FromRawFd;
    let fd = unsafe { libc::memfd_create(b"vmh-dirty\0".as_ptr() as *const libc::c_char, 0) };
    assert!(fd >= 0);
    assert!(unsafe { libc::ftruncate(fd, size as libc::off_t) } == 0);
    vm_memory::FileOffset::new(unsafe { std::fs::File::from_raw_fd(fd) }, 0)
}
/// a memfd for odd `idx` (the from_range / from_ranges_with_files kinds pass idx + 1: regions 0, 2, .. are file-backed)
fn file_of(idx: usize, size: usize) -> Option<vm_memory::FileOffset> {
    if idx % 2 == 1 { Some(memfd_of(size)) } else { None }
}
/// rkind 6 (both builds): GuestRegionMmap::from_range
fn from_range_of<B: Flavour>(start: u64, size: usize, idx: usize) -> Option<GuestRegionMmap<B>> {
    GuestRegionMmap::<B>::from_range(GuestAddress(start), size, file_of(idx + 1, size)).ok()
}
/// Xen build: MmapRegion::<B>::from_range - the constructor creates the bitmap (B::with_len(size)); rkind 0 a Xen-UNIX range
/// (MmapRange::new_unix), rkind 1 a grant range mapped in advance over the emulated gntdev
#[cfg(feature = "xen")]
fn mk_region<B: Flavour>(start: u64, size: usize, ps: usize, rkind: u64, idx: usize, devfd: &mut Option<i32>, _raw: &mut Vec<(usize, usize)>) -> Option<GuestRegionMmap<B>> {
    use super::c17_xen::{dev_install, dev_memfd, dev_reset, file_offset_of};
    use vm_memory::mmap::{MmapRange, MmapRegion};
    NEXT_PS.store(ps, Ordering::SeqCst);
    if rkind == 6 {
        return from_range_of::<B>(start, size, idx);
    }
    let range = match rkind {
        0 | 2..=5 => {
            let mut r = MmapRange::new_unix(size, None, GuestAddress(start));
            r.set_flags(libc::MAP_ANONYMOUS | libc::MAP_PRIVATE | libc::MAP_NORESERVE);
            r
        }
        1 => {
            if start % 4096 != 0 || start > (1 << 40) || unsafe { libc::sysconf(libc::_SC_PAGESIZE) } != 4096 {
                return None;
            }
            let fd = *devfd.get_or_insert_with(|| {
                dev_install();
                dev_reset(false);
                // sparse: only the pages the regions touch ever exist
                dev_memfd((1 << 40) + (1 << 24))
            });
            // mmap_flags 2 = MmapXenFlags::GRANT (mapped in advance), domain 1
            MmapRange::new(size, Some(file_offset_of(fd, 0)), GuestAddress(start), 2, 1)
        }
        _ => return None,
    };
    let r = MmapRegion::<B>::from_range(range).ok()?;
    GuestRegionMmap::new(r, GuestAddress(start)).ok()
}

fn run<B: Flavour + 'static>(case: &[Tok], nreg: usize) -> Vec<Tok> {
    let mut geos = Vec::new();
    let mut regions = Vec::new();
    // Xen build, grant regions: one emulated device (a memfd whose page i is guest page i) behind all of them
    let mut devfd: Option<i32> = None;
    // mappings made by the harness itself for build_raw regions (rkind 5), unmapped at the end
    let mut raw: Vec<(usize, usize)> = Vec::new();
    let rkind0 = case[2].l()[3] as u64 / 16;
    for i in 0..nreg {
        let g = case[2 + i].l();
        let (start, size, ps) = (g[0] as u64, g[1] as usize, g[2] as usize);
        geos.push(Geo { start, size, ps });
    }
    let gm = if rkind0 == 7 || rkind0 == 8 {
        // the whole collection through the crate's own constructors; every region's bitmap is B::with_len(size) made inside
        if rkind0 == 7 {
            if geos.iter().any(|g| g.ps != geos[0].ps) {
                return bad();
            }
            NEXT_PS.store(geos[0].ps, Ordering::SeqCst);
            let v: Vec<(GuestAddress, usize)> = geos.iter().map(|g| (GuestAddress(g.start), g.size)).collect();
            GuestMemoryMmap::<B>::from_ranges(&v)
        } else {
            // the constructor builds the regions one by one while it walks the iterator: the page size of region i is
            // announced when the iterator hands out item i
            let it = geos.iter().enumerate().map(|(i, g)| {
                NEXT_PS.store(g.ps, Ordering::SeqCst);
                (GuestAddress(g.start), g.size, file_of(i + 1, g.size))
            });
            GuestMemoryMmap::<B>::from_ranges_with_files(it)
        }
    } else {
        for (i, g) in geos.iter().enumerate() {
            let rkind = case[2 + i].l()[3] as u64 / 16;
            match mk_region::<B>(g.start, g.size, g.ps, rkind, i, &mut devfd, &mut raw) {
                Some(x) => regions.push(x),
                None => return bad(),
            }
        }
        GuestMemoryMmap::from_regions(regions)
    };
    let gm = match gm {
        Ok(g) => g,
        Err(_) => return bad(),
    };
    let regs: Vec<&GuestRegionMmap<B>> = gm.iter().collect();
    for r in &regs {
        r.bitmap().attach(r.as_ptr() as usize);
    }
    let mut out = Vec::new();
    for st in &case[2 + nreg..] {
        let s: Vec<u64> = st.l().iter().map(|x| *x as u64).collect();
        // fill memory with X through the raw host pointers (not tracked, not through the library)
        for (r, g) in regs.iter().zip(&geos) {
            unsafe { std::ptr::write_bytes(r.as_ptr(), X, g.size) };
        }
        SRC_LEN.store(0, Ordering::SeqCst);
        let (ok, count) = match s[0] {
            0 => {
                let ri = s[1] as usize;
                if ri >= regs.len() {
                    (false, 0)
                } else {
                    REGION_BASE.store(regs[ri].as_ptr() as usize, Ordering::SeqCst);
                    REGION_MAPLEN.store(geos[ri].size.div_ceil(4096) * 4096, Ordering::SeqCst);
                    let root = regs[ri].as_volatile_slice().unwrap();
                    let nch = s[7] as usize;
                    let chain: Vec<[u64; 4]> = (0..nch).map(|k| [s[8 + 4 * k], s[9 + 4 * k], s[10 + 4 * k], s[11 + 4 * k]]).collect();
                    run_chain(&None, root, &chain, &s[2..7])
                }
            }
            1 => guest_op(&gm, &s[1..]),
            4 => {
                let (ri, rj) = (s[1] as usize, s[2] as usize);
                if ri >= regs.len() || rj >= regs.len() {
                    (false, 0)
                } else {
                    let root = regs[ri].as_volatile_slice().unwrap();
                    match regs[rj].as_volatile_slice().unwrap().get_slice(s[3] as usize, s[4] as usize) {
                        Err(_) => (false, 0),
                        Ok(d) => {
                            let nch = s[5] as usize;
                            let chain: Vec<[u64; 4]> = (0..nch).map(|k| [s[6 + 4 * k], s[7 + 4 * k], s[8 + 4 * k], s[9 + 4 * k]]).collect();
                            run_chain(&Some(d), root, &chain, &[20, 0, 0, 0, 0])
                        }
                    }
                }
            }
            5 => {
                let ri = s[1] as usize;
                let (rk, rx, ry, rz) = (s[2], s[3], s[4], s[5]);
                // the region the first accessor lands in, from the geometry of the case (rk = 3: a guest address)
                let ri_eff = if rk == 3 { geos.iter().position(|g| rx >= g.start && rx - g.start < g.size as u64) } else if ri < regs.len() { Some(ri) } else { None };
                if ri >= regs.len() {
                    (false, 0)
                } else {
                    if let Some(k) = ri_eff {
                        REGION_BASE.store(regs[k].as_ptr() as usize, Ordering::SeqCst);
                        REGION_MAPLEN.store(geos[k].size.div_ceil(4096) * 4096, Ordering::SeqCst);
                    }
                    let nch = s[11] as usize;
                    let chain: Vec<[u64; 4]> = (0..nch).map(|k| [s[12 + 4 * k], s[13 + 4 * k], s[14 + 4 * k], s[15 + 4 * k]]).collect();
                    run_root(&gm, regs[ri], &None, [rk, rx, ry, rz], &chain, &s[6..11])
                }
            }
            6 => {
                let ri = s[1] as usize;
                if ri >= regs.len() {
                    (false, 0)
                } else {
                    REGION_BASE.store(regs[ri].as_ptr() as usize, Ordering::SeqCst);
                    REGION_MAPLEN.store(geos[ri].size.div_ceil(4096) * 4096, Ordering::SeqCst);
                    region_op(regs[ri], &s[2..7])
                }
            }
            7 => {
                let (ri, rj) = (s[1] as usize, s[6] as usize);
                if ri >= regs.len() || rj >= regs.len() || s[2] == 3 {
                    (false, 0)
                } else {
                    match regs[rj].get_slice(MemoryRegionAddress(s[7]), s[8] as usize) {
                        Err(_) => (false, 0),
                        Ok(d) => {
                            let nch = s[9] as usize;
                            let chain: Vec<[u64; 4]> = (0..nch).map(|k| [s[10 + 4 * k], s[11 + 4 * k], s[12 + 4 * k], s[13 + 4 * k]]).collect();
                            run_root(&gm, regs[ri], &Some(d), [s[2], s[3], s[4], s[5]], &chain, &[20, 0, 0, 0, 0])
                        }
                    }
                }
            }
            8 => {
                let (ri, q, a) = (s[1] as usize, s[2], s[3]);
                match q {
                    1 => match gm.get_host_address(GuestAddress(a)) {
                        Ok(p) => (!p.is_null(), 1),
                        Err(_) => (false, 0),
                    },
                    _ if ri >= regs.len() => (false, 0),
                    0 => match regs[ri].get_host_address(MemoryRegionAddress(a)) {
                        Ok(p) => (!p.is_null(), 1),
                        Err(_) => (false, 0),
                    },
                    2 => {
                        let _ = (regs[ri].as_ptr(), GuestMemoryRegion::len(regs[ri]), regs[ri].start_addr(), regs[ri].bitmap().dirty_at(0));
                        (true, 0)
                    }
                    _ => (false, 0),
                }
            }
            2 => {
                if let Some(b) = regs.get(s[1] as usize).and_then(|r| r.bitmap().inner()) {
                    b.reset();
                }
                (true, 0)
            }
            3 => {
                if let Some(b) = regs.get(s[1] as usize).and_then(|r| r.bitmap().inner()) {
                    b.reset_addr_range(s[2] as usize, s[3] as usize);
                }
                (true, 0)
            }
            _ => (false, 0),
        };
        // the step has returned: every changed byte must have been noted by a mark of its page
        let late: u64 = if s[0] <= 1 || s[0] >= 4 { regs.iter().map(|r| r.bitmap().take_late()).sum() } else { 0 };
        out.push(Tok::L(vec![ok as u128, count as u128, late as u128]));
        for (r, g) in regs.iter().zip(&geos) {
            let np = g.size.div_ceil(g.ps);
            let bits: Vec<u128> = (0..np + 2).map(|p| r.bitmap().dirty_at(p.saturating_mul(g.ps)) as u128).collect();
            out.push(Tok::L(bits));
            let mem = unsafe { std::slice::from_raw_parts(r.as_ptr(), g.size) };
            let mut runs: Vec<u128> = Vec::new();
            let mut i = 0;
            let hb = r.as_ptr() as usize;
            let changed = |i: usize| mem[i] != X && !in_src(hb + i);
            while i < g.size {
                if changed(i) {
                    let s0 = i;
                    while i < g.size && changed(i) {
                        i += 1;
                    }
                    runs.push(s0 as u128);
                    runs.push((i - s0) as u128);
                } else {
                    i += 1;
                }
            }
            out.push(Tok::L(runs));
        }
    }
    drop(gm);
    for (p, len) in raw {
        unsafe { libc::munmap(p as *mut libc::c_void, len) };
    }
    if let Some(fd) = devfd {
        // the regions are gone (their grants unmapped through the emulated device): close the device
        unsafe { libc::close(fd) };
    }
    out
}

macro_rules! with_ty {
    ($sz:expr, $T:ident, $body:block, $else:block) => {
        match $sz {
            0 => { type $T = [u8; 0]; $body }
            1 => { type $T = u8; $body }
            2 => { type $T = u16; $body }
            3 => { type $T = [u8; 3]; $body }
            4 => { type $T = u32; $body }
            8 => { type $T = u64; $body }
            16 => { type $T = u128; $body }
            _ => $else,
        }
    };
}

fn yval<T: vm_memory::ByteValued>() -> T {
    let mut v = T::zeroed();
    for b in v.as_mut_slice() {
        *b = Y;
    }
    v
}

fn r1<T, E>(r: Result<T, E>, f: impl FnOnce(T) -> u64) -> (bool, u64) {
    match r {
        Ok(v) => (true, f(v)),
        Err(_) => (false, 0),
    }
}


/// the FIRST accessor of a step of kind 5 / 7 (root kind rk, see the header), then the chain and the op
fn run_root<'a, B: Bitmap + 'static>(
    gm: &'a GuestMemoryMmap<B>,
    reg: &'a GuestRegionMmap<B>,
    dst: &Option<VolatileSlice<'a, <B as WithBitmapSlice<'a>>::S>>,
    root: [u64; 4],
    chain: &[[u64; 4]],
    op: &[u64],
) -> (bool, u64) {
    let [rk, rx, ry, rz] = root;
    // the mapping behind the region (GuestRegionMmap: Deref<Target = MmapRegion<B>>)
    let map: &'a vm_memory::mmap::MmapRegion<B> = reg;
    match rk {
        0 => run_chain(dst, reg.as_volatile_slice().unwrap(), chain, op),
        1 => match VolatileMemory::get_slice(map, rx as usize, ry as usize) {
            Ok(s) => run_chain(dst, s, chain, op),
            Err(_) => (false, 0),
        },
        2 => match GuestMemoryRegion::get_slice(reg, MemoryRegionAddress(rx), ry as usize) {
            Ok(s) => run_chain(dst, s, chain, op),
            Err(_) => (false, 0),
        },
        3 => match gm.get_slice(GuestAddress(rx), ry as usize) {
            Ok(s) => run_chain(dst, s, chain, op),
            Err(_) => (false, 0),
        },
        4 => with_ty!(ry, T, {
            match map.get_ref::<T>(rx as usize) {
                Err(_) => (false, 0),
                Ok(r) => ref_rest(dst, r, chain, op),
            }
        }, { (false, 0) }),
        5 => with_ty!(ry, T, {
            match map.get_array_ref::<T>(rx as usize, rz as usize) {
                Err(_) => (false, 0),
                Ok(arr) => arr_rest(dst, arr, chain, op),
            }
        }, { (false, 0) }),
        _ => (false, 0),
    }
}

/// a typed reference: `to_slice` and on along the chain, or the op on the reference itself
fn ref_rest<'a, T: ByteValued, S: BitmapSlice>(dst: &Option<VolatileSlice<'a, S>>, r: VolatileRef<'a, T, S>, rest: &[[u64; 4]], op: &[u64]) -> (bool, u64) {
    match rest.first() {
        Some([6, ..]) => run_chain(dst, r.to_slice(), &rest[1..], op),
        Some(_) => (false, 0),
        None => match op[0] {
            13 => { r.store(yval::<T>()); (true, std::mem::size_of::<T>() as u64) }
            14 => { let _ = r.load(); (true, std::mem::size_of::<T>() as u64) }
            // a pointer guard taken, looked at and dropped: a query, writes nothing
            23 => { let g = r.ptr_guard(); let _ = (g.as_ptr(), g.len()); drop(g); (true, r.len() as u64) }
            24 => { let g = r.ptr_guard_mut(); let _ = (g.as_ptr(), g.len()); drop(g); (true, r.len() as u64) }
            _ => (false, 0),
        },
    }
}

/// an element array: `to_slice` / `ref_at` and on along the chain, or the op on the array itself
fn arr_rest<'a, T: ByteValued, S: BitmapSlice>(dst: &Option<VolatileSlice<'a, S>>, arr: VolatileArrayRef<'a, T, S>, rest: &[[u64; 4]], op: &[u64]) -> (bool, u64) {
    match rest.first() {
        Some([6, ..]) => run_chain(dst, arr.to_slice(), &rest[1..], op),
        Some([5, i, ..]) => {
            if (*i as usize) >= arr.len() { return (false, 0); }
            ref_rest(dst, arr.ref_at(*i as usize), &rest[1..], op)
        }
        Some(_) => (false, 0),
        None => {
            let esz = std::mem::size_of::<T>() as u64;
            match op[0] {
                15 => if (op[1] as usize) < arr.len() { arr.store(op[1] as usize, yval::<T>()); (true, esz) } else { (false, 0) },
                16 => if (op[1] as usize) < arr.len() { let _ = arr.load(op[1] as usize); (true, esz) } else { (false, 0) },
                17 => {
                    let buf: Vec<T> = (0..op[1] as usize).map(|_| yval::<T>()).collect();
                    arr.copy_from(&buf);
                    // copy_from returns (): the count is the number of elements that fit
                    (true, (op[1] as usize).min(arr.len()) as u64)
                }
                18 => {
                    let mut buf: Vec<T> = (0..op[1] as usize).map(|_| yval::<T>()).collect();
                    (true, arr.copy_to(&mut buf) as u64)
                }
                23 => { let g = arr.ptr_guard(); let _ = (g.as_ptr(), g.len()); drop(g); (true, arr.len() as u64) }
                24 => { let g = arr.ptr_guard_mut(); let _ = (g.as_ptr(), g.len()); drop(g); (true, arr.len() as u64) }
                20 => match dst {
                    // VolatileArrayRef::copy_to_volatile_slice into the destination slice of the step
                    Some(d) => {
                        let (sp, sl) = (arr.ptr_guard().as_ptr() as usize, arr.len() * arr.element_size());
                        match copy_prepare(sp, sl, d) {
                            Some(n) => {
                                arr.copy_to_volatile_slice(d.clone());
                                (true, n)
                            }
                            None => (false, 0),
                        }
                    }
                    None => (false, 0),
                },
                _ => (false, 0),
            }
        }
    }
}

/// processes the derivation chain on a slice accessor, then the operation `op` = [code,a1,a2,a3,a4]
fn run_chain<'a, S: BitmapSlice>(dst: &Option<VolatileSlice<'a, S>>, cur: VolatileSlice<'a, S>, chain: &[[u64; 4]], op: &[u64]) -> (bool, u64) {
    if chain.is_empty() {
        return slice_op(dst, &cur, op);
    }
    let [d, x, y, z] = chain[0];
    let rest = &chain[1..];
    match d {
        0 => match cur.get_slice(x as usize, y as usize) {
            Ok(s) => run_chain(dst, s, rest, op),
            Err(_) => (false, 0),
        },
        1 => match cur.offset(x as usize) {
            Ok(s) => run_chain(dst, s, rest, op),
            Err(_) => (false, 0),
        },
        2 => match cur.split_at(x as usize) {
            Ok((a, b)) => run_chain(dst, if y != 0 { b } else { a }, rest, op),
            Err(_) => (false, 0),
        },
        3 => with_ty!(y, T, {
            match cur.get_ref::<T>(x as usize) {
                Err(_) => (false, 0),
                Ok(r) => ref_rest(dst, r, rest, op),
            }
        }, { (false, 0) }),
        4 => with_ty!(y, T, {
            match cur.get_array_ref::<T>(x as usize, z as usize) {
                Err(_) => (false, 0),
                Ok(arr) => arr_rest(dst, arr, rest, op),
            }
        }, { (false, 0) }),
        _ => (false, 0),
    }
}

fn slice_op<'a, S: BitmapSlice>(dst: &Option<VolatileSlice<'a, S>>, s: &VolatileSlice<'a, S>, op: &[u64]) -> (bool, u64) {
    let (code, a1, a2) = (op[0], op[1] as usize, op[2] as usize);
    let cap = 1usize << 16;
    match code {
        3 => with_ty!(a1 as u64, T, {
            let buf: Vec<T> = (0..a2.min(cap)).map(|_| yval::<T>()).collect();
            s.copy_from(&buf);
            let esz = std::mem::size_of::<T>();
            let cnt = if esz == 0 { 0 } else if esz == 1 { a2.min(s.len()) } else { a2.min(s.len() / esz) };
            (true, cnt as u64)
        }, { (false, 0) }),
        10 => with_ty!(a1 as u64, T, {
            let mut buf: Vec<T> = (0..a2.min(cap)).map(|_| yval::<T>()).collect();
            (true, s.copy_to(&mut buf) as u64)
        }, { (false, 0) }),
        20 => match dst {
            // VolatileSlice::copy_to_volatile_slice into the destination slice of the step
            Some(d) => {
                let (sp, sl) = (s.ptr_guard().as_ptr() as usize, s.len());
                match copy_prepare(sp, sl, d) {
                    Some(n) => {
                        s.copy_to_volatile_slice(d.clone());
                        (true, n)
                    }
                    None => (false, 0),
                }
            }
            None => (false, 0),
        },
        21 | 22 => (false, 0),
        23 => { let g = s.ptr_guard(); let _ = (g.as_ptr(), g.len()); drop(g); (true, s.len() as u64) }
        24 => { let g = s.ptr_guard_mut(); let _ = (g.as_ptr(), g.len()); drop(g); (true, s.len() as u64) }
        _ => bytes_op(
            s,
            &|a| a,
            &|e| match e {
                vm_memory::VolatileMemoryError::PartialBuffer { completed, .. } => Some(*completed),
                _ => None,
            },
            op,
        ),
    }
}

/// REGION layer: `Bytes<MemoryRegionAddress> for GuestRegionMmap` (src/mmap/mod.rs)
fn region_op<B: Bitmap + 'static>(r: &GuestRegionMmap<B>, op: &[u64]) -> (bool, u64) {
    let (code, a1, a2) = (op[0], op[1] as usize, op[2]);
    let done = |e: &vm_memory::GuestMemoryError| match e {
        vm_memory::GuestMemoryError::PartialBuffer { completed, .. } => Some(*completed),
        _ => None,
    };
    let addr = MemoryRegionAddress(a2);
    match code {
        3 | 10 | 13..=18 | 20 => (false, 0),
        // write_obj / read_obj of a `size_of T = a1` object
        21 => with_ty!(a1 as u64, T, {
            match r.write_obj(yval::<T>(), addr) {
                Ok(()) => (true, a1 as u64),
                Err(e) => (false, done(&e).unwrap_or(0) as u64),
            }
        }, { (false, 0) }),
        22 => with_ty!(a1 as u64, T, {
            match r.read_obj::<T>(addr) {
                Ok(_) => (true, a1 as u64),
                Err(e) => (false, done(&e).unwrap_or(0) as u64),
            }
        }, { (false, 0) }),
        _ => bytes_op(r, &|a| MemoryRegionAddress(a as u64), &done, op),
    }
}

/// the op codes every `Bytes<A>` implementor has (slice level: A = usize; region level: A = MemoryRegionAddress);
/// `at` makes an address of the layer, `done` extracts `completed` from the layer's PartialBuffer error
fn bytes_op<A, L: Bytes<A>>(s: &L, at: &dyn Fn(usize) -> A, done: &dyn Fn(&L::E) -> Option<usize>, op: &[u64]) -> (bool, u64) {
    let (code, a1, a2, a3, a4) = (op[0], op[1] as usize, op[2] as usize, op[3] as usize, op[4]);
    let cap = 1usize << 16;
    match code {
        0 => r1(s.write(&vec![Y; a1.min(cap)], at(a2)), |v| v as u64),
        1 => match s.write_slice(&vec![Y; a1.min(cap)], at(a2)) {
            Ok(()) => (true, a1 as u64),
            Err(e) => (false, done(&e).unwrap_or(0) as u64),
        },
        2 => match a1 {
            1 => r1(s.store(Y, at(a2), Ordering::SeqCst), |_| 1),
            2 => r1(s.store(0xeeeeu16, at(a2), Ordering::SeqCst), |_| 2),
            4 => r1(s.store(0xeeee_eeeeu32, at(a2), Ordering::SeqCst), |_| 4),
            8 => r1(s.store(0xeeee_eeee_eeee_eeeeu64, at(a2), Ordering::SeqCst), |_| 8),
            _ => (false, 0),
        },
        4 => {
            let src = vec![Y; a3.min(cap)];
            r1(s.read_volatile_from(at(a2), &mut &src[..], a1), |v| v as u64)
        }
        5 => {
            let src = vec![Y; a3.min(cap)];
            r1(s.read_exact_volatile_from(at(a2), &mut &src[..], a1), |_| a1 as u64)
        }
        6 => {
            // a real descriptor: a temp file holding `a3` bytes of Y, or (a4 != 0) a write-only
            // descriptor on which read(2) fails with EBADF
            use std::io::{Seek, Write};
            use std::os::fd::FromRawFd;
            if a4 == 2 {
                if a3 % 4096 != 0 || a1 > 60_000 || a3 > 1 << 20 {
                    return (false, 0);
                }
                // one datagram of a1 bytes; host pages from region offset a3 on are inaccessible during the call
                let mut fds = [0i32; 2];
                assert_eq!(unsafe { libc::socketpair(libc::AF_UNIX, libc::SOCK_DGRAM | libc::SOCK_NONBLOCK, 0, fds.as_mut_ptr()) }, 0);
                let mut f = unsafe { std::fs::File::from_raw_fd(fds[0]) };
                let peer = unsafe { std::fs::File::from_raw_fd(fds[1]) };
                let msg = vec![Y; a1];
                let sent = unsafe { libc::send(fds[1], msg.as_ptr() as *const libc::c_void, a1, 0) };
                assert_eq!(sent, a1 as isize, "datagram send");
                let (base, maplen) = (REGION_BASE.load(Ordering::SeqCst), REGION_MAPLEN.load(Ordering::SeqCst));
                let guard = a3 < maplen;
                if guard {
                    assert_eq!(unsafe { libc::mprotect((base + a3) as *mut libc::c_void, maplen - a3, libc::PROT_NONE) }, 0);
                    NOACCESS_FROM.store(a3, Ordering::SeqCst);
                }
                let r = crate::util::catch(|| s.read_volatile_from(at(a2), &mut f, a1));
                NOACCESS_FROM.store(usize::MAX, Ordering::SeqCst);
                if guard {
                    assert_eq!(
                        unsafe { libc::mprotect((base + a3) as *mut libc::c_void, maplen - a3, libc::PROT_READ | libc::PROT_WRITE) },
                        0
                    );
                }
                drop(peer);
                match r {
                    Some(Ok(v)) => (true, v as u64),
                    Some(Err(_)) => (false, 0),
                    None => (false, 0xdead),
                }
            } else if a4 != 0 {
                let fd = unsafe { libc::open(b"/dev/null\0".as_ptr() as *const libc::c_char, libc::O_WRONLY) };
                let mut f = unsafe { std::fs::File::from_raw_fd(fd) };
                match s.read_volatile_from(at(a2), &mut f, a1) {
                    Ok(v) => (true, v as u64),
                    Err(_) => (false, 0),
                }
            } else {
                let fd = unsafe { libc::memfd_create(b"vmh\0".as_ptr() as *const libc::c_char, 0) };
                let mut f = unsafe { std::fs::File::from_raw_fd(fd) };
                f.write_all(&vec![Y; a3.min(cap)]).unwrap();
                f.rewind().unwrap();
                r1(s.read_volatile_from(at(a2), &mut f, a1), |v| v as u64)
            }
        }
        7 => r1(s.read(&mut vec![0u8; a1.min(cap)], at(a2)), |v| v as u64),
        8 => match s.read_slice(&mut vec![0u8; a1.min(cap)], at(a2)) {
            Ok(()) => (true, a1 as u64),
            Err(e) => (false, done(&e).unwrap_or(0) as u64),
        },
        9 => match a1 {
            1 => r1(s.load::<u8>(at(a2), Ordering::SeqCst), |_| 1),
            2 => r1(s.load::<u16>(at(a2), Ordering::SeqCst), |_| 2),
            4 => r1(s.load::<u32>(at(a2), Ordering::SeqCst), |_| 4),
            8 => r1(s.load::<u64>(at(a2), Ordering::SeqCst), |_| 8),
            _ => (false, 0),
        },
        11 => {
            let mut sink: Vec<u8> = Vec::new();
            r1(s.write_volatile_to(at(a2), &mut sink, a1), |v| v as u64)
        }
        12 => {
            let mut sink: Vec<u8> = Vec::new();
            r1(s.write_all_volatile_to(at(a2), &mut sink, a1), |_| a1 as u64)
        }
        19 => {
            // stream write OUT of memory into a real descriptor: a memfd that takes everything, or (a4 != 0) a
            // read-only descriptor on which write(2) fails with EBADF - neither may mark anything
            use std::os::fd::FromRawFd;
            let fd = if a4 != 0 {
                unsafe { libc::open(b"/dev/null\0".as_ptr() as *const libc::c_char, libc::O_RDONLY) }
            } else {
                unsafe { libc::memfd_create(b"vmhw\0".as_ptr() as *const libc::c_char, 0) }
            };
            let mut f = unsafe { std::fs::File::from_raw_fd(fd) };
            r1(s.write_volatile_to(at(a2), &mut f, a1.min(cap)), |v| v as u64)
        }
        _ => (false, 0),
    }
}

fn guest_op<B: Bitmap + 'static>(gm: &GuestMemoryMmap<B>, op: &[u64]) -> (bool, u64) {
    let (code, a1, a2, a3) = (op[0], op[1] as usize, op[2], op[3] as usize);
    let cap = 1usize << 16;
    let addr = GuestAddress(a2);
    match code {
        0 => r1(gm.write(&vec![Y; a1.min(cap)], addr), |v| v as u64),
        1 => match gm.write_slice(&vec![Y; a1.min(cap)], addr) {
            Ok(()) => (true, a1 as u64),
            Err(vm_memory::GuestMemoryError::PartialBuffer { completed, .. }) => (false, completed as u64),
            Err(_) => (false, 0),
        },
        2 => match a1 {
            1 => r1(gm.store(Y, addr, Ordering::SeqCst), |_| 1),
            2 => r1(gm.store(0xeeeeu16, addr, Ordering::SeqCst), |_| 2),
            4 => r1(gm.store(0xeeee_eeeeu32, addr, Ordering::SeqCst), |_| 4),
            8 => r1(gm.store(0xeeee_eeee_eeee_eeeeu64, addr, Ordering::SeqCst), |_| 8),
            _ => (false, 0),
        },
        3 => {
            let src = vec![Y; a3.min(cap)];
            r1(gm.read_volatile_from(addr, &mut &src[..], a1), |v| v as u64)
        }
        4 => r1(gm.read(&mut vec![0u8; a1.min(cap)], addr), |v| v as u64),
        5 => match a1 {
            1 => r1(gm.load::<u8>(addr, Ordering::SeqCst), |_| 1),
            2 => r1(gm.load::<u16>(addr, Ordering::SeqCst), |_| 2),
            4 => r1(gm.load::<u32>(addr, Ordering::SeqCst), |_| 4),
            8 => r1(gm.load::<u64>(addr, Ordering::SeqCst), |_| 8),
            _ => (false, 0),
        },
        _ => (false, 0),
    }
}

// ------------------------------------------------------------------------------------------ generator
fn pick_near(rng: &mut Rng, pivots: &[u64]) -> u64 {
    let p = *rng.pick(pivots);
    match rng.below(6) {
        0 => p,
        1 => p.wrapping_add(1),
        2 => p.saturating_sub(1),
        3 => p.wrapping_add(rng.below(9)),
        4 => p.saturating_sub(rng.below(9)),
        _ => p / 2,
    }
}

/// descriptor reads that fail part-way (opcode 6, a4 = 2) on regions spanning several host pages
fn gen_fault(rng: &mut Rng, tier: Tier, emit: &mut dyn FnMut(Vec<Tok>)) {
    let xen = cfg!(feature = "xen");
    let ncases = match (tier == Tier::Quick, xen) {
        (true, false) => 1500,
        (true, true) => 600,
        (false, false) => 30_000,
        (false, true) => 10_000,
    };
    for _ in 0..ncases {
        let flavour = *rng.pick(&[1u64, 1, 5, 5, 6, 6, 2, 3, 4, 0, 7, 7]);
        let ps = *rng.pick(&[64u64, 100, 512, 1024, 4096, 4096, 5000, 8192]);
        let ps = if flavour == 7 { 4096 } else { ps };
        let size = *rng.pick(&[4097u64, 4200, 8192, 8193, 12288, 16000, 20000]) + rng.below(3);
        let start = *rng.pick(&[0u64, 0x1000, 0x7fff_f000]);
        // Xen build: every third region is a grant region mapped in advance (the starts are page multiples)
        // ... and in both builds regions that come from the crate's own bitmap-creating constructors (kinds 2..8)
        let rkind = if xen { *rng.pick(&[0u64, 0, 1, 1, 6, 7, 8]) } else { *rng.pick(&[0u64, 0, 0, 2, 3, 4, 5, 6, 7, 8]) };
        let mut case = vec![n(0u8), n(1u8), Tok::of_u64s(&[start, size, ps, flavour + 16 * rkind])];
        for _ in 0..1 + rng.below(3) {
            // accessor: the region itself, a sub-slice, or an offset slice
            let mut chain: Vec<u64> = Vec::new();
            let (mut aoff, mut len, mut nch) = (0u64, size, 0u64);
            // first accessor: the whole region, or the region's / the mapping's / the guest memory's get_slice at an
            // (unaligned) offset; or no accessor at all: the op on the region layer
            let rk = *rng.pick(&[0u64, 0, 0, 1, 2, 3, 9]);
            let mut root = [0u64; 4];
            if (1..=3).contains(&rk) {
                let o = *rng.pick(&[1u64, 8, 100, 2048, 4000, 4088, 4095, 4097, 6000]) + rng.below(5);
                let o = o.min(size - 1);
                let c = size - o - rng.below((size - o) / 4 + 1);
                root = [rk, if rk == 3 { start + o } else { o }, c, 0];
                aoff = o;
                len = c;
            }
            for _ in 0..(if rk == 9 { 0 } else { rng.below(3) }) {
                if rng.bool() {
                    let o = rng.below(len / 2 + 1);
                    let c = len - o - rng.below((len - o) / 4 + 1);
                    chain.extend_from_slice(&[0, o, c, 0]);
                    aoff += o;
                    len = c;
                } else {
                    let c = rng.below(len / 3 + 1);
                    chain.extend_from_slice(&[1, c, 0, 0]);
                    aoff += c;
                    len -= c;
                }
                nch += 1;
            }
            let addr = match rng.below(4) {
                0 => 0,
                1 => rng.below(len + 1),
                _ => rng.below(len / 2 + 1),
            };
            let room = len - addr;
            let cnt = match rng.below(5) {
                0 => room,
                1 => room + 1 + rng.below(9),
                2 => rng.below(room + 1),
                3 => rng.below(4097),
                _ => 4096 + rng.below(4200),
            };
            let t0 = aoff + addr;
            let first = (t0 / 4096 + 1) * 4096;
            let fault = match rng.below(10) {
                0 => 0,
                1 => (t0 / 4096) * 4096,
                2 | 3 => first + 4096 * (1 + rng.below(3)),
                _ => first,
            };
            if rng.chance(1, 6) {
                // interleave a reset / an ordinary write so that marks of earlier steps matter
                case.push(Tok::of_u64s(&[2, 0]));
            }
            let mut st = match rk {
                9 => vec![6, 0, 6, cnt, addr, fault, 2],
                0 => vec![0, 0, 6, cnt, addr, fault, 2, nch],
                _ => vec![5, 0, root[0], root[1], root[2], root[3], 6, cnt, addr, fault, 2, nch],
            };
            st.extend_from_slice(&chain);
            case.push(Tok::of_u64s(&st));
        }
        emit(case);
    }
}

fn gen(rng: &mut Rng, tier: Tier, emit: &mut dyn FnMut(Vec<Tok>)) {
    gen_fault(rng, tier, emit);
    let xen = cfg!(feature = "xen");
    let ncases = match (tier == Tier::Quick, xen) {
        (true, false) => 8000,
        (true, true) => 3500,
        (false, false) => 120_000,
        (false, true) => 40_000,
    };
    for _ in 0..ncases {
        let flavour = *rng.pick(&[1u64, 1, 5, 5, 6, 6, 2, 3, 4, 0, 7]);
        // Xen build: a third of the cases on grant regions mapped in advance (starts rounded up to page multiples)
        // ... and in both builds regions made by the crate's own bitmap-creating constructors (kinds 2..8, see the header)
        let rkind = if xen { *rng.pick(&[0u64, 0, 0, 1, 1, 1, 6, 7, 8]) } else { *rng.pick(&[0u64, 0, 0, 0, 2, 3, 3, 4, 5, 6, 7, 8]) };
        let ps7 = *rng.pick(&[1u64, 7, 64, 4096]);
        let nreg = 1 + rng.below(3) as usize;
        let mut geos: Vec<(u64, u64, u64)> = Vec::new();
        let mut next = *rng.pick(&[0u64, 0x1000, 0x7fff_f000]);
        for _ in 0..nreg {
            let ps = *rng.pick(&[1u64, 2, 3, 7, 8, 64, 4096, 4096, 0]);
            // from_ranges makes all the bitmaps in one call: one page size
            let ps = if rkind == 7 { ps7 } else { ps };
            let ps = if flavour == 7 { 4096 } else { ps };
            let base_sizes = [1u64, 2, 5, 63, 64, 65, 130, 200];
            let (ps, size) = if ps == 0 {
                let size = *rng.pick(&base_sizes);
                (size + 5, size) // page larger than the region
            } else {
                let k = *rng.pick(&[1u64, 2, 3, 63, 64, 65, 130]);
                let size = (k * ps + rng.below(3)).saturating_sub(rng.below(2)).max(1).min(300 * ps).min(24_000);
                (ps, size)
            };
            geos.push((next, size, ps));
            next = next + size + *rng.pick(&[0u64, 0, 1, 7, 4096]);
            if rkind == 1 {
                next = (next + 4095) & !4095;
            }
        }
        let mut case = vec![n(0u8), n(nreg as u64)];
        for g in &geos {
            case.push(Tok::of_u64s(&[g.0, g.1, g.2, flavour + 16 * rkind]));
        }
        let nsteps = 1 + rng.below(8);
        for _ in 0..nsteps {
            let ri = rng.below(nreg as u64);
            let (_, size, ps) = geos[ri as usize];
            match rng.below(20) {
                0 => case.push(Tok::of_u64s(&[2, ri])),
                1 => {
                    let off = pick_near(rng, &[0, ps, size, size / 2]);
                    let len = pick_near(rng, &[0, 1, ps, size]);
                    case.push(Tok::of_u64s(&[3, ri, off, len]));
                }
                9 => {
                    // queries that write nothing: host address of a region offset / a guest address, the region's raw pointer
                    let (rstart, _, _) = geos[ri as usize];
                    let q = rng.below(3);
                    let off = pick_near(rng, &[0, size, size.saturating_sub(1), ps, size / 2, u64::MAX]);
                    let a = if q == 1 { rstart.wrapping_add(off) } else { off };
                    case.push(Tok::of_u64s(&[8, ri, q, a]));
                }
                5..=8 => {
                    // REGION layer (Bytes<MemoryRegionAddress>): every op code, in and out of range, short sources
                    let code = *rng.pick(&[0u64, 0, 1, 1, 2, 4, 4, 5, 5, 5, 6, 7, 8, 9, 11, 12, 19, 21, 21, 22]);
                    let off = pick_near(rng, &[0, size, size.saturating_sub(1), ps, size / 2, ps.saturating_sub(3), ps + ps / 2]);
                    let room = size.saturating_sub(off);
                    let (a1, off) = match code {
                        2 | 9 => {
                            let sz = *rng.pick(&[1u64, 2, 4, 8]);
                            (sz, if rng.chance(3, 4) { off & !(sz - 1) } else { off })
                        }
                        21 | 22 => (*rng.pick(&[1u64, 2, 3, 4, 8, 16, 0]), off),
                        _ => (pick_near(rng, &[0, 1, 8, ps, 2 * ps, room, room + 1, size, 2 * size + 9]).min(60_000), off),
                    };
                    let (a3, a4) = match code {
                        // in-memory sources: complete, short, empty
                        4 | 5 => (pick_near(rng, &[a1, a1, a1 / 2, 0, a1.saturating_sub(1), size]).min(60_000), 0),
                        6 if rng.chance(1, 4) => {
                            let first = (off / 4096 + 1) * 4096;
                            (if rng.chance(1, 4) { (off / 4096) * 4096 } else { first + 4096 * rng.below(2) }, 2)
                        }
                        6 => (pick_near(rng, &[a1, a1 / 2, 0, 3]).min(60_000), rng.below(3) / 2),
                        19 => (0, rng.below(2)),
                        _ => (0, 0),
                    };
                    case.push(Tok::of_u64s(&[6, ri, code, a1, off, a3, a4]));
                }
                2..=4 => {
                    // guest level
                    let (start, _, _) = geos[ri as usize];
                    let addr = start.wrapping_add(pick_near(rng, &[0, size, size.saturating_sub(1), ps, size / 2]));
                    let code = *rng.pick(&[0u64, 0, 1, 1, 2, 3, 4, 5]);
                    let a1 = match code {
                        2 | 5 => *rng.pick(&[1u64, 2, 4, 8]),
                        _ => pick_near(rng, &[0, 1, 8, ps, 2 * ps, size, 2 * size + 9]).min(60_000),
                    };
                    let addr = if code == 2 || code == 5 { if rng.chance(3, 4) { addr & !(a1 - 1) } else { addr } } else { addr };
                    let a3 = pick_near(rng, &[0, a1, a1 / 2, size]).min(60_000);
                    case.push(Tok::of_u64s(&[1, code, a1, addr, a3]));
                }
                _ => {
                    // accessor level: random derivation chain, lengths tracked so that most requests are valid
                    let mut chain: Vec<u64> = Vec::new();
                    let mut len = size;
                    let mut aoff = 0u64; // region offset of the accessor (meaningful while every request was valid)
                    let mut nch = 0u64;
                    let depth = rng.below(5);
                    let mut kind = 0u64; // 0 slice, 1 ref, 2 arr(esz,n)
                    let mut esz = 0u64;
                    let mut nel = 0u64;
                    // the FIRST accessor: region.as_volatile_slice() (0) or one of the crate's other ways to a first accessor
                    // of a region, at an offset that is mostly NOT a multiple of the page size
                    let rk = *rng.pick(&[0u64, 0, 0, 1, 2, 2, 3, 3, 4, 5]);
                    let mut root = [rk, 0u64, 0, 0];
                    let mut dead = false;
                    let (rstart, _, _) = geos[ri as usize];
                    let unaligned = |rng: &mut Rng| pick_near(rng, &[ps.saturating_sub(8), ps / 2 + 1, ps + ps / 2, size / 2, 1, 3 * ps + 5, size, 0]);
                    match rk {
                        1 | 2 | 3 => {
                            let o = unaligned(rng).min(size + 2);
                            let c = pick_near(rng, &[size.saturating_sub(o), size.saturating_sub(o), 16, ps, 2 * ps + 3, 1, 0]);
                            root = [rk, if rk == 3 { rstart.wrapping_add(o) } else { o }, c, 0];
                            if o.checked_add(c).map_or(false, |e| e <= size) && (rk != 3 || o < size) { len = c; aoff = o; } else { dead = true; }
                        }
                        4 => {
                            let sz = *rng.pick(&[1u64, 2, 3, 4, 8, 16, 0]);
                            let o = pick_near(rng, &[ps.saturating_sub(1), ps.saturating_sub(sz / 2), size.saturating_sub(sz), ps + 3, 0]);
                            root = [rk, o, sz, 0];
                            kind = 1;
                            len = sz;
                            aoff = o;
                            if o + sz > size { dead = true; }
                            else if rng.chance(1, 3) { chain.extend_from_slice(&[6, 0, 0, 0]); nch += 1; kind = 0; }
                        }
                        5 => {
                            let sz = *rng.pick(&[1u64, 2, 3, 4, 8, 16, 0]);
                            let o = unaligned(rng).min(size);
                            let maxn = if sz == 0 { 5 } else { (size - o) / sz };
                            let nn = pick_near(rng, &[maxn, maxn / 2, 1, 0, 5]).min(maxn + 1).min(2000);
                            root = [rk, o, sz, nn];
                            kind = 2;
                            esz = sz;
                            nel = nn;
                            len = nn * sz;
                            aoff = o;
                            if o + nn * sz > size { dead = true; } else {
                                match rng.below(4) {
                                    0 => { chain.extend_from_slice(&[6, 0, 0, 0]); nch += 1; kind = 0; }
                                    1 if nel > 0 => {
                                        let i = rng.below(nel);
                                        chain.extend_from_slice(&[5, i, 0, 0]); nch += 1; kind = 1; len = esz; aoff += i * esz;
                                        if rng.chance(1, 3) { chain.extend_from_slice(&[6, 0, 0, 0]); nch += 1; kind = 0; }
                                    }
                                    _ => {}
                                }
                            }
                        }
                        _ => {}
                    }
                    for _ in 0..depth {
                        if kind != 0 || dead {
                            break;
                        }
                        match rng.below(6) {
                            0 | 1 => {
                                let o = pick_near(rng, &[0, len / 2, len, ps]).min(len + 2);
                                let c = pick_near(rng, &[len.saturating_sub(o), 1, ps, 0]);
                                chain.extend_from_slice(&[0, o, c, 0]);
                                nch += 1;
                                if o.checked_add(c).map_or(false, |e| e <= len) { len = c; aoff += o; } else { break; }
                            }
                            2 => {
                                let c = pick_near(rng, &[0, len / 2, len, ps]);
                                chain.extend_from_slice(&[1, c, 0, 0]);
                                nch += 1;
                                if c <= len { len -= c; aoff += c; } else { break; }
                            }
                            3 => {
                                let m = pick_near(rng, &[0, len / 2, len, ps]);
                                let second = rng.below(2);
                                chain.extend_from_slice(&[2, m, second, 0]);
                                nch += 1;
                                if m <= len { if second != 0 { aoff += m; len -= m; } else { len = m; } } else { break; }
                            }
                            4 => {
                                let sz = *rng.pick(&[1u64, 2, 3, 4, 8, 16, 0]);
                                let o = pick_near(rng, &[0, len.saturating_sub(sz), ps.saturating_sub(1), len / 2]);
                                chain.extend_from_slice(&[3, o, sz, 0]);
                                nch += 1;
                                kind = 1;
                                len = sz;
                                if rng.chance(1, 3) { chain.extend_from_slice(&[6, 0, 0, 0]); nch += 1; kind = 0; }
                            }
                            _ => {
                                let sz = *rng.pick(&[1u64, 2, 3, 4, 8, 16, 0]);
                                let maxn = if sz == 0 { 5 } else { len / sz };
                                let nn = pick_near(rng, &[maxn, maxn / 2, 1, 0]).min(maxn + 1).min(2000);
                                let o = pick_near(rng, &[0, len.saturating_sub(nn * sz), ps.saturating_sub(1)]);
                                chain.extend_from_slice(&[4, o, sz, nn]);
                                nch += 1;
                                kind = 2;
                                esz = sz;
                                nel = nn;
                                len = nn * sz;
                                match rng.below(4) {
                                    0 => { chain.extend_from_slice(&[6, 0, 0, 0]); nch += 1; kind = 0; }
                                    1 if nel > 0 => {
                                        let i = rng.below(nel);
                                        chain.extend_from_slice(&[5, i, 0, 0]); nch += 1; kind = 1; len = esz;
                                        if rng.chance(1, 3) { chain.extend_from_slice(&[6, 0, 0, 0]); nch += 1; kind = 0; }
                                    }
                                    _ => {}
                                }
                            }
                        }
                    }
                    if rng.chance(1, 6) {
                        // slice-to-slice copy out of this accessor into a slice of some region
                        let mut rj = rng.below(nreg as u64);
                        if rj == ri && nreg > 1 && rng.chance(2, 3) {
                            rj = (ri + 1) % nreg as u64;
                        }
                        let (_, sizej, psj) = geos[rj as usize];
                        let (doff, dlen) = if rng.chance(3, 4) {
                            // a destination that exists; mostly clear of the source when in the same region
                            let mut doff = pick_near(rng, &[0, psj, sizej / 2, psj.saturating_sub(1), aoff + len]).min(sizej);
                            if rj == ri && doff < aoff + len && rng.chance(3, 4) {
                                doff = (aoff + len).min(sizej);
                            }
                            let room = sizej - doff;
                            (doff, pick_near(rng, &[len, 1, psj, room, len + psj, room / 2]).min(room))
                        } else {
                            (
                                pick_near(rng, &[0, psj, sizej / 2, sizej, psj.saturating_sub(1), aoff + len]).min(sizej + 2),
                                pick_near(rng, &[len, 1, psj, sizej, 0, len + psj]).min(sizej + 2),
                            )
                        };
                        let mut st = if rk == 0 && rng.bool() {
                            vec![4, ri, rj, doff, dlen, nch]
                        } else if rk == 3 {
                            // (no guest-memory source for the copy step: take the region's own get_slice)
                            vec![7, ri, 2, root[1].wrapping_sub(rstart), root[2], 0, rj, doff, dlen, nch]
                        } else {
                            vec![7, ri, root[0], root[1], root[2], root[3], rj, doff, dlen, nch]
                        };
                        st.extend_from_slice(&chain);
                        case.push(Tok::of_u64s(&st));
                        continue;
                    }
                    let (code, a1, a2, a3, a4) = match kind {
                        1 => (*rng.pick(&[13u64, 13, 14, 23, 24, 24]), 0, 0, 0, 0),
                        2 => {
                            let code = *rng.pick(&[15u64, 15, 16, 17, 17, 18, 23, 24]);
                            let a1 = if code >= 23 { 0 } else if code <= 16 { if nel > 0 { rng.below(nel) } else { 0 } } else { pick_near(rng, &[nel, nel / 2, 0, nel + 3]).min(3000) };
                            (code, a1, 0, 0, 0)
                        }
                        _ => {
                            let code = *rng.pick(&[0u64, 0, 1, 1, 2, 3, 3, 4, 5, 6, 6, 7, 8, 9, 10, 11, 12, 19, 19, 23, 24]);
                            match code {
                                23 | 24 => (code, 0, 0, 0, 0),
                                2 | 9 => {
                                    let sz = *rng.pick(&[1u64, 2, 4, 8]);
                                    let a = pick_near(rng, &[0, len.saturating_sub(sz), ps, len / 2]);
                                    (code, sz, if rng.chance(3, 4) { a & !(sz - 1) } else { a }, 0, 0)
                                }
                                3 | 10 => (code, *rng.pick(&[1u64, 1, 2, 3, 4, 8, 16, 0]), pick_near(rng, &[0, 1, len, len / 2, len + 3]).min(30_000), 0, 0),
                                6 if rng.chance(1, 3) => {
                                    // fails part-way: the first inaccessible host page starts inside the target (mostly)
                                    let cnt = pick_near(rng, &[1, ps, len, len + 5, 4096, 5000]).min(60_000);
                                    let addr = pick_near(rng, &[0, len / 2, len / 4, ps]);
                                    let t0 = aoff.saturating_add(addr);
                                    let first = (t0 / 4096 + 1) * 4096;
                                    let fault = match rng.below(8) {
                                        0 => 0,
                                        1 => (t0 / 4096) * 4096,
                                        2 => first + 4096 * rng.below(3),
                                        _ => first,
                                    };
                                    (code, cnt, addr, fault.min(1 << 20), 2)
                                }
                                6 => {
                                    let cnt = pick_near(rng, &[0, 1, ps, len, len + 5]).min(60_000);
                                    (code, cnt, pick_near(rng, &[0, len / 2, len, ps]), pick_near(rng, &[cnt, cnt / 2, 0, 3]).min(60_000), rng.below(3) / 2)
                                }
                                19 => {
                                    let cnt = pick_near(rng, &[0, 1, ps, len, len + 5]).min(60_000);
                                    (code, cnt, pick_near(rng, &[0, len / 2, len, ps]), 0, rng.below(2))
                                }
                                4 | 5 | 11 | 12 => {
                                    let cnt = pick_near(rng, &[0, 1, ps, len, len + 5]).min(60_000);
                                    (code, cnt, pick_near(rng, &[0, len / 2, len, ps]), pick_near(rng, &[cnt, cnt / 2, 0]).min(60_000), 0)
                                }
                                _ => (code, pick_near(rng, &[0, 1, 8, ps, len, len + 4]).min(60_000), pick_near(rng, &[0, len / 2, len, len.saturating_sub(1), ps]), 0, 0),
                            }
                        }
                    };
                    // (a pointer guard behind gm.get_slice is not a step kind: take the same accessor from the region)
                    let root = if rk == 3 && code >= 23 { [2, root[1].wrapping_sub(rstart), root[2], 0] } else { root };
                    let mut st = if rk == 0 { vec![0, ri, code, a1, a2, a3, a4, nch] } else { vec![5, ri, root[0], root[1], root[2], root[3], code, a1, a2, a3, a4, nch] };
                    st.extend_from_slice(&chain);
                    case.push(Tok::of_u64s(&st));
                }
            }
        }
        emit(case);
    }
}
