//! C02: every address query of GuestMemory / GuestMemoryRegion on GuestMemoryMmap layouts and on
//! MockMem, a harness-defined implementor that relies on every provided (default) method.
//! case:  kind(0 mmap, 1 mock writing both capability methods, 3 / 4 / 5 mock region types that really INHERIT
//!        get_slice / get_host_address / both from the trait) mode [starts] [lens] op a b c
//! ops 0-9 memory-level queries, 10-14 region-level arithmetic defaults, 15 region.get_host_address(b),
//!        16 region.get_slice(b, c), 17 region.as_volatile_slice(), 18 region.file_offset()  (a = region index)
//! obs :  k(0 None/false, 1 Some/true/Ok/value, 2 Err class, 3 panic) x y z   (+ [starts] [lens] for op 9)
//! Also exports MockMem/MockRegion and the layout helpers used by the C03 suite.
//! Compiled in the standard and in the Xen build (the region constructors of `build` are chosen by cfg; suite C03
//! runs in xen-debug too; C02 itself is only run in the standard builds).
use crate::tok::n;
use crate::{util, Rng, Suite, Tier, Tok};
use std::cell::RefCell;
use std::sync::atomic::Ordering;
use std::sync::Arc;
use vm_memory::bitmap::BS;
use vm_memory::guest_memory::{self, Error as GmError};
use vm_memory::{
    Address, AtomicAccess, Bytes, GuestAddress, GuestMemory, GuestMemoryMmap, GuestMemoryRegion, GuestRegionMmap,
    GuestUsize, MemoryRegionAddress, MmapRegion, ReadVolatile, VolatileMemory, VolatileSlice, WriteVolatile,
};

pub const SUITES: &[Suite] = &[Suite { name: "C02", gen, exec }];

// ------------------------------------------------------------------------------------------
// MockMem: Vec-like (heap) backed regions; a region may sit at 0 and may end exactly at 2^64.
// Only the REQUIRED methods are implemented; everything else is the crate's default code.
pub struct MockRegion {
    start: u64,
    len: u64,
    ptr: *mut u8, // 16-byte aligned heap block of max(len,1) bytes
    /// false: a "device memory" region that knows its host address but cannot hand out slices - its get_slice
    /// answers what the trait's provided default answers (HostAddressNotAvailable); kind 3 of suite C02
    slices: bool,
}
impl MockRegion {
    pub fn new(start: u64, len: u64) -> MockRegion {
        let lay = std::alloc::Layout::from_size_align((len as usize).max(1), 16).unwrap();
        // SAFETY: non-zero size layout
        let ptr = unsafe { std::alloc::alloc_zeroed(lay) };
        assert!(!ptr.is_null());
        MockRegion { start, len, ptr, slices: true }
    }
    pub fn host_only(start: u64, len: u64) -> MockRegion {
        let mut r = MockRegion::new(start, len);
        r.slices = false;
        r
    }
    pub fn host_ptr(&self) -> *mut u8 {
        self.ptr
    }
}
impl Drop for MockRegion {
    fn drop(&mut self) {
        let lay = std::alloc::Layout::from_size_align((self.len as usize).max(1), 16).unwrap();
        // SAFETY: allocated with the same layout in new()
        unsafe { std::alloc::dealloc(self.ptr, lay) }
    }
}
// the same delegation to the region-wide volatile slice as GuestRegionMmap (src/mmap/mod.rs:171-317)
impl Bytes<MemoryRegionAddress> for MockRegion {
    type E = GmError;
    fn write(&self, buf: &[u8], addr: MemoryRegionAddress) -> guest_memory::Result<usize> {
        self.as_volatile_slice().unwrap().write(buf, addr.raw_value() as usize).map_err(Into::into)
    }
    fn read(&self, buf: &mut [u8], addr: MemoryRegionAddress) -> guest_memory::Result<usize> {
        self.as_volatile_slice().unwrap().read(buf, addr.raw_value() as usize).map_err(Into::into)
    }
    fn write_slice(&self, buf: &[u8], addr: MemoryRegionAddress) -> guest_memory::Result<()> {
        self.as_volatile_slice().unwrap().write_slice(buf, addr.raw_value() as usize).map_err(Into::into)
    }
    fn read_slice(&self, buf: &mut [u8], addr: MemoryRegionAddress) -> guest_memory::Result<()> {
        self.as_volatile_slice().unwrap().read_slice(buf, addr.raw_value() as usize).map_err(Into::into)
    }
    fn read_volatile_from<F: ReadVolatile>(
        &self,
        addr: MemoryRegionAddress,
        src: &mut F,
        count: usize,
    ) -> guest_memory::Result<usize> {
        self.as_volatile_slice().unwrap().read_volatile_from(addr.0 as usize, src, count).map_err(Into::into)
    }
    fn read_exact_volatile_from<F: ReadVolatile>(
        &self,
        addr: MemoryRegionAddress,
        src: &mut F,
        count: usize,
    ) -> guest_memory::Result<()> {
        self.as_volatile_slice().unwrap().read_exact_volatile_from(addr.0 as usize, src, count).map_err(Into::into)
    }
    fn write_volatile_to<F: WriteVolatile>(
        &self,
        addr: MemoryRegionAddress,
        dst: &mut F,
        count: usize,
    ) -> guest_memory::Result<usize> {
        self.as_volatile_slice().unwrap().write_volatile_to(addr.0 as usize, dst, count).map_err(Into::into)
    }
    fn write_all_volatile_to<F: WriteVolatile>(
        &self,
        addr: MemoryRegionAddress,
        dst: &mut F,
        count: usize,
    ) -> guest_memory::Result<()> {
        self.as_volatile_slice().unwrap().write_all_volatile_to(addr.0 as usize, dst, count).map_err(Into::into)
    }
    fn store<T: AtomicAccess>(&self, val: T, addr: MemoryRegionAddress, order: Ordering) -> guest_memory::Result<()> {
        self.as_volatile_slice().and_then(|s| s.store(val, addr.raw_value() as usize, order).map_err(Into::into))
    }
    fn load<T: AtomicAccess>(&self, addr: MemoryRegionAddress, order: Ordering) -> guest_memory::Result<T> {
        self.as_volatile_slice().and_then(|s| s.load(addr.raw_value() as usize, order).map_err(Into::into))
    }
}
impl GuestMemoryRegion for MockRegion {
    type B = ();
    fn len(&self) -> GuestUsize {
        self.len
    }
    fn start_addr(&self) -> GuestAddress {
        GuestAddress(self.start)
    }
    fn bitmap(&self) -> &Self::B {
        &()
    }
    // same checks as MmapRegion::get_slice (compute_end_offset), over the heap block
    fn get_slice(&self, offset: MemoryRegionAddress, count: usize) -> guest_memory::Result<VolatileSlice<BS<()>>> {
        if !self.slices {
            // what GuestMemoryRegion::get_slice does when an implementor does not provide it (guest_memory.rs)
            return Err(GmError::HostAddressNotAvailable);
        }
        let off = offset.raw_value() as usize;
        let end = off.checked_add(count).ok_or(GmError::InvalidBackendAddress)?;
        if end > self.len as usize {
            return Err(GmError::InvalidBackendAddress);
        }
        // SAFETY: [off, off+count) lies inside the block owned by self, which outlives the slice
        Ok(unsafe { VolatileSlice::new(self.ptr.add(off), count) })
    }
    fn get_host_address(&self, addr: MemoryRegionAddress) -> guest_memory::Result<*mut u8> {
        self.check_address(addr)
            .ok_or(GmError::InvalidBackendAddress)
            .map(|addr| self.ptr.wrapping_offset(addr.raw_value() as isize))
    }
}
pub struct MockMem {
    pub regions: Vec<MockRegion>,
}
impl GuestMemory for MockMem {
    type R = MockRegion;
    fn num_regions(&self) -> usize {
        self.regions.len()
    }
    // linear search in collection order
    fn find_region(&self, addr: GuestAddress) -> Option<&MockRegion> {
        self.regions.iter().find(|r| r.to_region_addr(addr).is_some())
    }
    fn iter(&self) -> impl Iterator<Item = &Self::R> {
        self.regions.iter()
    }
}

// ------------------------------------------------------------------------------------------
// Implementor flavours that REALLY inherit the capability defaults of GuestMemoryRegion (a trait default
// cannot be inherited conditionally, so each flavour is its own type).  The heap block, start and length
// live in an inner MockRegion, none of whose trait methods is used.
//   HostOnlyRegion  (kind 3): writes get_host_address; get_slice, as_volatile_slice, file_offset inherited
//   SliceOnlyRegion (kind 4): writes get_slice; get_host_address, as_volatile_slice, file_offset inherited
//   BareRegion      (kind 5): writes neither
pub struct HostOnlyRegion(MockRegion);
pub struct SliceOnlyRegion(MockRegion);
pub struct BareRegion(MockRegion);

// region-level byte access through the region-wide slice, as GuestRegionMmap does; a region that cannot hand
// out slices reports the error of as_volatile_slice
macro_rules! bytes_via_slice {
    ($t:ty) => {
        impl Bytes<MemoryRegionAddress> for $t {
            type E = GmError;
            fn write(&self, buf: &[u8], addr: MemoryRegionAddress) -> guest_memory::Result<usize> {
                self.as_volatile_slice()?.write(buf, addr.raw_value() as usize).map_err(Into::into)
            }
            fn read(&self, buf: &mut [u8], addr: MemoryRegionAddress) -> guest_memory::Result<usize> {
                self.as_volatile_slice()?.read(buf, addr.raw_value() as usize).map_err(Into::into)
            }
            fn write_slice(&self, buf: &[u8], addr: MemoryRegionAddress) -> guest_memory::Result<()> {
                self.as_volatile_slice()?.write_slice(buf, addr.raw_value() as usize).map_err(Into::into)
            }
            fn read_slice(&self, buf: &mut [u8], addr: MemoryRegionAddress) -> guest_memory::Result<()> {
                self.as_volatile_slice()?.read_slice(buf, addr.raw_value() as usize).map_err(Into::into)
            }
            fn read_volatile_from<F: ReadVolatile>(
                &self,
                addr: MemoryRegionAddress,
                src: &mut F,
                count: usize,
            ) -> guest_memory::Result<usize> {
                self.as_volatile_slice()?.read_volatile_from(addr.0 as usize, src, count).map_err(Into::into)
            }
            fn read_exact_volatile_from<F: ReadVolatile>(
                &self,
                addr: MemoryRegionAddress,
                src: &mut F,
                count: usize,
            ) -> guest_memory::Result<()> {
                self.as_volatile_slice()?.read_exact_volatile_from(addr.0 as usize, src, count).map_err(Into::into)
            }
            fn write_volatile_to<F: WriteVolatile>(
                &self,
                addr: MemoryRegionAddress,
                dst: &mut F,
                count: usize,
            ) -> guest_memory::Result<usize> {
                self.as_volatile_slice()?.write_volatile_to(addr.0 as usize, dst, count).map_err(Into::into)
            }
            fn write_all_volatile_to<F: WriteVolatile>(
                &self,
                addr: MemoryRegionAddress,
                dst: &mut F,
                count: usize,
            ) -> guest_memory::Result<()> {
                self.as_volatile_slice()?.write_all_volatile_to(addr.0 as usize, dst, count).map_err(Into::into)
            }
            fn store<T: AtomicAccess>(&self, val: T, addr: MemoryRegionAddress, order: Ordering) -> guest_memory::Result<()> {
                self.as_volatile_slice().and_then(|s| s.store(val, addr.raw_value() as usize, order).map_err(Into::into))
            }
            fn load<T: AtomicAccess>(&self, addr: MemoryRegionAddress, order: Ordering) -> guest_memory::Result<T> {
                self.as_volatile_slice().and_then(|s| s.load(addr.raw_value() as usize, order).map_err(Into::into))
            }
        }
    };
}
bytes_via_slice!(HostOnlyRegion);
bytes_via_slice!(SliceOnlyRegion);
bytes_via_slice!(BareRegion);

// the required methods, the same for every flavour
macro_rules! required_region_methods {
    () => {
        type B = ();
        fn len(&self) -> GuestUsize {
            self.0.len
        }
        fn start_addr(&self) -> GuestAddress {
            GuestAddress(self.0.start)
        }
        fn bitmap(&self) -> &Self::B {
            &()
        }
    };
}
impl GuestMemoryRegion for HostOnlyRegion {
    required_region_methods!();
    // the same code as GuestRegionMmap::get_host_address (src/mmap/mod.rs:334), over the heap block
    fn get_host_address(&self, addr: MemoryRegionAddress) -> guest_memory::Result<*mut u8> {
        self.check_address(addr)
            .ok_or(GmError::InvalidBackendAddress)
            .map(|addr| self.0.ptr.wrapping_offset(addr.raw_value() as isize))
    }
}
impl GuestMemoryRegion for SliceOnlyRegion {
    required_region_methods!();
    // same checks as MmapRegion::get_slice (compute_end_offset), over the heap block
    fn get_slice(&self, offset: MemoryRegionAddress, count: usize) -> guest_memory::Result<VolatileSlice<BS<()>>> {
        let off = offset.raw_value() as usize;
        let end = off.checked_add(count).ok_or(GmError::InvalidBackendAddress)?;
        if end > self.0.len as usize {
            return Err(GmError::InvalidBackendAddress);
        }
        // SAFETY: [off, off+count) lies inside the block owned by self, which outlives the slice
        Ok(unsafe { VolatileSlice::new(self.0.ptr.add(off), count) })
    }
}
impl GuestMemoryRegion for BareRegion {
    required_region_methods!();
}
/// a collection of regions of one flavour; linear find_region in collection order, like MockMem
pub struct FlavMem<R> {
    pub regions: Vec<R>,
}
impl<R: GuestMemoryRegion> GuestMemory for FlavMem<R> {
    type R = R;
    fn num_regions(&self) -> usize {
        self.regions.len()
    }
    fn find_region(&self, addr: GuestAddress) -> Option<&R> {
        self.regions.iter().find(|r| r.to_region_addr(addr).is_some())
    }
    fn iter(&self) -> impl Iterator<Item = &Self::R> {
        self.regions.iter()
    }
}
enum Flav {
    Host(FlavMem<HostOnlyRegion>),
    Slice(FlavMem<SliceOnlyRegion>),
    Bare(FlavMem<BareRegion>),
}
/// a flavoured memory (kinds 3, 4, 5) plus the independent knowledge about it (`meta.mem` is an empty stand-in)
struct FBuilt {
    meta: Built,
    flav: Flav,
}
fn build_flavour(kind: u64, lay: &[(u64, u64)]) -> FBuilt {
    let blocks: Vec<MockRegion> = lay.iter().map(|&(s, l)| MockRegion::new(s, l)).collect();
    let bases: Vec<*mut u8> = blocks.iter().map(|r| r.host_ptr()).collect();
    fn regs_of<R>(v: &[R]) -> Vec<*const u8> {
        v.iter().map(|r| r as *const R as *const u8).collect()
    }
    let (flav, regs) = match kind {
        3 => {
            let m = FlavMem { regions: blocks.into_iter().map(HostOnlyRegion).collect::<Vec<_>>() };
            let regs = regs_of(&m.regions);
            (Flav::Host(m), regs)
        }
        4 => {
            let m = FlavMem { regions: blocks.into_iter().map(SliceOnlyRegion).collect::<Vec<_>>() };
            let regs = regs_of(&m.regions);
            (Flav::Slice(m), regs)
        }
        _ => {
            let m = FlavMem { regions: blocks.into_iter().map(BareRegion).collect::<Vec<_>>() };
            let regs = regs_of(&m.regions);
            (Flav::Bare(m), regs)
        }
    };
    let meta = Built { files: Vec::new(), mem: Mem::Mock(MockMem { regions: Vec::new() }), lay: lay.to_vec(), bases, regs };
    FBuilt { meta, flav }
}

// ------------------------------------------------------------------------------------------
/// A built memory plus what the harness knows about it independently of the queries under test.
pub enum Mem {
    Mmap(GuestMemoryMmap<()>, Vec<Arc<GuestRegionMmap<()>>>),
    Mock(MockMem),
}
pub struct Built {
    /// backing files of file-backed regions (kind 2), for reading the contents back with pread
    pub files: Vec<Arc<std::fs::File>>,
    pub mem: Mem,
    pub lay: Vec<(u64, u64)>,
    pub bases: Vec<*mut u8>,   // host base of every region (from the mapping / heap block)
    pub regs: Vec<*const u8>,  // address of every region OBJECT, in collection order
}
fn memfd(size: u64) -> Arc<std::fs::File> {
    use std::os::fd::FromRawFd;
    // SAFETY: plain syscalls; the fd is owned by the returned File
    unsafe {
        let fd = libc::memfd_create(b"vmh-c03\0".as_ptr() as *const libc::c_char, 0);
        assert!(fd >= 0, "memfd_create");
        assert!(libc::ftruncate(fd, size as libc::off_t) == 0, "ftruncate");
        Arc::new(std::fs::File::from_raw_fd(fd))
    }
}
/// One region of a GuestMemoryMmap layout.  Standard build: MmapRegion::new / from_file + GuestRegionMmap::new
/// (the two steps spelled out); Xen build (those constructors do not exist there): the one-call route an ordinary
/// caller uses, GuestRegionMmap::from_range = MmapRange::new_unix + MmapRegion::from_range + GuestRegionMmap::new.
#[cfg(not(feature = "xen"))]
fn region(s: u64, l: u64, file: Option<vm_memory::FileOffset>) -> GuestRegionMmap<()> {
    let mr = match file {
        Some(f) => MmapRegion::<()>::from_file(f, l as usize).expect("mmap file"),
        None => MmapRegion::<()>::new(l as usize).expect("mmap"),
    };
    GuestRegionMmap::new(mr, GuestAddress(s)).expect("GuestRegionMmap::new")
}
#[cfg(feature = "xen")]
fn region(s: u64, l: u64, file: Option<vm_memory::FileOffset>) -> GuestRegionMmap<()> {
    GuestRegionMmap::<()>::from_range(GuestAddress(s), l as usize, file).expect("GuestRegionMmap::from_range")
}
/// kind 0: anonymous GuestMemoryMmap, 1: MockMem, 2: file-backed (memfd, MAP_SHARED) GuestMemoryMmap,
/// 3: MockMem whose regions provide get_host_address but hand-code the refusal of get_slice (kept for source
/// compatibility; suite C02 itself runs kinds 3, 4, 5 on the flavour types above, see `build_flavour`)
pub fn build(kind: u64, lay: &[(u64, u64)]) -> Built {
    if kind == 0 || kind == 2 {
        let mut files = Vec::new();
        let arcs: Vec<Arc<GuestRegionMmap<()>>> = lay
            .iter()
            .map(|&(s, l)| {
                let file = if kind == 2 {
                    let f = memfd(l);
                    files.push(f.clone());
                    Some(vm_memory::FileOffset::from_arc(f, 0))
                } else {
                    None
                };
                Arc::new(region(s, l, file))
            })
            .collect();
        let bases = arcs.iter().map(|a| a.as_ptr()).collect();
        let regs = arcs.iter().map(|a| Arc::as_ptr(a) as *const u8).collect();
        let mem = if arcs.is_empty() {
            GuestMemoryMmap::<()>::new()
        } else if kind == 0 && lay.len() >= 2 {
            // C02 quantifies over "any collection of regions": reach the layout through the collection's own
            // mutation API as well, not only through from_regions.  (a) if some unmapped address has at least
            // two regions starting above it, build WITH a one-byte decoy region there and remove it again;
            // (b) otherwise start from the first region and insert the others in reverse order.
            let mut sorted: Vec<(u64, u64)> = lay.to_vec();
            sorted.sort();
            let mut hole: Option<u64> = None;
            let mut cand: Vec<u64> = vec![0];
            cand.extend(sorted.iter().filter_map(|&(s0, l0)| s0.checked_add(l0)));
            for h in cand {
                let free = !sorted.iter().any(|&(s0, l0)| s0 <= h && h - s0 < l0);
                let above = sorted.iter().filter(|&&(s0, _)| s0 > h).count();
                if free && above >= 2 {
                    hole = Some(h);
                    break;
                }
            }
            match hole {
                Some(h) => {
                    let decoy = Arc::new(region(h, 1, None));
                    let mut all = arcs.clone();
                    all.push(decoy);
                    all.sort_by_key(|a| a.start_addr());
                    let with = GuestMemoryMmap::from_arc_regions(all).expect("from_arc_regions+decoy");
                    with.remove_region(GuestAddress(h), 1).expect("remove decoy").0
                }
                None => {
                    let mut m = GuestMemoryMmap::from_arc_regions(vec![arcs[0].clone()]).expect("from_arc_regions");
                    for a in arcs[1..].iter().rev() {
                        m = m.insert_region(a.clone()).expect("insert_region");
                    }
                    m
                }
            }
        } else {
            GuestMemoryMmap::from_arc_regions(arcs.clone()).expect("from_arc_regions")
        };
        Built { files, mem: Mem::Mmap(mem, arcs), lay: lay.to_vec(), bases, regs }
    } else {
        let regions: Vec<MockRegion> =
            lay.iter().map(|&(s, l)| if kind == 3 { MockRegion::host_only(s, l) } else { MockRegion::new(s, l) }).collect();
        let bases = regions.iter().map(|r| r.host_ptr()).collect();
        let mem = MockMem { regions };
        let regs = mem.regions.iter().map(|r| r as *const MockRegion as *const u8).collect();
        Built { files: Vec::new(), mem: Mem::Mock(mem), lay: lay.to_vec(), bases, regs }
    }
}
impl Built {
    /// all bytes of all regions, read through the raw host pointers
    pub fn dump(&self) -> Vec<u8> {
        let mut v = Vec::new();
        for (i, &(_, l)) in self.lay.iter().enumerate() {
            for o in 0..l as usize {
                // SAFETY: inside the region's block
                v.push(unsafe { std::ptr::read_volatile(self.bases[i].add(o)) });
            }
        }
        v
    }
    /// all bytes of all file-backed regions, read from the backing files with pread
    pub fn dump_files(&self) -> Vec<u8> {
        use std::os::unix::fs::FileExt;
        let mut v = Vec::new();
        for (i, f) in self.files.iter().enumerate() {
            let mut b = vec![0u8; self.lay[i].1 as usize];
            f.read_exact_at(&mut b, 0).expect("pread");
            v.extend(b);
        }
        v
    }
    pub fn fill(&self, bytes: &[u8]) {
        let mut k = 0;
        for (i, &(_, l)) in self.lay.iter().enumerate() {
            for o in 0..l as usize {
                // SAFETY: inside the region's block
                unsafe { std::ptr::write_volatile(self.bases[i].add(o), bytes[k]) };
                k += 1;
            }
        }
    }
}
pub fn err_class(e: &GmError) -> u64 {
    match e {
        GmError::InvalidGuestAddress(_) => 1,
        GmError::IOError(_) => 2,
        GmError::PartialBuffer { .. } => 3,
        GmError::InvalidBackendAddress => 4,
        GmError::HostAddressNotAvailable => 5,
        GmError::CallbackOutOfRange => 6,
        GmError::GuestAddressOverflow => 7,
    }
}
pub fn layout_of(case: &[Tok]) -> Vec<(u64, u64)> {
    let s = case[2].l();
    let l = case[3].l();
    s.iter().zip(l.iter()).map(|(a, b)| (*a as u64, *b as u64)).collect()
}

thread_local! { static CACHE: RefCell<Option<(u64, Vec<(u64, u64)>, std::rc::Rc<Built>)>> = RefCell::new(None); }
fn cached(kind: u64, lay: &[(u64, u64)]) -> std::rc::Rc<Built> {
    CACHE.with(|c| {
        let mut c = c.borrow_mut();
        if let Some((k, l, b)) = c.as_ref() {
            if *k == kind && l == lay {
                return b.clone();
            }
        }
        let b = std::rc::Rc::new(build(kind, lay));
        *c = Some((kind, lay.to_vec(), b.clone()));
        b
    })
}

thread_local! { static FCACHE: RefCell<Option<(u64, Vec<(u64, u64)>, std::rc::Rc<FBuilt>)>> = RefCell::new(None); }
fn fcached(kind: u64, lay: &[(u64, u64)]) -> std::rc::Rc<FBuilt> {
    FCACHE.with(|c| {
        let mut c = c.borrow_mut();
        if let Some((k, l, b)) = c.as_ref() {
            if *k == kind && l == lay {
                return b.clone();
            }
        }
        let b = std::rc::Rc::new(build_flavour(kind, lay));
        *c = Some((kind, lay.to_vec(), b.clone()));
        b
    })
}

fn o4(k: u64, x: u64, y: u64, z: u64) -> Vec<Tok> {
    vec![n(k), n(x), n(y), n(z)]
}
fn opt(o: Option<u64>) -> Vec<Tok> {
    match o {
        Some(v) => o4(1, v, 0, 0),
        None => o4(0, 0, 0, 0),
    }
}
fn idx_of(regs: &[*const u8], p: *const u8) -> u64 {
    regs.iter().position(|r| *r == p).map(|i| i as u64).unwrap_or(0xffff)
}
/// region whose host block contains p (p == end of block allowed); `hint` = region that owns the guest address
fn host_idx(b: &Built, p: *const u8, hint: Option<usize>) -> (u64, u64) {
    let inside = |i: usize| {
        let base = b.bases[i] as usize;
        (p as usize) >= base && (p as usize) <= base + b.lay[i].1 as usize
    };
    if let Some(h) = hint {
        if inside(h) {
            return (h as u64, (p as usize - b.bases[h] as usize) as u64);
        }
    }
    for i in 0..b.lay.len() {
        if inside(i) {
            return (i as u64, (p as usize - b.bases[i] as usize) as u64);
        }
    }
    (0xffff, 0)
}

// The query body is instantiated twice.  `query` (generic): a method call can only resolve to the TRAIT method
// (`<M as GuestMemory>::op`, `<M::R as GuestMemoryRegion>::op`) - the route of the mock implementors and route 1 of the
// mmap collection.  `query_mmap`: method-call syntax on the concrete `GuestMemoryMmap<()>` / `GuestRegionMmap<()>` with
// the traits in scope, as a user of the crate writes it - an INHERENT method of the same name shadows the trait method there.
macro_rules! def_query {
    ($name:ident, [$($g:tt)*], $M:ty, $R:ty) => {
        fn $name<$($g)*>(m: &$M, b: &Built, op: u64, a: u64, x: u64, y: u64) -> Vec<Tok> {
            // the region that owns guest address a, computed from the case alone
            let hint = b.lay.iter().position(|&(s, l)| a >= s && ((a - s) as u128) < l as u128);
            match op {
                0 => match m.find_region(GuestAddress(a)) {
                    Some(r) => o4(1, idx_of(&b.regs, r as *const $R as *const u8), 0, 0),
                    None => o4(0, 0, 0, 0),
                },
                1 => match m.to_region_addr(GuestAddress(a)) {
                    Some((r, off)) => o4(1, idx_of(&b.regs, r as *const $R as *const u8), off.raw_value(), 0),
                    None => o4(0, 0, 0, 0),
                },
                2 => o4(m.address_in_range(GuestAddress(a)) as u64, 0, 0, 0),
                3 => opt(m.check_address(GuestAddress(a)).map(|g| g.raw_value())),
                4 => opt(m.checked_offset(GuestAddress(a), x as usize).map(|g| g.raw_value())),
                5 => o4(m.check_range(GuestAddress(a), x as usize) as u64, 0, 0, 0),
                6 => o4(1, m.last_addr().raw_value(), 0, 0),
                7 => match m.get_host_address(GuestAddress(a)) {
                    Ok(p) => {
                        let (i, off) = host_idx(b, p as *const u8, hint);
                        o4(1, i, off, 0)
                    }
                    Err(e) => o4(2, err_class(&e), 0, 0),
                },
                8 => match m.get_slice(GuestAddress(a), x as usize) {
                    Ok(s) => {
                        let (i, off) = host_idx(b, s.ptr_guard().as_ptr(), hint);
                        o4(1, i, off, s.len() as u64)
                    }
                    Err(e) => o4(2, err_class(&e), 0, 0),
                },
                9 => {
                    let mut v = o4(1, m.num_regions() as u64, 0, 0);
                    let rs: Vec<&$R> = m.iter().collect();
                    v.push(Tok::of_u64s(&rs.iter().map(|r| r.start_addr().raw_value()).collect::<Vec<_>>()));
                    v.push(Tok::of_u64s(&rs.iter().map(|r| r.len()).collect::<Vec<_>>()));
                    v
                }
                10..=18 => {
                    let rs: Vec<&$R> = m.iter().collect();
                    let r = rs[a as usize];
                    // pointer - host base of THIS region (mod 2^64): a pointer outside the block shows as an offset >= len
                    let rel = |p: *const u8| (p as usize).wrapping_sub(b.bases[a as usize] as usize) as u64;
                    match op {
                        15 => match r.get_host_address(MemoryRegionAddress(x)) {
                            Ok(p) => o4(1, rel(p as *const u8), 0, 0),
                            Err(e) => o4(2, err_class(&e), 0, 0),
                        },
                        16 => match r.get_slice(MemoryRegionAddress(x), y as usize) {
                            Ok(s) => o4(1, rel(s.ptr_guard().as_ptr()), s.len() as u64, 0),
                            Err(e) => o4(2, err_class(&e), 0, 0),
                        },
                        17 => match r.as_volatile_slice() {
                            Ok(s) => o4(1, rel(s.ptr_guard().as_ptr()), s.len() as u64, 0),
                            Err(e) => o4(2, err_class(&e), 0, 0),
                        },
                        18 => o4(r.file_offset().is_some() as u64, 0, 0, 0),
                        10 => o4(1, r.last_addr().raw_value(), 0, 0),
                        11 => o4(r.address_in_range(MemoryRegionAddress(x)) as u64, 0, 0, 0),
                        12 => opt(r.check_address(MemoryRegionAddress(x)).map(|v| v.raw_value())),
                        13 => opt(r.checked_offset(MemoryRegionAddress(x), y as usize).map(|v| v.raw_value())),
                        _ => opt(r.to_region_addr(GuestAddress(x)).map(|v| v.raw_value())),
                    }
                }
                _ => panic!("bad op"),
            }
        }
    };
}
def_query!(query, [M: GuestMemory], M, M::R);
def_query!(query_mmap, [], GuestMemoryMmap<()>, GuestRegionMmap<()>);

/// tokens of an observation as one flat list of numbers (for the route-difference observation)
fn flat(v: &[Tok]) -> Tok {
    let mut out: Vec<u128> = Vec::new();
    for t in v {
        match t {
            Tok::N(x) => out.push(*x),
            Tok::L(l) => out.extend(l.iter().copied()),
        }
    }
    Tok::L(out)
}

fn exec(case: &[Tok]) -> Vec<Tok> {
    let kind = case[0].u();
    let lay = layout_of(case);
    let (op, a, x, y) = (case[4].u(), case[5].u(), case[6].u(), case[7].u());
    let r = if (3..=5).contains(&kind) {
        let fb = fcached(kind, &lay);
        util::catch(|| match &fb.flav {
            Flav::Host(m) => query(m, &fb.meta, op, a, x, y),
            Flav::Slice(m) => query(m, &fb.meta, op, a, x, y),
            Flav::Bare(m) => query(m, &fb.meta, op, a, x, y),
        })
    } else {
        let b = cached(kind, &lay);
        match &b.mem {
            Mem::Mmap(m, _) => {
                // both routes; identical answers or an observation of kind 0xa that neither the model nor the
                // checker accepts: a 0 0 0 [trait route's answer] [method-call route's answer]
                let panicked = || {
                    let mut v = o4(3, 0, 0, 0);
                    if op == 9 {
                        v.push(Tok::L(vec![]));
                        v.push(Tok::L(vec![]));
                    }
                    v
                };
                let t = util::catch(|| query(m, &b, op, a, x, y)).unwrap_or_else(panicked);
                let c = util::catch(|| query_mmap(m, &b, op, a, x, y)).unwrap_or_else(panicked);
                if t != c {
                    let mut v = o4(10, 0, 0, 0);
                    v.push(flat(&t));
                    v.push(flat(&c));
                    return v;
                }
                Some(t)
            }
            Mem::Mock(m) => util::catch(|| query(m, &b, op, a, x, y)),
        }
    };
    match r {
        Some(v) => v,
        None => {
            let mut v = o4(3, 0, 0, 0);
            if op == 9 {
                v.push(Tok::L(vec![]));
                v.push(Tok::L(vec![]));
            }
            v
        }
    }
}

// ------------------------------------------------------------------------------------------
pub const TOP: u64 = u64::MAX; // 2^64-1
/// the small universe U = {0..23} u {2^64-24 .. 2^64-1}
pub fn universe() -> Vec<u64> {
    let mut v: Vec<u64> = (0..24u64).collect();
    v.extend((0..24u64).map(|k| TOP - 23 + k));
    v
}
/// random layout of disjoint regions inside U: sizes 1..=maxsz, adjacent / 1-byte / larger holes, low and
/// high half; a mock layout may end exactly at 2^64, an mmap layout ends at most at 2^64-1 (last byte 2^64-2).
/// `shuffle`: mock collections need not be sorted.
pub fn small_layout(rng: &mut Rng, kind: u64, maxsz: u64, maxregions: usize) -> Vec<(u64, u64)> {
    loop {
        let mut v: Vec<(u64, u64)> = Vec::new();
        // positions are offsets 0..48 in the universe: 0..24 low half, 24..48 high half
        let mut p: u64 = if rng.chance(1, 3) { 0 } else { rng.below(6) };
        let limit_hi: u64 = if kind == 0 { 47 } else { 48 }; // exclusive end offset allowed in the high half
        while p < 48 && v.len() < maxregions {
            let half_end = if p < 24 { 24 } else { limit_hi };
            if p >= half_end {
                break;
            }
            let mut sz = 1 + rng.below(maxsz);
            if rng.chance(1, 4) {
                sz = half_end - p; // fill to the end of the half (ends at 24 resp. at the top)
            }
            sz = sz.min(half_end - p);
            let start = if p < 24 { p } else { (TOP - 23).wrapping_add(p - 24) };
            v.push((start, sz));
            p += sz;
            p += match rng.below(5) {
                0 | 1 => 0,
                2 => 1,
                3 => rng.below(4),
                _ => rng.below(30),
            };
        }
        if v.is_empty() && (kind == 0 || !rng.chance(1, 20)) {
            continue;
        }
        if kind == 1 && rng.chance(1, 3) {
            // collection order need not be address order for a generic implementor
            for i in (1..v.len()).rev() {
                let j = rng.below(i as u64 + 1) as usize;
                v.swap(i, j);
            }
        }
        return v;
    }
}
pub fn lay_toks(kind: u64, lay: &[(u64, u64)]) -> Vec<Tok> {
    vec![
        n(kind),
        n(crate::build_mode()),
        Tok::of_u64s(&lay.iter().map(|x| x.0).collect::<Vec<_>>()),
        Tok::of_u64s(&lay.iter().map(|x| x.1).collect::<Vec<_>>()),
    ]
}

fn gen(rng: &mut Rng, tier: Tier, emit: &mut dyn FnMut(Vec<Tok>)) {
    let u = universe();
    // thorough: 1000 layouts for each of GuestMemoryMmap / MockMem and 150 for each flavour (~9M cases per build)
    let nlay = if tier == Tier::Quick { 60 } else { 1000 };
    let nflav = if tier == Tier::Quick { 20 } else { 150 };
    let big = [0u64, 1, 2, 3, 5, 8, 17, 47, 48, 49, 1 << 32, (1 << 63) - 1, 1 << 63, TOP - 24, TOP - 1, TOP];
    for kind in [0u64, 1, 3, 4, 5] {
        for li in 0..(if kind >= 3 { nflav } else { nlay }) {
            let maxsz = if li % 3 == 0 { 3 } else { 8 };
            // the flavour collections are generic implementors like MockMem: any order, may end at 2^64
            let lay = small_layout(rng, if kind >= 3 { 1 } else { kind }, maxsz, 5);
            let head = lay_toks(kind, &lay);
            let mut q = |op: u64, a: u64, b: u64, c: u64| {
                let mut t = head.clone();
                t.extend([n(op), n(a), n(b), n(c)]);
                emit(t)
            };
            q(6, 0, 0, 0);
            q(9, 0, 0, 0);
            // every address of the universe, every single-address query
            for &a in &u {
                for op in [0u64, 1, 2, 3, 7] {
                    q(op, a, 0, 0);
                }
            }
            // checked_offset: bases x offsets (landing inside U from below, across the wrap, extremes)
            for &a in &u {
                for _ in 0..3 {
                    let off = match rng.below(5) {
                        0 => rng.below(8),
                        1 => u[rng.below(48) as usize].wrapping_sub(a), // lands on an address of U (mod 2^64)
                        2 => *rng.pick(&big),
                        3 => (TOP - a).wrapping_add(rng.below(3)), // around the top
                        _ => rng.below(50),
                    };
                    q(4, a, off, 0);
                }
            }
            // check_range / get_slice: every base, lengths around the run / region tail, 0 and extremes
            for &a in &u {
                let tail = lay.iter().find(|&&(s, l)| a >= s && ((a - s) as u128) < l as u128).map(|&(s, l)| l - (a - s));
                let mut lens: Vec<u64> = vec![0, 1, rng.below(10), *rng.pick(&big)];
                if let Some(t) = tail {
                    lens.extend([t, t + 1, t.saturating_sub(1), t + rng.below(9)]);
                }
                lens.push(TOP - a); // reaches 2^64-1
                lens.push((TOP - a).wrapping_add(1)); // reaches 2^64 exactly (0 when a = 0 .. fine)
                for &l in &lens {
                    q(5, a, l, 0);
                }
                for &l in lens.iter().take(8) {
                    q(8, a, l, 0);
                }
            }
            // region-level provided methods
            for (i, &(s, l)) in lay.iter().enumerate() {
                let i = i as u64;
                q(10, i, 0, 0);
                for x in [0u64, 1, l - 1, l, l + 1, TOP, rng.next()] {
                    q(11, i, x, 0);
                    q(12, i, x, 0);
                    q(13, i, x, rng.below(4), );
                    q(13, i, rng.below(l + 1), x);
                }
                q(13, i, TOP, 1);
                q(13, i, l - 1, TOP);
                for &a in &u {
                    q(14, i, a, 0);
                }
                for a in [s.wrapping_sub(1), s, s.wrapping_add(l - 1), s.wrapping_add(l), rng.next()] {
                    q(14, i, a, 0);
                }
                // region-level accessors: offsets and counts at the region's ends, the middle of the
                // address space and the extremes
                let edge = [0u64, 1, l - 1, l, l + 1, 1 << 63, TOP];
                for &x in &edge {
                    q(15, i, x, 0);
                    for &c in &edge {
                        q(16, i, x, c);
                    }
                    q(16, i, x, l.saturating_sub(x));              // exactly to the end
                    q(16, i, x, l.saturating_sub(x) + 1);          // one byte too many
                    q(16, i, x, (TOP - x).wrapping_add(1));        // x + c = 2^64: the sum wraps to 0
                    q(16, i, x, (TOP - x).wrapping_add(1 + rng.below(l + 1))); // wraps to a small in-range end
                }
                for _ in 0..4 {
                    let x = rng.below(l + 2);
                    q(15, i, x, 0);
                    q(16, i, x, rng.below(l + 2));
                }
                q(15, i, rng.next(), 0);
                q(16, i, rng.next(), rng.next());
                q(17, i, 0, 0);
                q(18, i, 0, 0);
            }
        }
    }
    // large mmap layouts: sizes 1, 4095, 4096, 4097, 2^30+1 at round, odd and huge addresses, probed at
    // region starts/ends +-1 and at the extremes
    let sizes = [1u64, 4095, 4096, 4097, (1 << 30) + 1];
    let nbig = if tier == Tier::Quick { 25 } else { 400 };
    for _ in 0..nbig {
        let nreg = 1 + rng.below(4) as usize;
        let mut lay: Vec<(u64, u64)> = Vec::new();
        let mut p: u64 = match rng.below(3) {
            0 => 0,
            1 => rng.below(1 << 20),
            _ => rng.below(1 << 40),
        };
        for _ in 0..nreg {
            let sz = *rng.pick(&sizes);
            lay.push((p, sz));
            p = p + sz
                + match rng.below(4) {
                    0 => 0,
                    1 => 1,
                    2 => rng.below(1 << 13),
                    _ => rng.below(1 << 45),
                };
        }
        if rng.bool() {
            // a last region just below the top: its last byte is 2^64-2
            let sz = *rng.pick(&sizes);
            lay.push((TOP - sz, sz));
        }
        let head = lay_toks(0, &lay);
        let mut q = |op: u64, a: u64, b: u64, c: u64| {
            let mut t = head.clone();
            t.extend([n(op), n(a), n(b), n(c)]);
            emit(t)
        };
        q(6, 0, 0, 0);
        q(9, 0, 0, 0);
        let mut pts: Vec<u64> = vec![0, 1, TOP, TOP - 1, TOP - 2, 1 << 63];
        for &(s, l) in &lay {
            for d in [0u64, 1, 2] {
                pts.push(s.wrapping_sub(d));
                pts.push(s.wrapping_add(d));
                pts.push((s + l).wrapping_sub(d));
                pts.push((s + l).wrapping_add(d));
            }
            pts.push(s + l / 2);
        }
        pts.sort();
        pts.dedup();
        for &a in &pts {
            for op in [0u64, 1, 2, 3, 7] {
                q(op, a, 0, 0);
            }
            let tail = lay.iter().find(|&&(s, l)| a >= s && a - s < l).map(|&(s, l)| l - (a - s));
            let mut lens: Vec<u64> = vec![0, 1, 2, 4096, TOP, TOP - a, *rng.pick(&big)];
            if let Some(t) = tail {
                lens.extend([t, t + 1, t - 1, t + 4096, t + (1 << 30) + 1]);
            }
            for &l in &lens {
                q(5, a, l, 0);
                q(8, a, l, 0);
                q(4, a, l, 0);
            }
            q(4, a, pts[rng.below(pts.len() as u64) as usize].wrapping_sub(a), 0);
        }
        for (i, &(_, l)) in lay.iter().enumerate() {
            let i = i as u64;
            q(10, i, 0, 0);
            for x in [0u64, l - 1, l, l + 1, TOP] {
                q(11, i, x, 0);
                q(12, i, x, 0);
                q(13, i, x, 1);
                q(13, i, 1, x);
                q(15, i, x, 0);
                for c in [1u64, l, l.saturating_sub(x), l.saturating_sub(x) + 1, (TOP - x).wrapping_add(1), TOP] {
                    q(16, i, x, c);
                }
            }
            q(17, i, 0, 0);
            q(18, i, 0, 0);
            for &a in &pts {
                q(14, i, a, 0);
            }
        }
    }
}
