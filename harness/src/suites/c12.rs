//! C12: a mapping lives exactly as long as something can still reach it.
//!
//! case: ONE list [code,a,b, ...]
//!   0 Create kind=a%3 (0 anonymous, 1 file-backed, 2 raw = mapped by the HARNESS and wrapped with
//!     with_raw_mmap_pointer / build_raw), slot=b: guest range [b*0x10000, +0x1000)
//!   1 Build from_arc_regions(clones of handles unpacked from a, 5 bits each, b of them)
//!   2 Insert map=a region=b | 3 Remove map=a base=(b/2)*0x10000 size=0x1000 (0x2000 if b odd)
//!   4 Clone a | 5 Snapshot a = Arc::new(map.clone()) | 6 Drop a
//!   7 CreateRefused variant=a%9 slot=b: a creation the library refuses.  0 file range past EOF, 1 file offset + size
//!     overflows, 2 / 3 MAP_FIXED in the flags (anonymous / file), 4 / 5 misaligned raw pointer (builder / build_raw):
//!     no region id, val = number of STRAY mappings the call left (mappings of the request's uniquely named backing
//!     file that should not exist; for 4 / 5: 7 if the harness' own mapping is gone);  6 / 7 / 8: an anonymous / file /
//!     raw MmapRegion is built and GuestRegionMmap::new(region, base) is called with base + size overflowing: the
//!     mapping gets the next region id and is observed like every other region (no handle ever reaches it).
//!     st 2 = the library refused; st 1 = it accepted and the harness dropped the result at once.
//!   8 BuildMove: from_arc_regions (b < 16) / from_regions (b >= 16, every Arc must be unshared: Arc::try_unwrap) over the
//!     handles THEMSELVES, packed in a, count b%16 (all distinct region handles): they are consumed, Ok or Err
//!   9 InsertMove map=a region=b: insert_region(the handle's own Arc); handle b is consumed, Ok or Err
//! obs: ONE list [st,val,live, ...]: st 1 done / 2 library Err / 0 not possible; val = bit set of the
//!   region ids reachable through the handle just returned, ids READ FROM THE REGION BYTES through
//!   raw host pointers; live = bit r set iff region r's memory is still mapped: uniquely named memfd
//!   in /proc/self/maps (file, raw) or its address range still covered (anonymous; a range seen
//!   unmapped once is dead for good, which removes the address-reuse ambiguity).
//! After every operation EVERY region's mapping is looked up page by page in /proc/self/maps: a region counts as
//! mapped while any page of its span is (a munmap that is too short leaves a tail behind); a region of which only
//! SOME pages are mapped, or a region reachable from a live handle whose first page is not mapped (a munmap that was
//! too long took a neighbour along - regions created back to back are adjacent, mmap hands out addresses top down), makes
//! the step report live = all ones and ends the history - as does an operation after which the number of mapped bytes
//! of the whole process (heap and stacks aside) has not changed by exactly the spans of the regions that came to
//! life or went away in it (a munmap that is too long may also hit mappings that are not regions); otherwise every region reachable from every live handle is
//! read through its raw pointer.  Some file-backed regions carry the caller's hugetlbfs hint Some(true) (on an ordinary
//! file; set through set_hugetlbfs or with_hugetlbfs): a hint must not change what Drop unmaps.
use crate::Suite;
// the unix (non-xen) mmap backend is the subject; under the harness feature `xen` the suite is empty
#[cfg(not(feature = "xen"))]
pub const SUITES: &[Suite] = imp::SUITES_IMPL;
#[cfg(feature = "xen")]
pub const SUITES: &[Suite] = &[];

#[cfg(not(feature = "xen"))]
pub mod imp {
use crate::suites::c11::imp::{maps, memfd};
use crate::tok::n;
use crate::{util, Rng, Suite, Tier, Tok};
use std::os::unix::io::AsRawFd;
use std::sync::atomic::{AtomicU64, Ordering};
use std::sync::Arc;
use vm_memory::mmap::MmapRegionBuilder;
use vm_memory::{FileOffset, GuestAddress, GuestMemory, GuestMemoryMmap, GuestMemoryRegion, GuestRegionMmap, MmapRegion};

// the Xen suite C12xen lives in c12_xen.rs (xen builds only); this is its empty stand-in in the standard build
fn nogen(_: &mut Rng, _: Tier, _: &mut dyn FnMut(Vec<Tok>)) {}
fn noexec(_: &[Tok]) -> Vec<Tok> {
    vec![Tok::N(0xbad0bad)]
}
pub const SUITES_IMPL: &[Suite] = &[Suite { name: "C12", gen, exec }, Suite { name: "C12xen", gen: nogen, exec: noexec }];

type M = GuestMemoryMmap<()>;
type R = GuestRegionMmap<()>;
const PAGE: usize = 0x1000;
/// region sizes are deliberately not all page multiples: what has to disappear on the last drop is the
/// whole page span of the mapping (a munmap with a rounded-down length would leave the tail behind)
fn size_of_region(id: u64) -> usize {
    [0x1000usize, 0x800, 0x1001, 0x3800, 0x2000, 0x1fff][(id % 6) as usize]
}
fn span_of(size: usize) -> usize {
    (size + PAGE - 1) / PAGE * PAGE
}
const MAGIC: u64 = 0x0c12_0c12_5eed_0000;
static CASE: AtomicU64 = AtomicU64::new(0);

enum H {
    Region(Arc<R>),
    Map(M),
    Snap(Arc<M>),
}
struct Info {
    kind: u64,
    name: String,
    addr: usize,
    size: usize,
    dead_seen: bool,
}

fn tag(r: &R) -> u64 {
    // SAFETY: independent route: raw host pointer of the mapping (faults if it was unmapped)
    unsafe {
        let p = r.as_ptr() as *const u64;
        let (t, m) = (std::ptr::read_volatile(p), std::ptr::read_volatile(p.add(1)));
        if m == MAGIC ^ t && t < 120 {
            t
        } else {
            127
        }
    }
}
fn mask_regions<'a>(it: impl Iterator<Item = &'a R>) -> u128 {
    let mut m = 0u128;
    for r in it {
        m |= 1u128 << tag(r);
    }
    m
}
fn mask_h(h: &H) -> u128 {
    match h {
        H::Region(r) => 1u128 << tag(r),
        H::Map(m) => mask_regions(m.iter()),
        H::Snap(m) => mask_regions(m.iter()),
    }
}
/// the lines of /proc/self/maps as (start, end, text)
fn parse_maps(mp: &str) -> Vec<(usize, usize, &str)> {
    let mut v = Vec::new();
    for l in mp.lines() {
        let range = l.split(' ').next().unwrap_or("");
        let mut it = range.split('-');
        if let (Some(a), Some(b)) = (it.next(), it.next()) {
            if let (Ok(a), Ok(b)) = (usize::from_str_radix(a, 16), usize::from_str_radix(b, 16)) {
                v.push((a, b, l));
            }
        }
    }
    v
}
fn page_mapped(lines: &[(usize, usize, &str)], page: usize, name: Option<&str>) -> bool {
    lines.iter().any(|(a, b, l)| *a <= page && page + PAGE <= *b && name.map_or(true, |n| l.contains(n)))
}
/// (live mask, some mapping is only partly there)
fn live_mask(infos: &mut [Info], mp: &str) -> (u128, bool) {
    let lines = parse_maps(mp);
    let mut mask = 0u128;
    let mut partial = false;
    for (r, inf) in infos.iter_mut().enumerate() {
        let total = span_of(inf.size) / PAGE;
        // the whole name: "…_r1" must not match the line of "…_r10"
        let needle = format!("/memfd:{} (deleted)", inf.name);
        let name = if inf.kind == 0 { None } else { Some(needle.as_str()) };
        let mapped = (0..total).filter(|k| page_mapped(&lines, inf.addr + k * PAGE, name)).count();
        let alive = if inf.kind == 0 {
            // an anonymous range seen unmapped once is dead for good (its addresses may be handed out again)
            if !inf.dead_seen && mapped == 0 {
                inf.dead_seen = true;
            }
            if !inf.dead_seen && mapped < total {
                partial = true;
            }
            !inf.dead_seen
        } else {
            if mapped > 0 && mapped < total {
                partial = true;
            }
            mapped > 0 || mp.contains(&format!("{} (deleted)", inf.name))
        };
        if alive {
            mask |= 1u128 << r;
        }
    }
    (mask, partial)
}
/// bytes of address space mapped by everything except the heap and the stacks (which grow on their own)
fn mapped_bytes(lines: &[(usize, usize, &str)]) -> usize {
    lines.iter().filter(|(_, _, l)| !l.contains("[heap]") && !l.contains("[stack")).map(|(a, b, _)| b - a).sum()
}
/// the first page of every region reachable through the handle is mapped (so that reading its tag cannot fault)
fn handle_readable(h: &H, lines: &[(usize, usize, &str)]) -> bool {
    let ok = |r: &R| page_mapped(lines, r.as_ptr() as usize, None);
    match h {
        H::Region(r) => ok(r),
        H::Map(m) => m.iter().all(|r| ok(r)),
        H::Snap(m) => m.iter().all(|r| ok(r)),
    }
}

fn create(cid: u64, id: u64, kind: u64, slot: u64, raws: &mut Vec<usize>) -> (Arc<R>, Info) {
    let (region, inf) = build_region(cid, id, kind, raws);
    let r = Arc::new(GuestRegionMmap::new(region, GuestAddress(slot * 0x10000)).unwrap());
    (r, inf)
}

/// the MmapRegion of region `id` (tagged with its id) and what the harness knows about its mapping
fn build_region(cid: u64, id: u64, kind: u64, raws: &mut Vec<usize>) -> (MmapRegion<()>, Info) {
    let name = format!("vmh12_{}_r{}", cid, id);
    let prot = libc::PROT_READ | libc::PROT_WRITE;
    let size = size_of_region(id);
    let region: MmapRegion<()> = match kind {
        0 => MmapRegion::new(size).unwrap(),
        1 => match id % 3 {
            // the caller's hugetlbfs hint on an ordinary file (sizes are no multiples of 2 MiB): a hint, nothing else
            1 => {
                let mut r = MmapRegion::from_file(FileOffset::new(memfd(&name, span_of(size)), 0), size).unwrap();
                r.set_hugetlbfs(true);
                r
            }
            2 => MmapRegionBuilder::<()>::new(size)
                .with_file_offset(FileOffset::new(memfd(&name, span_of(size)), 0))
                .with_mmap_prot(prot)
                .with_mmap_flags(libc::MAP_NORESERVE | libc::MAP_SHARED)
                .with_hugetlbfs(true)
                .build()
                .unwrap(),
            _ => MmapRegion::from_file(FileOffset::new(memfd(&name, span_of(size)), 0), size).unwrap(),
        },
        _ => {
            let f = memfd(&name, span_of(size));
            // SAFETY: a fresh shared mapping owned by the harness; unmapped by the harness at the end
            let p = unsafe { libc::mmap(std::ptr::null_mut(), span_of(size), prot, libc::MAP_SHARED, f.as_raw_fd(), 0) }; // span <= 4 pages
            assert_ne!(p, libc::MAP_FAILED);
            raws.push(p as usize);
            raws.push(span_of(size));
            // SAFETY: p..p+PAGE is a valid mapping for the life of the region (see above)
            unsafe {
                if id % 2 == 0 {
                    MmapRegionBuilder::<()>::new(size)
                        .with_raw_mmap_pointer(p as *mut u8)
                        .with_mmap_prot(prot)
                        .with_mmap_flags(libc::MAP_SHARED)
                        .build()
                        .unwrap()
                } else {
                    MmapRegion::build_raw(p as *mut u8, size, prot, libc::MAP_SHARED).unwrap()
                }
            }
        }
    };
    let addr = region.as_ptr() as usize;
    // SAFETY: fresh one-page mapping
    unsafe {
        std::ptr::write_volatile(addr as *mut u64, id);
        std::ptr::write_volatile((addr as *mut u64).add(1), MAGIC ^ id);
    }
    (region, Info { kind, name, addr, size, dead_seen: false })
}

/// number of mappings in /proc/self/maps whose backing file carries `name`
fn named_mappings(name: &str) -> u128 {
    let needle = format!("/memfd:{} (deleted)", name);
    maps().lines().filter(|l| l.contains(&needle)).count() as u128
}

/// variants 0..5 of CreateRefused: requests refused before anything is mapped.  Returns (st, stray mappings).
fn refused_request(cid: u64, seq: u64, v: u64) -> (u128, u128) {
    let name = format!("vmh12_{}_x{}", cid, seq);
    let size = size_of_region(seq);
    let span = span_of(size);
    let rw = libc::PROT_READ | libc::PROT_WRITE;
    match v {
        0 | 1 | 3 => {
            let f = memfd(&name, span);
            let res = match v {
                // the mapping would extend one page past EOF
                0 => MmapRegion::<()>::from_file(FileOffset::new(f, PAGE as u64), size),
                // offset + size overflows u64
                1 => MmapRegion::<()>::from_file(FileOffset::new(f, u64::MAX - 0xfff), size.max(PAGE)),
                _ => MmapRegionBuilder::<()>::new(size)
                    .with_file_offset(FileOffset::new(f, 0))
                    .with_mmap_prot(rw)
                    .with_mmap_flags(libc::MAP_SHARED | libc::MAP_FIXED)
                    .build(),
            };
            let st = if res.is_ok() { 1 } else { 2 };
            drop(res);
            (st, named_mappings(&name))
        }
        2 => {
            let res = MmapRegionBuilder::<()>::new(size)
                .with_mmap_prot(rw)
                .with_mmap_flags(libc::MAP_ANONYMOUS | libc::MAP_PRIVATE | libc::MAP_FIXED)
                .build();
            let st = if res.is_ok() { 1 } else { 2 };
            drop(res);
            (st, 0)
        }
        _ => {
            // a mapping of the harness, offered through a pointer that is not page aligned
            let f = memfd(&name, span);
            // SAFETY: fresh shared mapping owned by the harness, unmapped below
            let p = unsafe { libc::mmap(std::ptr::null_mut(), span, rw, libc::MAP_SHARED, f.as_raw_fd(), 0) };
            assert_ne!(p, libc::MAP_FAILED);
            let bad = (p as usize + 1) as *mut u8;
            // SAFETY: the request is refused (misaligned); if it were accepted the object is dropped at once and never used
            let res = unsafe {
                if v == 4 {
                    MmapRegionBuilder::<()>::new(size - 1).with_raw_mmap_pointer(bad).with_mmap_prot(rw).with_mmap_flags(libc::MAP_SHARED).build()
                } else {
                    MmapRegion::<()>::build_raw(bad, size - 1, rw, libc::MAP_SHARED)
                }
            };
            let st = if res.is_ok() { 1 } else { 2 };
            drop(res);
            let cnt = named_mappings(&name);
            // SAFETY: mapped above
            unsafe {
                libc::munmap(p, span);
            }
            (st, if cnt == 0 { 7 } else { cnt - 1 })
        }
    }
}

fn exec(case: &[Tok]) -> Vec<Tok> {
    let ops: Vec<u128> = case[0].l().to_vec();
    let cid = CASE.fetch_add(1, Ordering::SeqCst);
    let mut handles: Vec<Option<H>> = Vec::new();
    let mut infos: Vec<Info> = Vec::new();
    let mut raws: Vec<usize> = Vec::new();
    let mut out: Vec<u128> = Vec::new();
    let mut nrefused: u64 = 0;
    // address-space accounting: after every operation the mapped bytes must have changed by exactly the spans of the
    // regions that came to life / went away in it (a munmap that is too long takes foreign mappings along)
    let mut prev_bytes = mapped_bytes(&parse_maps(&maps()));
    let mut prev_mask: u128 = 0;
    let idx = |x: u128| if x < 1 << 32 { x as usize } else { usize::MAX };
    for p in ops.chunks(3).take(300) {
        if p.len() < 3 {
            break;
        }
        let (code, a, b) = (p[0], p[1], p[2]);
        // (st, val)
        let mut res: (u128, u128) = (0, 0);
        match code {
            0 if infos.len() < 100 => {
                let id = infos.len() as u64;
                let (r, inf) = create(cid, id, (a % 3) as u64, b.min(0xffff_ffff) as u64, &mut raws);
                infos.push(inf);
                res = (1, 1u128 << tag(&r));
                handles.push(Some(H::Region(r)));
            }
            1 => {
                let cnt = b.min(8) as usize;
                let mut v: Vec<Arc<R>> = Vec::new();
                let mut ok = true;
                let mut x = a;
                for _ in 0..cnt {
                    match handles.get((x % 32) as usize) {
                        Some(Some(H::Region(r))) => v.push(r.clone()),
                        _ => ok = false,
                    }
                    x /= 32;
                }
                if ok {
                    match GuestMemoryMmap::from_arc_regions(v) {
                        Ok(m) => {
                            res = (1, mask_regions(m.iter()));
                            handles.push(Some(H::Map(m)));
                        }
                        Err(_) => res = (2, 0),
                    }
                }
            }
            2 => {
                if let (Some(Some(H::Map(m))), Some(Some(H::Region(r)))) = (handles.get(idx(a)), handles.get(idx(b))) {
                    match m.insert_region(r.clone()) {
                        Ok(m2) => {
                            res = (1, mask_regions(m2.iter()));
                            handles.push(Some(H::Map(m2)));
                        }
                        Err(_) => res = (2, 0),
                    }
                }
            }
            3 => {
                if let Some(Some(H::Map(m))) = handles.get(idx(a)) {
                    let base = (b / 2) * 0x10000;
                    // the right size is the actual size of the region that starts there (if any); odd b = wrong size
                    let actual = m.iter().find(|r| r.start_addr().0 as u128 == base).map(|r| r.len()).unwrap_or(PAGE as u64);
                    let size = if b % 2 == 0 { actual } else { actual + PAGE as u64 };
                    let r = if base <= u64::MAX as u128 { m.remove_region(GuestAddress(base as u64), size).ok() } else { None };
                    match r {
                        Some((m2, arc)) => {
                            res = (1, 1u128 << tag(&arc));
                            handles.push(Some(H::Map(m2)));
                            handles.push(Some(H::Region(arc)));
                        }
                        None => res = (2, 0),
                    }
                }
            }
            4 => {
                let new = match handles.get(idx(a)) {
                    Some(Some(H::Region(r))) => Some(H::Region(r.clone())),
                    Some(Some(H::Map(m))) => Some(H::Map(m.clone())),
                    Some(Some(H::Snap(m))) => Some(H::Snap(m.clone())),
                    _ => None,
                };
                if let Some(h) = new {
                    res = (1, mask_h(&h));
                    handles.push(Some(h));
                }
            }
            5 => {
                if let Some(Some(H::Map(m))) = handles.get(idx(a)) {
                    let s = Arc::new(m.clone());
                    res = (1, mask_regions(s.iter()));
                    handles.push(Some(H::Snap(s)));
                }
            }
            6 => {
                if let Some(Some(_)) = handles.get(idx(a)) {
                    handles[idx(a)] = None;
                    res = (1, 0);
                }
            }
            7 if infos.len() < 100 => {
                let v = (a % 9) as u64;
                if v < 6 {
                    nrefused += 1;
                    res = refused_request(cid, nrefused, v);
                } else {
                    // an MmapRegion of kind v - 6 is built, then GuestRegionMmap::new gets a base that overflows
                    let id = infos.len() as u64;
                    let (region, inf) = build_region(cid, id, v - 6, &mut raws);
                    let size = region.size() as u64;
                    infos.push(inf);
                    let r = GuestRegionMmap::new(region, GuestAddress(u64::MAX - size + 1));
                    res = (if r.is_ok() { 1 } else { 2 }, 0);
                    drop(r);
                }
            }
            8 => {
                let cnt = (b % 16).min(8) as usize;
                let unwrap = b >= 16;
                let mut ids: Vec<usize> = Vec::new();
                let mut x = a;
                for _ in 0..cnt {
                    ids.push((x % 32) as usize);
                    x /= 32;
                }
                let distinct = (0..ids.len()).all(|i| !ids[i + 1..].contains(&ids[i]));
                let all_regions = ids.iter().all(|i| matches!(handles.get(*i), Some(Some(H::Region(_)))));
                let sole = ids.iter().all(|i| match handles.get(*i) {
                    Some(Some(H::Region(r))) => Arc::strong_count(r) == 1,
                    _ => false,
                });
                if all_regions && distinct && (!unwrap || sole) {
                    let arcs: Vec<Arc<R>> = ids
                        .iter()
                        .map(|i| match handles[*i].take() {
                            Some(H::Region(r)) => r,
                            _ => unreachable!(),
                        })
                        .collect();
                    let built = if unwrap {
                        let regions: Vec<R> = arcs.into_iter().map(|r| Arc::try_unwrap(r).ok().expect("sole owner")).collect();
                        GuestMemoryMmap::from_regions(regions)
                    } else {
                        GuestMemoryMmap::from_arc_regions(arcs)
                    };
                    match built {
                        Ok(m) => {
                            res = (1, mask_regions(m.iter()));
                            handles.push(Some(H::Map(m)));
                        }
                        Err(_) => res = (2, 0),
                    }
                }
            }
            9 => {
                let ok = matches!(handles.get(idx(a)), Some(Some(H::Map(_)))) && matches!(handles.get(idx(b)), Some(Some(H::Region(_))));
                if ok {
                    let arc = match handles[idx(b)].take() {
                        Some(H::Region(r)) => r,
                        _ => unreachable!(),
                    };
                    let out = match &handles[idx(a)] {
                        Some(H::Map(m)) => m.insert_region(arc),
                        _ => unreachable!(),
                    };
                    match out {
                        Ok(m2) => {
                            res = (1, mask_regions(m2.iter()));
                            handles.push(Some(H::Map(m2)));
                        }
                        Err(_) => res = (2, 0),
                    }
                }
            }
            _ => {}
        }
        // every mapping, page by page; then reads through every surviving handle
        let mp = maps();
        let (mask, partial) = live_mask(&mut infos, &mp);
        let lines = parse_maps(&mp);
        let mut corrupt = partial;
        let now_bytes = mapped_bytes(&lines);
        let mut expect = prev_bytes as i128;
        for (r, inf) in infos.iter().enumerate() {
            let (was, is) = (prev_mask >> r & 1 == 1, mask >> r & 1 == 1);
            if is && !was {
                expect += span_of(inf.size) as i128;
            }
            if was && !is {
                expect -= span_of(inf.size) as i128;
            }
        }
        if now_bytes as i128 != expect {
            corrupt = true;
            if std::env::var("VMH_DEBUG12").is_ok() {
                eprintln!("accounting: prev {:x} now {:x} expect {:x} prev_mask {:x} mask {:x} partial {}\n{}", prev_bytes, now_bytes, expect, prev_mask, mask, partial, mp);
                for inf in infos.iter() {
                    eprintln!("  region kind {} {} addr {:x} size {:x} dead {}", inf.kind, inf.name, inf.addr, inf.size, inf.dead_seen);
                }
            }
        }
        prev_bytes = now_bytes;
        prev_mask = mask;
        for h in handles.iter().flatten() {
            if !handle_readable(h, &lines) {
                corrupt = true;
            }
        }
        if !corrupt {
            for h in handles.iter().flatten() {
                if mask_h(h) >> 127 != 0 {
                    corrupt = true;
                }
            }
        }
        out.push(res.0);
        out.push(res.1);
        out.push(if corrupt { u128::MAX } else { mask });
        if corrupt {
            // handles may point at unmapped memory: forget them instead of running their destructors on it
            for h in handles.drain(..) {
                std::mem::forget(h);
            }
            break;
        }
    }
    handles.clear();
    for ps in raws.chunks(2) {
        // SAFETY: mapped by `create` above (address, span), no region object refers to it any more
        unsafe {
            libc::munmap(ps[0] as *mut libc::c_void, ps[1]);
        }
    }
    vec![Tok::L(out)]
}

fn perms(n: usize) -> Vec<Vec<usize>> {
    if n == 0 {
        return vec![vec![]];
    }
    let mut out = Vec::new();
    for p in perms(n - 1) {
        for i in 0..=p.len() {
            let mut q = p.clone();
            q.insert(i, n - 1);
            out.push(q);
        }
    }
    out
}

fn gen(rng: &mut Rng, tier: Tier, emit: &mut dyn FnMut(Vec<Tok>)) {
    let mut case = |ops: &[(u64, u64, u64)]| {
        emit(vec![Tok::L(ops.iter().flat_map(|(c, a, b)| [*c as u128, *a as u128, *b as u128]).collect())])
    };
    // ---- every drop order of <= 4 (5) handles sharing regions, for every kind of mapping
    for k in 0..3u64 {
        for k2 in 0..3u64 {
            let shapes: Vec<(Vec<(u64, u64, u64)>, usize)> = vec![
                // region, map of it, clone of the map, snapshot of the map
                (vec![(0, k, 1), (1, 0, 1), (4, 1, 0), (5, 1, 0)], 4),
                // two regions, map of the first, map derived by insert
                (vec![(0, k, 1), (0, k2, 2), (1, 0, 1), (2, 2, 1)], 4),
                // region, map, snapshot, clone of the snapshot
                (vec![(0, k, 3), (1, 0, 1), (5, 1, 0), (4, 2, 0)], 4),
                // two regions in one map; remove_region gives a derived map and the removed region;
                // the creating handles are dropped first: 3 handles left
                (vec![(0, k, 1), (0, k2, 2), (1, 0 | 1 << 5, 2), (3, 2, 4), (6, 0, 0), (6, 1, 0)], 5),
            ];
            for (pre, nh) in shapes {
                if k2 != 0 && !pre.iter().any(|o| o.0 == 0 && o.1 == k2 && o.2 == 2) {
                    continue;
                }
                for p in perms(nh) {
                    let mut ops = pre.clone();
                    for h in p {
                        ops.push((6, h as u64, 0));
                    }
                    case(&ops);
                }
            }
        }
    }
    // five handles, all 120 orders, mixed kinds
    for p in perms(5) {
        let mut ops = vec![(0, 1, 1), (0, 2, 2), (1, 0 | 1 << 5, 2), (3, 2, 2), (5, 3, 0)];
        // handles: 0 r0, 1 r1, 2 map{r0,r1}, 3 map{r1}, 4 region r0 (removed), 5 snapshot{r1}
        ops.push((6, 5, 0));
        for h in p {
            ops.push((6, h as u64, 0));
        }
        case(&ops);
    }
    // ---- error paths: overlapping / unsorted / empty builds and inserts must change nothing
    case(&[(0, 1, 1), (0, 1, 1), (1, 0 | 1 << 5, 2), (1, 0, 0), (1, 0, 1), (2, 2, 1), (2, 2, 0), (6, 0, 0), (6, 1, 0), (6, 2, 0)]);
    case(&[(0, 1, 2), (0, 0, 1), (1, 0 | 1 << 5, 2), (1, 1 | 0 << 5, 2), (3, 2, 3), (3, 2, 8), (3, 2, 4), (6, 2, 0), (6, 0, 0), (6, 1, 0), (6, 3, 0), (6, 4, 0)]);
    // ---- refused creations: every variant alone, between two ordinary regions, and before the final drops
    for v in 0..9u64 {
        case(&[(7, v, 1)]);
        case(&[(0, 1, 1), (7, v, 2), (0, 0, 3), (7, v, 1), (1, 0 | 2 << 5, 2), (6, 0, 0), (6, 2, 0), (7, v, 4), (6, 3, 0)]);
        case(&[(7, v, 1), (7, (v + 3) % 9, 1), (7, (v + 6) % 9, 2), (0, 2, 1), (6, 0, 0)]);
    }
    // ---- consumed arguments: from_arc_regions / from_regions / insert_region that FAIL (overlap: both regions in
    // one slot; unsorted; empty) with and without another owner of the consumed regions, and that succeed
    for k in 0..3u64 {
        for k2 in 0..3u64 {
            for un in [0u64, 16] {
                // both handles consumed by a failing call: both mappings must go (raw ones stay)
                case(&[(0, k, 1), (0, k2, 1), (8, 0 | 1 << 5, 2 + un), (6, 0, 0), (6, 1, 0)]);
                // unsorted
                case(&[(0, k, 2), (0, k2, 1), (8, 0 | 1 << 5, 2 + un), (0, k, 3)]);
                // success, then every drop order of the map and a snapshot of it
                case(&[(0, k, 1), (0, k2, 2), (8, 0 | 1 << 5, 2 + un), (5, 2, 0), (6, 2, 0), (6, 3, 0)]);
                case(&[(0, k, 1), (0, k2, 2), (8, 0 | 1 << 5, 2 + un), (5, 2, 0), (6, 3, 0), (6, 2, 0)]);
            }
            // another owner exists (a clone of the first handle / a map holding it): the failing call must not unmap it
            case(&[(0, k, 1), (0, k2, 1), (4, 0, 0), (8, 0 | 1 << 5, 2), (8, 0 | 1 << 5, 18), (6, 2, 0)]);
            case(&[(0, k, 1), (0, k2, 1), (1, 0, 1), (8, 0 | 1 << 5, 2), (6, 2, 0)]);
            // from_regions over a shared Arc is not possible; over the same handle twice neither
            case(&[(0, k, 1), (4, 0, 0), (8, 0, 17), (8, 0 | 0 << 5, 2), (8, 0 | 1 << 5, 2), (6, 0, 0), (6, 1, 0)]);
            // insert_region taking the Arc: failing (same slot) without / with another owner; succeeding
            case(&[(0, k, 1), (1, 0, 1), (0, k2, 1), (9, 1, 2), (6, 0, 0), (6, 1, 0)]);
            case(&[(0, k, 1), (1, 0, 1), (0, k2, 1), (4, 2, 0), (9, 1, 2), (6, 0, 0), (6, 1, 0), (6, 3, 0)]);
            case(&[(0, k, 1), (1, 0, 1), (0, k2, 2), (9, 1, 2), (6, 0, 0), (6, 1, 0), (6, 3, 0)]);
            case(&[(0, k, 1), (1, 0, 1), (0, k2, 2), (9, 1, 2), (6, 3, 0), (6, 1, 0), (6, 0, 0)]);
            // the map's own region handed back to it: overlap with itself
            case(&[(0, k, 1), (1, 0, 1), (9, 1, 0), (6, 1, 0)]);
        }
    }
    // empty vector, failing remove_region between refusals
    case(&[(8, 0, 0), (8, 0, 16), (0, 1, 1), (1, 0, 1), (3, 1, 3), (7, 0, 1), (3, 1, 8), (7, 6, 1), (3, 1, 2), (6, 0, 0), (6, 1, 0), (6, 2, 0), (6, 3, 0)]);
    // ---- random histories, steered by a shadow of the handle table (kind + slots) so that most
    // operations are meaningful; the shadow only guides the choice, it is not an oracle
    #[derive(Clone)]
    enum Sh {
        R(u64),
        M(Vec<u64>),
        S,
        Dead,
    }
    let ncases = if tier == Tier::Quick { 1200 } else { 40_000 };
    for _ in 0..ncases {
        let maxlen = if rng.chance(1, 8) { 50 } else { 20 };
        let len = rng.range(2, maxlen);
        let mut ops: Vec<(u64, u64, u64)> = Vec::new();
        let mut sh: Vec<Sh> = Vec::new();
        let nslots = rng.range(2, 6);
        let kinds = rng.below(4); // 0..2: only that kind, 3: mixed
        let mut nreg = 0;
        for i in 0..len {
            let any = |rng: &mut Rng, sh: &Vec<Sh>| rng.below(sh.len() as u64 + 2);
            let of = |rng: &mut Rng, sh: &Vec<Sh>, want: u8| -> u64 {
                let c: Vec<u64> = sh
                    .iter()
                    .enumerate()
                    .filter(|(_, h)| match (h, want) {
                        (Sh::R(_), 0) | (Sh::M(_), 1) | (Sh::S, 2) => true,
                        (Sh::Dead, _) => false,
                        (_, 3) => true,
                        _ => false,
                    })
                    .map(|(i, _)| i as u64)
                    .collect();
                if c.is_empty() || rng.chance(1, 15) {
                    rng.below(sh.len() as u64 + 2)
                } else {
                    *rng.pick(&c)
                }
            };
            let c = if i < 2 { 0 } else { rng.below(23) };
            match c {
                0..=2 if nreg < 40 => {
                    let k = if kinds == 3 { rng.below(3) } else { kinds };
                    let slot = rng.range(1, nslots);
                    ops.push((0, k, slot));
                    sh.push(Sh::R(slot));
                    nreg += 1;
                }
                3..=4 => {
                    let lo = if rng.chance(1, 10) { 0 } else { 1 };
                    let cnt = rng.range(lo, 3);
                    let mut hs: Vec<u64> = (0..cnt).map(|_| of(rng, &sh, 0) % 32).collect();
                    let slot = |h: &u64| match sh.get(*h as usize) {
                        Some(Sh::R(s)) => Some(*s),
                        _ => None,
                    };
                    if rng.chance(5, 6) {
                        hs.sort_by_key(|h| slot(h).unwrap_or(0));
                    }
                    let slots: Vec<Option<u64>> = hs.iter().map(slot).collect();
                    let packed = hs.iter().rev().fold(0u64, |acc, h| acc * 32 + h);
                    ops.push((1, packed, cnt));
                    if cnt > 0 && slots.iter().all(|s| s.is_some()) && slots.windows(2).all(|w| w[0] < w[1]) {
                        sh.push(Sh::M(slots.iter().map(|s| s.unwrap()).collect()));
                    }
                }
                5..=6 => {
                    let (m, r) = (of(rng, &sh, 1), of(rng, &sh, 0));
                    ops.push((2, m, r));
                    if let (Some(Sh::M(v)), Some(Sh::R(s))) = (sh.get(m as usize), sh.get(r as usize)) {
                        if !v.contains(s) {
                            let mut v2 = v.clone();
                            v2.push(*s);
                            v2.sort();
                            sh.push(Sh::M(v2));
                        }
                    }
                }
                7..=8 => {
                    let m = of(rng, &sh, 1);
                    let slot = match sh.get(m as usize) {
                        Some(Sh::M(v)) if !v.is_empty() && rng.chance(7, 8) => *rng.pick(v),
                        _ => rng.range(1, nslots),
                    };
                    let wrong = rng.chance(1, 10) as u64;
                    ops.push((3, m, 2 * slot + wrong));
                    if let Some(Sh::M(v)) = sh.get(m as usize) {
                        if wrong == 0 && v.contains(&slot) {
                            let v2: Vec<u64> = v.iter().copied().filter(|x| *x != slot).collect();
                            sh.push(Sh::M(v2));
                            sh.push(Sh::R(slot));
                        }
                    }
                }
                9..=10 => {
                    let h = of(rng, &sh, 3);
                    ops.push((4, h, 0));
                    if let Some(x) = sh.get(h as usize).cloned() {
                        if !matches!(x, Sh::Dead) {
                            sh.push(x);
                        }
                    }
                }
                11..=12 => {
                    let h = of(rng, &sh, 1);
                    ops.push((5, h, 0));
                    if let Some(Sh::M(_)) = sh.get(h as usize) {
                        sh.push(Sh::S);
                    }
                }
                13 => ops.push((rng.range(10, 12), any(rng, &sh), 0)),
                17..=18 if nreg < 40 => {
                    // a refused creation (variants 6..8 take a region id)
                    let v = rng.below(9);
                    ops.push((7, v, rng.range(1, nslots)));
                    if v >= 6 {
                        nreg += 1;
                    }
                }
                19..=20 => {
                    // from_arc_regions / from_regions over the handles themselves
                    let cnt = rng.range(1, 3);
                    let mut hs: Vec<u64> = Vec::new();
                    for _ in 0..cnt {
                        let h = of(rng, &sh, 0) % 32;
                        if !hs.contains(&h) || rng.chance(1, 10) {
                            hs.push(h);
                        }
                    }
                    let slot = |h: &u64| match sh.get(*h as usize) {
                        Some(Sh::R(s)) => Some(*s),
                        _ => None,
                    };
                    if rng.chance(3, 4) {
                        hs.sort_by_key(|h| slot(h).unwrap_or(0));
                    }
                    let slots: Vec<Option<u64>> = hs.iter().map(slot).collect();
                    let packed = hs.iter().rev().fold(0u64, |acc, h| acc * 32 + h);
                    let un = if rng.chance(1, 3) { 16 } else { 0 };
                    ops.push((8, packed, hs.len() as u64 + un));
                    let distinct = (0..hs.len()).all(|i| !hs[i + 1..].contains(&hs[i]));
                    if distinct && slots.iter().all(|s| s.is_some()) {
                        // (with un the call may also be impossible: the shadow does not count owners; it only guides)
                        for h in &hs {
                            sh[*h as usize] = Sh::Dead;
                        }
                        if slots.windows(2).all(|w| w[0] < w[1]) {
                            sh.push(Sh::M(slots.iter().map(|s| s.unwrap()).collect()));
                        }
                    }
                }
                21..=22 => {
                    let (m, r) = (of(rng, &sh, 1), of(rng, &sh, 0));
                    ops.push((9, m, r));
                    if let (Some(Sh::M(v)), Some(Sh::R(s))) = (sh.get(m as usize).cloned(), sh.get(r as usize).cloned()) {
                        sh[r as usize] = Sh::Dead;
                        if !v.contains(&s) {
                            let mut v2 = v.clone();
                            v2.push(s);
                            v2.sort();
                            sh.push(Sh::M(v2));
                        }
                    }
                }
                _ => {
                    let h = of(rng, &sh, 3);
                    ops.push((6, h, 0));
                    if let Some(x) = sh.get_mut(h as usize) {
                        *x = Sh::Dead;
                    }
                }
            }
        }
        // finally drop everything in a random order (quiescence: nothing may be left mapped)
        if rng.chance(3, 4) {
            let mut hs: Vec<u64> = (0..sh.len() as u64 + 1).collect();
            for i in (1..hs.len()).rev() {
                hs.swap(i, rng.below(i as u64 + 1) as usize);
            }
            for h in hs {
                ops.push((6, h, 0));
            }
        }
        case(&ops);
    }
    let _ = (util::fnv, n(0u8));
}
}
