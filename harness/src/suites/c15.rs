//! C15 (standard unix build): region construction requests x sizes / file lengths / offsets around
//! EOF and 2^64, MAP_FIXED, aligned / misaligned raw pointers, guest bases near 2^64.
//! case:  mode kind size prot flags hasfile filelen start hasraw rawdelta hasbase base page cohere huge
//! obs:   probe res size prot flags hasfile start samefd owned ptr pos d1 d2 coh1 coh2 huge
//! huge (builder requests only): the hugetlbfs hint, 0 not given, 1 with_hugetlbfs(false), 2 with_hugetlbfs(true);
//! observed as is_hugetlbfs() of the region built.  The hint is a label: it must not change any decision.
//! (see coq/Spec/C15.v for the meaning).  Observation routes that do not go through the accessors
//! under test: /proc/self/maps (bytes mapped before / while alive / after), lseek on a dup of the
//! backing fd, pread/pwrite on the backing file, an independent mmap probe with the same arguments.
//! Suite C15perm (standard build): what the kernel MAPPED - the permission column of /proc/self/maps at as_ptr() -
//! against what the region reports (prot(), flags()) and what was requested.
//! case:  mode kind size prot flags hasfile filelen start page        obs:  probe res prot flags mprot
//! In the xen build this file only provides an empty C15 suite (the unix backend is not compiled);
//! in the standard build it also provides the empty stand-in for C15xen (see c15_xen.rs).
use crate::{Rng, Suite, Tier, Tok};

fn nogen(_: &mut Rng, _: Tier, _: &mut dyn FnMut(Vec<Tok>)) {}
fn noexec(_: &[Tok]) -> Vec<Tok> {
    vec![Tok::N(0xbad0bad)]
}

#[cfg(feature = "xen")]
pub const SUITES: &[Suite] = &[
    Suite { name: "C15", gen: nogen, exec: noexec },
    Suite { name: "C15perm", gen: nogen, exec: noexec },
];
#[cfg(not(feature = "xen"))]
pub const SUITES: &[Suite] = &[
    Suite { name: "C15", gen: real::gen, exec: real::exec },
    Suite { name: "C15xen", gen: nogen, exec: noexec },
    Suite { name: "C15xu", gen: nogen, exec: noexec },
    Suite { name: "C15xm", gen: nogen, exec: noexec },
    Suite { name: "C15perm", gen: real::gen_perm, exec: real::exec_perm },
];

/// Sum of the sizes of all mappings of the process except [heap] and [stack] (which move with
/// ordinary allocation).  Uses no heap allocation itself.
pub fn mapped_bytes() -> u64 {
    static mut BUF: [u8; 1 << 20] = [0; 1 << 20];
    unsafe {
        let buf = &mut *std::ptr::addr_of_mut!(BUF);
        let fd = libc::open(b"/proc/self/maps\0".as_ptr() as *const libc::c_char, libc::O_RDONLY);
        assert!(fd >= 0);
        let mut n = 0usize;
        loop {
            let r = libc::read(fd, buf.as_mut_ptr().add(n) as *mut libc::c_void, buf.len() - n);
            if r <= 0 {
                break;
            }
            n += r as usize;
        }
        libc::close(fd);
        let mut total = 0u64;
        for line in buf[..n].split(|b| *b == b'\n') {
            if line.is_empty() || line.ends_with(b"[heap]") || line.ends_with(b"[stack]") {
                continue;
            }
            let mut it = line.splitn(2, |b| *b == b'-');
            let a = it.next().unwrap();
            let rest = it.next().unwrap();
            let b = rest.split(|b| *b == b' ').next().unwrap();
            let pa = u64::from_str_radix(std::str::from_utf8(a).unwrap(), 16).unwrap();
            let pb = u64::from_str_radix(std::str::from_utf8(b).unwrap(), 16).unwrap();
            total = total.wrapping_add(pb - pa);
        }
        total
    }
}

/// Permission column of the /proc/self/maps line that covers `addr`: r 1 | w 2 | x 4 | shared 8; 16 = no such line.
/// This is what the kernel says about the mapping that was MADE, whatever the region object reports.
pub fn maps_perms(addr: u64) -> u64 {
    let text = std::fs::read_to_string("/proc/self/maps").unwrap_or_default();
    for line in text.lines() {
        let mut it = line.split_whitespace();
        let (range, perms) = match (it.next(), it.next()) {
            (Some(r), Some(p)) => (r, p.as_bytes()),
            _ => continue,
        };
        let mut ab = range.splitn(2, '-');
        let a = u64::from_str_radix(ab.next().unwrap_or(""), 16).unwrap_or(u64::MAX);
        let b = u64::from_str_radix(ab.next().unwrap_or(""), 16).unwrap_or(0);
        if a <= addr && addr < b && perms.len() >= 4 {
            return (perms[0] == b'r') as u64
                | ((perms[1] == b'w') as u64) << 1
                | ((perms[2] == b'x') as u64) << 2
                | ((perms[3] == b's') as u64) << 3;
        }
    }
    16
}

/// memfd of the given length (sparse); None if the kernel refuses that length.
pub fn memfd(len: u64) -> Option<i32> {
    unsafe {
        let fd = libc::memfd_create(b"vmh-c15\0".as_ptr() as *const libc::c_char, 0);
        assert!(fd >= 0);
        if len > i64::MAX as u64 || libc::ftruncate(fd, len as libc::off_t) != 0 {
            libc::close(fd);
            return None;
        }
        Some(fd)
    }
}

#[cfg(not(feature = "xen"))]
mod real {
    use super::{mapped_bytes, memfd};
    use crate::tok::n;
    use crate::{util, Rng, Tier, Tok};
    use std::fs::File;
    use std::os::unix::io::{AsRawFd, FromRawFd};
    use vm_memory::mmap::{MmapRegionBuilder, MmapRegionError};
    use vm_memory::{Bytes, FileOffset, GuestAddress, GuestRegionMmap, MemoryRegionAddress, MmapRegion};

    const RW: i32 = libc::PROT_READ | libc::PROT_WRITE;
    const F_NEW: i32 = libc::MAP_ANONYMOUS | libc::MAP_NORESERVE | libc::MAP_PRIVATE;
    const F_FILE: i32 = libc::MAP_NORESERVE | libc::MAP_SHARED;

    enum Built {
        Plain(MmapRegion<()>),
        Guest(GuestRegionMmap<()>),
    }
    impl Built {
        fn r(&self) -> &MmapRegion<()> {
            match self {
                Built::Plain(r) => r,
                Built::Guest(g) => g,
            }
        }
    }

    fn code(e: &MmapRegionError) -> u64 {
        match e {
            MmapRegionError::InvalidOffsetLength => 1,
            MmapRegionError::InvalidPointer => 2,
            MmapRegionError::MapFixed => 3,
            MmapRegionError::MappingPastEof => 4,
            MmapRegionError::Mmap(_) => 5,
            MmapRegionError::MappingOverlap => 11,
            MmapRegionError::SeekEnd(_) => 12,
            MmapRegionError::SeekStart(_) => 13,
        }
    }
    fn gcode(e: &vm_memory::mmap::Error) -> u64 {
        match e {
            vm_memory::mmap::Error::InvalidGuestRegion => 6,
            vm_memory::mmap::Error::MmapRegion(e) => code(e),
            _ => 14,
        }
    }

    pub fn exec(case: &[Tok]) -> Vec<Tok> {
        assert!(case.len() == 15);
        let huge = case[14].u();
        assert!(huge < 3 && (huge == 0 || case[1].u() == 0));
        let kind = case[1].u();
        let size = case[2].u() as usize;
        let (prot, flags) = (case[3].u() as u32 as i32, case[4].u() as u32 as i32);
        let (hasfile, flen, start) = (case[5].u() != 0, case[6].u(), case[7].u());
        let (hasraw, rawdelta) = (case[8].u() != 0, case[9].u() as usize);
        let (hasbase, base) = (case[10].u() != 0, case[11].u());
        let page = unsafe { libc::sysconf(libc::_SC_PAGESIZE) } as u64;
        assert!(case[12].u() == page);
        let cohere = case[13].u() != 0;
        let kind_ok = match kind {
            0 => true,
            1 => !hasfile && !hasraw,
            2 => hasfile && !hasraw,
            3 => !hasraw,
            4 => hasraw && !hasfile,
            5 => !hasraw && hasbase,
            _ => false,
        };
        assert!(kind_ok);
        assert!(rawdelta < 3 * page as usize);

        // backing file, cursor parked at 7 so that the seek/rewind of check_file_offset is visible
        let fd = if hasfile { Some(memfd(flen).expect("file length refused")) } else { None };
        if let Some(fd) = fd {
            unsafe { libc::lseek(fd, 7, libc::SEEK_SET) };
        }
        let mk_fo = |fd: i32| -> (FileOffset, i32) {
            let d = unsafe { libc::dup(fd) };
            assert!(d >= 0);
            (FileOffset::new(unsafe { File::from_raw_fd(d) }, start), d)
        };
        // externally supplied mapping: 4 pages, the pointer handed over is P + rawdelta
        let area = if hasraw {
            let p = unsafe {
                libc::mmap(std::ptr::null_mut(), 4 * page as usize, RW, libc::MAP_ANONYMOUS | libc::MAP_PRIVATE, -1, 0)
            };
            assert!(p != libc::MAP_FAILED && (p as u64) % page == 0);
            Some(p as *mut u8)
        } else {
            None
        };
        // effective mmap arguments of the request (defaults of the convenience constructors)
        let (eprot, eflags) = match kind {
            1 => (RW, F_NEW),
            2 => (RW, F_FILE),
            5 => (RW, if hasfile { F_FILE } else { F_NEW }),
            _ => (prot, flags),
        };
        // independent probe: would the kernel grant this mapping?
        let probe: u64 = if hasraw || (eflags & libc::MAP_FIXED) != 0 {
            2
        } else {
            let p = unsafe {
                libc::mmap(std::ptr::null_mut(), size, eprot, eflags, fd.unwrap_or(-1), if hasfile { start as libc::off_t } else { 0 })
            };
            if p == libc::MAP_FAILED {
                0
            } else {
                unsafe { libc::munmap(p, size) };
                1
            }
        };

        let mut passed_fd = -1;
        let fo = if hasfile {
            let (fo, d) = mk_fo(fd.unwrap());
            passed_fd = d;
            Some(fo)
        } else {
            None
        };
        let m0 = mapped_bytes();
        let built: Option<Result<Built, u64>> = util::catch(|| {
            let r: Result<MmapRegion<()>, MmapRegionError> = match kind {
                0 => {
                    // the last call of a setter decides: in half of the cases (chosen by the request itself) every
                    // option is first set to a decoy value - all protection bits, other mapping flags, the other
                    // hugetlbfs hint - and then to the requested one
                    let twice = (size % 2 + prot as usize % 2 + flags as usize % 2 + huge as usize % 2) % 2 == 1;
                    let mut b = MmapRegionBuilder::<()>::new(size);
                    if twice {
                        b = b
                            .with_mmap_prot(libc::PROT_READ | libc::PROT_WRITE | libc::PROT_EXEC)
                            .with_mmap_flags(libc::MAP_SHARED | libc::MAP_ANONYMOUS | libc::MAP_NORESERVE | libc::MAP_POPULATE);
                        if huge != 0 {
                            b = b.with_hugetlbfs(huge != 2);
                        }
                    }
                    b = b.with_mmap_prot(prot).with_mmap_flags(flags);
                    if let Some(fo) = fo.clone() {
                        b = b.with_file_offset(fo);
                    }
                    if let Some(p) = area {
                        b = unsafe { b.with_raw_mmap_pointer(p.add(rawdelta)) };
                    }
                    if huge != 0 {
                        b = b.with_hugetlbfs(huge == 2);
                    }
                    b.build()
                }
                1 => MmapRegion::new(size),
                2 => MmapRegion::from_file(fo.clone().unwrap(), size),
                3 => MmapRegion::build(fo.clone(), size, prot, flags),
                4 => unsafe { MmapRegion::build_raw(area.unwrap().add(rawdelta), size, prot, flags) },
                5 => {
                    return GuestRegionMmap::<()>::from_range(GuestAddress(base), size, fo.clone())
                        .map(Built::Guest)
                        .map_err(|e| gcode(&e));
                }
                _ => unreachable!(),
            };
            match r {
                Err(e) => Err(code(&e)),
                Ok(r) => {
                    if hasbase {
                        GuestRegionMmap::new(r, GuestAddress(base)).map(Built::Guest).map_err(|e| gcode(&e))
                    } else {
                        Ok(Built::Plain(r))
                    }
                }
            }
        });
        drop(fo);
        let m1 = mapped_bytes();
        let mut out: Vec<Tok> = vec![n(probe)];
        let mut coh = (2u64, 2u64);
        let mut ohuge = 0u64;
        match &built {
            None => out.extend([99u64, 0, 0, 0, 0, 0, 0, 0, 0].iter().map(|x| n(*x))),
            Some(Err(c)) => out.extend([*c, 0, 0, 0, 0, 0, 0, 0, 0].iter().map(|x| n(*x))),
            Some(Ok(b)) => {
                let r = b.r();
                ohuge = match r.is_hugetlbfs() {
                    None => 0,
                    Some(false) => 1,
                    Some(true) => 2,
                };
                let ptr = match area {
                    Some(p) => (r.as_ptr() as u64).wrapping_sub(p as u64),
                    None => (r.as_ptr() as u64) % page,
                };
                let (hf, st, same) = match r.file_offset() {
                    Some(f) => (1u64, f.start(), (f.file().as_raw_fd() == passed_fd) as u64),
                    None => (0, 0, 0),
                };
                out.extend(
                    [0, r.size() as u64, r.prot() as u32 as u64, r.flags() as u32 as u64, hf, st, same, r.owned() as u64, ptr]
                        .iter()
                        .map(|x| n(*x)),
                );
                // shared file-backed mapping: byte i of the region is byte start+i of the file
                if cohere
                    && r.owned()
                    && hf == 1
                    && (r.flags() & libc::MAP_ANONYMOUS) == 0
                    && (r.prot() & 3) == 3
                    && r.size() > 0
                    && r.size() <= (1 << 20)
                {
                    let sz = r.size();
                    let fd = fd.unwrap();
                    let mut rng = Rng::new(size as u64 ^ start);
                    let pat = rng.bytes(sz);
                    let w = unsafe { libc::pwrite(fd, pat.as_ptr() as *const libc::c_void, sz, st as libc::off_t) };
                    assert!(w == sz as isize);
                    // file -> region, read through the raw host pointer and through the library
                    let raw: Vec<u8> = (0..sz).map(|i| unsafe { std::ptr::read_volatile(r.as_ptr().add(i)) }).collect();
                    let mut viaslice = vec![0u8; sz];
                    let lib_ok = match b {
                        Built::Guest(g) => g.read_slice(&mut viaslice, MemoryRegionAddress(0)).is_ok() && viaslice == pat,
                        Built::Plain(_) => true,
                    };
                    coh.0 = (raw == pat && lib_ok) as u64;
                    // region -> file
                    let pat2 = rng.bytes(sz);
                    for i in 0..sz {
                        unsafe { std::ptr::write_volatile(r.as_ptr().add(i), pat2[i]) };
                    }
                    let mut back = vec![0u8; sz];
                    let rd = unsafe { libc::pread(fd, back.as_mut_ptr() as *mut libc::c_void, sz, st as libc::off_t) };
                    coh.1 = (rd == sz as isize && back == pat2) as u64;
                }
            }
        }
        let alive = matches!(built, Some(Ok(_)));
        drop(built);
        let m2 = mapped_bytes();
        let pos = match fd {
            Some(fd) => unsafe { libc::lseek(fd, 0, libc::SEEK_CUR) as u64 },
            None => 0,
        };
        out.push(n(pos));
        out.push(n(if alive { m1.wrapping_sub(m0) } else { 0 }));
        out.push(n(m2.wrapping_sub(m0)));
        out.push(n(coh.0));
        out.push(n(coh.1));
        out.push(n(ohuge));
        if let Some(p) = area {
            // the externally supplied mapping must still be there (owned = false): write to it
            unsafe {
                std::ptr::write_volatile(p, 1);
                libc::munmap(p as *mut libc::c_void, 4 * page as usize);
            }
        }
        if let Some(fd) = fd {
            unsafe { libc::close(fd) };
        }
        out
    }

    pub fn gen(rng: &mut Rng, tier: Tier, emit: &mut dyn FnMut(Vec<Tok>)) {
        let mode = crate::build_mode();
        let page = unsafe { libc::sysconf(libc::_SC_PAGESIZE) } as u64;
        // hint of the builder requests (kind 0) emitted next: 0 / 1 / 2, or 3 = each request under all three
        let hint = std::cell::Cell::new(3u64);
        let mut case = |kind: u64, size: u64, prot: i32, flags: i32, file: Option<(u64, u64)>, raw: Option<u64>, base: Option<u64>, coh: bool| {
            let (hf, fl, st) = match file {
                Some((l, s)) => (1u64, l, s),
                None => (0, 0, 0),
            };
            let hints: &[u64] = if kind != 0 {
                &[0]
            } else {
                match hint.get() {
                    0 => &[0],
                    1 => &[1],
                    2 => &[2],
                    _ => &[0, 2, 1],
                }
            };
            for &h in hints {
                emit(vec![
                    n(mode), n(kind), n(size), n(prot as u32), n(flags as u32), n(hf), n(fl), n(st),
                    n(raw.is_some() as u64), n(raw.unwrap_or(0)), n(base.is_some() as u64), n(base.unwrap_or(0)),
                    n(page), n(coh as u64), n(h),
                ])
            }
        };
        let shared = libc::MAP_SHARED;
        let sh_nr = libc::MAP_SHARED | libc::MAP_NORESERVE;
        let private = libc::MAP_PRIVATE;
        let anon = libc::MAP_ANONYMOUS | libc::MAP_PRIVATE;
        let fixed = libc::MAP_FIXED;
        // ---- 1. file ranges around EOF: every (file length, start, end - EOF in -2..2)
        let lens = [0u64, 1, 5, page - 1, page, page + 1, 2 * page, 3 * page + 5, 16 * page];
        for &fl in &lens {
            for &st in &[0u64, page, 2 * page, 3 * page, 16 * page, 1, page + 7] {
                for d in -2i64..=2 {
                    let end = fl as i64 + d;
                    if end < st as i64 {
                        continue;
                    }
                    let size = (end - st as i64) as u64;
                    for &(kind, fl_) in &[(0u64, shared), (2, 0), (3, sh_nr), (3, private), (5, 0), (0, shared | fixed)] {
                        let base = if kind == 5 { Some(0x1000) } else { None };
                        case(kind, size, super::real::RW, fl_, Some((fl, st)), None, base, fl_ & fixed == 0);
                    }
                }
            }
        }
        // ---- 2. file ranges around the 2^64 overflow boundary
        let big = [u64::MAX, u64::MAX - 1, u64::MAX - page + 1, u64::MAX - page, 1 << 63, (1 << 63) - page, (1 << 63) - 1, 1 << 62];
        for &st in &big {
            for &size in &[0u64, 1, 2, page, page + 1, u64::MAX - st, (u64::MAX - st).wrapping_add(1), (u64::MAX - st).wrapping_sub(1), u64::MAX, 1 << 63] {
                for &fl in &[0u64, page, (1 << 62)] {
                    for &kind in &[0u64, 2, 3] {
                        case(kind, size, super::real::RW, shared, Some((fl, st)), None, None, false);
                    }
                }
            }
        }
        for &size in &[u64::MAX, u64::MAX - page + 1, 1 << 63, (1 << 63) + page, 1 << 62] {
            for &st in &[0u64, 1, page, 2 * page] {
                case(0, size, super::real::RW, shared, Some((4 * page, st)), None, None, false);
                case(2, size, 0, 0, Some((4 * page, st)), None, None, false);
            }
        }
        // ---- 3. anonymous requests: sizes (0 and huge make the kernel refuse), prot, flags, MAP_FIXED
        let sizes = [0u64, 1, page - 1, page, page + 1, 5 * page, 1 << 30, 1 << 40, 1 << 47, 1 << 62, u64::MAX, u64::MAX - page];
        for &size in &sizes {
            case(1, size, 0, 0, None, None, None, false);
            for &fl_ in &[anon, anon | libc::MAP_NORESERVE, libc::MAP_ANONYMOUS | shared, anon | fixed, libc::MAP_ANONYMOUS, 0, fixed, anon | libc::MAP_STACK] {
                for &pr in &[0, libc::PROT_READ, super::real::RW, 7] {
                    case(0, size, pr, fl_, None, None, None, false);
                    case(3, size, pr, fl_, None, None, None, false);
                }
            }
        }
        // every single flag bit together with / without MAP_FIXED (the test must look at bit 4 only)
        for b in 0..32u32 {
            let f = (1u32 << b) as i32;
            if f == libc::MAP_GROWSDOWN || f == libc::MAP_HUGETLB || f == 0x100000 {
                continue; // change what the kernel maps (stack guard gap / huge pages / fixed-noreplace)
            }
            case(0, page, super::real::RW, anon | f, None, None, None, false);
            case(3, page, super::real::RW, (anon | f) & !fixed, None, None, None, false);
        }
        // ---- 4. externally supplied pointers: aligned / misaligned, any flags / file (not examined)
        for &d in &[0u64, 1, 2, 7, 8, 64, 511, 512, page - 1, page, page + 1, 2 * page, 2 * page - 8, 2 * page + 2048] {
            for &size in &[0u64, 1, page, 4 * page, u64::MAX] {
                case(4, size, super::real::RW, anon, None, Some(d), None, false);
                case(0, size, 0, fixed | shared, None, Some(d), None, false);
                case(0, size, super::real::RW, shared, Some((page, 2 * page)), Some(d), None, false);
                case(4, size, super::real::RW, anon, None, Some(d), Some(u64::MAX - size), false);
                case(4, size, super::real::RW, anon, None, Some(d), Some((u64::MAX - size).wrapping_add(1)), false);
            }
        }
        // ---- 5. guest base + size around 2^64
        for &size in &[0u64, 1, page, 3 * page + 1, 1 << 40] {
            for d in -3i64..=3 {
                let base = (0u64.wrapping_sub(size)).wrapping_add(d as u64);
                case(5, size, 0, 0, None, None, Some(base), false);
                case(5, size, 0, 0, Some((1 << 41, 0)), None, Some(base), false);
                case(1, size, 0, 0, None, None, Some(base), false);
                case(0, size, super::real::RW, anon, None, None, Some(base), false);
                case(3, size, super::real::RW, shared, Some((1 << 41, page)), None, Some(base), size <= (1 << 20));
            }
            for &base in &[0u64, 1 << 32, 1 << 63, u64::MAX, u64::MAX - 1] {
                case(5, size, 0, 0, None, None, Some(base), false);
            }
        }
        // ---- 6. random requests
        let nrand = if tier == Tier::Quick { 1500 } else { 60_000 };
        for _ in 0..nrand {
            let kind = rng.below(6);
            let fl = *rng.pick(&lens) + if rng.chance(1, 4) { rng.below(3 * page) } else { 0 };
            let st = match rng.below(5) {
                0 => 0,
                1 | 2 => page * rng.below(5),
                3 => rng.below(2 * page),
                _ => *rng.pick(&big),
            };
            let size = match rng.below(6) {
                0 => rng.below(4 * page),
                1 | 2 => fl.wrapping_sub(st).wrapping_add(rng.below(5)).wrapping_sub(2),
                3 => page * rng.below(6),
                4 => *rng.pick(&sizes),
                _ => (u64::MAX - st).wrapping_add(rng.below(4)).wrapping_sub(1),
            };
            let file = Some((fl, st));
            let raw = Some(if rng.bool() { page * rng.below(3) } else { rng.below(3 * page) });
            let base = if rng.bool() { Some(if rng.bool() { rng.below(1 << 40) } else { 0u64.wrapping_sub(size).wrapping_add(rng.below(5)).wrapping_sub(2) }) } else { None };
            let mut flags = *rng.pick(&[shared, sh_nr, private, anon, anon | libc::MAP_NORESERVE, libc::MAP_ANONYMOUS | shared]);
            if rng.chance(1, 5) {
                flags |= fixed;
            }
            let prot = *rng.pick(&[0, 1, 3, 3, 3]);
            let coh = prot == 3 && rng.chance(3, 4);
            hint.set(rng.below(3));
            match kind {
                0 => {
                    let f = if rng.bool() { file } else { None };
                    let r = if rng.chance(1, 4) { raw } else { None };
                    let flags = if f.is_none() && r.is_none() { flags | libc::MAP_ANONYMOUS } else { flags };
                    case(0, size, prot, flags, f, r, base, coh)
                }
                1 => case(1, size, 0, 0, None, None, base, false),
                2 => case(2, size, 0, 0, file, None, base, true),
                3 => {
                    let f = if rng.bool() { file } else { None };
                    let flags = if f.is_none() { flags | libc::MAP_ANONYMOUS } else { flags };
                    case(3, size, prot, flags, f, None, base, coh)
                }
                4 => case(4, size, prot, flags, None, raw, base, false),
                _ => case(5, size, 0, 0, if rng.bool() { file } else { None }, None, Some(base.unwrap_or(0x10000)), true),
            }
        }
    }

    // ------------------------------------------------------------------------------------------ C15perm
    pub fn exec_perm(case: &[Tok]) -> Vec<Tok> {
        assert!(case.len() == 9);
        let kind = case[1].u();
        let size = case[2].u() as usize;
        let (prot, flags) = (case[3].u() as u32 as i32, case[4].u() as u32 as i32);
        let (hasfile, flen, start) = (case[5].u() != 0, case[6].u(), case[7].u());
        let page = unsafe { libc::sysconf(libc::_SC_PAGESIZE) } as u64;
        assert!(case[8].u() == page);
        assert!(matches!(kind, 0 | 1 | 2 | 3 | 5) && (kind != 1 || !hasfile) && (kind != 2 || hasfile));
        assert!(prot >= 0 && prot < 8);
        let fd = if hasfile { Some(memfd(flen).expect("file length refused")) } else { None };
        let (eprot, eflags) = match kind {
            1 => (RW, F_NEW),
            2 => (RW, F_FILE),
            5 => (RW, if hasfile { F_FILE } else { F_NEW }),
            _ => (prot, flags),
        };
        let probe: u64 = if (eflags & libc::MAP_FIXED) != 0 {
            2
        } else {
            let p = unsafe {
                libc::mmap(std::ptr::null_mut(), size, eprot, eflags, fd.unwrap_or(-1), if hasfile { start as libc::off_t } else { 0 })
            };
            if p == libc::MAP_FAILED {
                0
            } else {
                unsafe { libc::munmap(p, size) };
                1
            }
        };
        let fo = fd.map(|fd| {
            let d = unsafe { libc::dup(fd) };
            assert!(d >= 0);
            FileOffset::new(unsafe { File::from_raw_fd(d) }, start)
        });
        let built: Option<Result<Built, u64>> = util::catch(|| {
            let r: Result<MmapRegion<()>, MmapRegionError> = match kind {
                0 => {
                    let mut b = MmapRegionBuilder::<()>::new(size).with_mmap_prot(prot).with_mmap_flags(flags);
                    if let Some(fo) = fo.clone() {
                        b = b.with_file_offset(fo);
                    }
                    b.build()
                }
                1 => MmapRegion::new(size),
                2 => MmapRegion::from_file(fo.clone().unwrap(), size),
                3 => MmapRegion::build(fo.clone(), size, prot, flags),
                _ => {
                    return GuestRegionMmap::<()>::from_range(GuestAddress(0x1000), size, fo.clone())
                        .map(Built::Guest)
                        .map_err(|e| gcode(&e));
                }
            };
            r.map(Built::Plain).map_err(|e| code(&e))
        });
        drop(fo);
        let out = match &built {
            None => vec![n(probe), n(99u64), n(0u8), n(0u8), n(0u8)],
            Some(Err(c)) => vec![n(probe), n(*c), n(0u8), n(0u8), n(0u8)],
            Some(Ok(b)) => {
                let r = b.r();
                vec![n(probe), n(0u8), n(r.prot() as u32), n(r.flags() as u32), n(super::maps_perms(r.as_ptr() as u64))]
            }
        };
        drop(built);
        if let Some(fd) = fd {
            unsafe { libc::close(fd) };
        }
        out
    }

    pub fn gen_perm(rng: &mut Rng, tier: Tier, emit: &mut dyn FnMut(Vec<Tok>)) {
        let mode = crate::build_mode();
        let page = unsafe { libc::sysconf(libc::_SC_PAGESIZE) } as u64;
        let mut case = |kind: u64, size: u64, prot: i32, flags: i32, file: Option<(u64, u64)>| {
            let (hf, fl, st) = match file {
                Some((l, s)) => (1u64, l, s),
                None => (0, 0, 0),
            };
            emit(vec![n(mode), n(kind), n(size), n(prot as u32), n(flags as u32), n(hf), n(fl), n(st), n(page)])
        };
        let anon = libc::MAP_ANONYMOUS | libc::MAP_PRIVATE;
        let anon_sh = libc::MAP_ANONYMOUS | libc::MAP_SHARED;
        let flag_sets = [anon, anon | libc::MAP_NORESERVE, anon_sh, anon_sh | libc::MAP_NORESERVE, anon | libc::MAP_FIXED];
        let file_sets = [libc::MAP_SHARED, libc::MAP_SHARED | libc::MAP_NORESERVE, libc::MAP_PRIVATE, libc::MAP_PRIVATE | libc::MAP_NORESERVE];
        // every protection 0..7 x every kind of mapping x the constructors that take a protection
        for prot in 0..8 {
            for &size in &[1u64, page, 3 * page + 5] {
                for &fl in &flag_sets {
                    case(0, size, prot, fl, None);
                    case(3, size, prot, fl, None);
                }
                for &fl in &file_sets {
                    for &st in &[0u64, page] {
                        case(0, size, prot, fl, Some((8 * page, st)));
                        case(3, size, prot, fl, Some((8 * page, st)));
                    }
                }
                case(0, size, prot, libc::MAP_SHARED, Some((page, page))); // past EOF
            }
        }
        // the constructors with documented defaults
        for &size in &[0u64, 1, page - 1, page, page + 1, 16 * page] {
            case(1, size, 0, 0, None);
            case(5, size, 0, 0, None);
            for &st in &[0u64, page, 2 * page] {
                case(2, size, 0, 0, Some((32 * page, st)));
                case(5, size, 0, 0, Some((32 * page, st)));
                case(2, size, 0, 0, Some((st + size, st)));
                case(2, size + 1, 0, 0, Some((st + size, st)));
            }
        }
        let nrand = if tier == Tier::Quick { 1000 } else { 30_000 };
        for _ in 0..nrand {
            let kind = *rng.pick(&[0u64, 0, 3, 3, 1, 2, 5]);
            let size = match rng.below(3) {
                0 => 1 + rng.below(4 * page),
                1 => page * (1 + rng.below(6)),
                _ => rng.below(3),
            };
            let prot = rng.below(8) as i32;
            let st = page * rng.below(3);
            let short = if rng.chance(1, 10) { 1 } else { 0 }; // now and then one byte short of the range
            let file = Some(((st + size + rng.below(3) * page).saturating_sub(short), st));
            match kind {
                0 | 3 => {
                    if rng.bool() {
                        case(kind, size, prot, *rng.pick(&file_sets), file)
                    } else {
                        case(kind, size, prot, *rng.pick(&flag_sets), None)
                    }
                }
                1 => case(1, size, 0, 0, None),
                2 => case(2, size, 0, 0, file),
                _ => case(5, size, 0, 0, if rng.bool() { file } else { None }),
            }
        }
    }
}
