//! C10: histories of region creation / from_arc_regions / from_ranges / insert_region /
//! remove_region / find_region on the real GuestMemoryMmap, with EVERY object ever created kept
//! alive and re-checked after every later step.
//!
//! case:  mode  op*      op = [0,base,size] new region handle        (1 region slot)
//!                            [1,id,...]     from_arc_regions(handles) (1 map slot)
//!                            [2,s,l,s,l..]  from_ranges               (k region slots, 1 map slot)
//!                            [3,m,r]        maps[m].insert_region(regions[r])   (1 map slot)
//!                            [4,m,base,sz]  maps[m].remove_region(base,sz)      (1 map slot)
//!                            [5,m,a]        maps[m].find_region(a)
//!                            [6]            GuestMemoryMmap::new()              (1 map slot)
//!                            [7,f,base,size] GuestRegionMmap::from_range(base, size, file f)  (1 region slot)
//!                            [9,s,l,f,...]  from_ranges_with_files([(s,l,file f)])  (k region slots, 1 map slot)
//!                            [10,m]         drop(maps[m])  (the slot is dead afterwards; code 8 if it was already)
//!                            [11,k]         drop the k-th handle returned by a successful remove_region (no-op if absent)
//!        Objects are kept alive until such an operation destroys them; after EVERY step (also after a drop) all
//!        SURVIVING maps / handles are re-read: layout and tagged byte contents, through the map, the handle and the raw
//!        host pointer.
//!        file f: 0 none, 1 a memfd of `size` bytes mapped from offset 0, 2 a memfd of 65536+size bytes mapped
//!        from offset 65536 (sizes above 16 MiB: no file).  Opcode 0 is the spelled-out route (MmapRegion::new resp.
//!        MmapRegion::from_range(MmapRange::new_unix) followed by GuestRegionMmap::new); 2 is from_ranges.
//!        This file is compiled in the standard AND in the Xen build (C10 runs `debug` and `xen-debug`).
//! obs:   one list per op: [code, intact, (id,start,len)*]
//!        code 0 Ok, 1 InvalidGuestRegion, 2 MmapRegion(_), 3 NoMemoryRegion, 4 MemoryRegionOverlap,
//!        5 UnsortedMemoryRegions, 8 operand slot dead/absent, 9 panic.
//!        triples: regions of the new map in iter() order (remove: removed handle first; find: the hit).
//!        id = slot of the handle, recognised by POINTER identity (ffff = not a known handle).
//!        intact = 1 iff every earlier map still lists the same handles with the same (start,len),
//!        every handle (pool, removed) still has its (start,len) and host address, and the bytes
//!        read through every old map / the raw host pointer equal the harness' own shadow copy
//!        (fresh tags are written through each NEW map, so old maps must alias the same memory).
use crate::tok::n;
use crate::{util, Rng, Suite, Tier, Tok};
use std::sync::Arc;
use vm_memory::{
    Bytes, Error, GuestAddress, GuestMemory, GuestMemoryMmap, GuestMemoryRegion, GuestRegionMmap,
    MemoryRegionAddress,
};

pub const SUITES: &[Suite] = &[Suite { name: "C10", gen, exec }];

type R = GuestRegionMmap<()>;
type M = GuestMemoryMmap<()>;

struct Slot {
    arc: Arc<R>,
    ptr: *const R,
    host: *mut u8,
    start: u64,
    len: u64,
    shadow: Vec<u8>,
}
struct MapSlot {
    map: M,
    snap: Vec<(*const R, u64, u64)>,
}
struct World {
    pool: Vec<Option<Slot>>,
    maps: Vec<Option<MapSlot>>,
    removed: Vec<Option<(Arc<R>, usize)>>,
    step: u64,
}

fn code(e: &Error) -> u64 {
    match e {
        Error::InvalidGuestRegion => 1,
        Error::MmapRegion(_) => 2,
        Error::NoMemoryRegion => 3,
        Error::MemoryRegionOverlap => 4,
        Error::UnsortedMemoryRegions => 5,
    }
}

#[cfg(not(feature = "xen"))]
fn new_region(base: u64, size: u64) -> Result<R, Error> {
    // the two steps of GuestRegionMmap::from_range, spelled out
    let mapping = vm_memory::MmapRegion::<()>::new(size as usize).map_err(Error::MmapRegion)?;
    GuestRegionMmap::new(mapping, GuestAddress(base))
}
#[cfg(feature = "xen")]
fn new_region(base: u64, size: u64) -> Result<R, Error> {
    // the two steps of the Xen build's GuestRegionMmap::from_range, spelled out
    let range = vm_memory::MmapRange::new_unix(size as usize, None, GuestAddress(base));
    let mapping = vm_memory::MmapRegion::<()>::from_range(range).map_err(Error::MmapRegion)?;
    GuestRegionMmap::new(mapping, GuestAddress(base))
}

/// the backing file of a constructor route with file tag f (see the header), None = no file
fn file_of_tag(f: u64, size: u64) -> Option<vm_memory::FileOffset> {
    use std::os::unix::io::FromRawFd;
    assert!(f < 3);
    if f == 0 || size > (1 << 24) {
        return None;
    }
    let start = if f == 2 { 65536u64 } else { 0 };
    // SAFETY: plain syscalls; the descriptor is owned by the File
    unsafe {
        let fd = libc::memfd_create(b"vmh-c10\0".as_ptr() as *const libc::c_char, 0);
        assert!(fd >= 0, "memfd_create");
        assert!(libc::ftruncate(fd, (start + size) as libc::off_t) == 0, "ftruncate");
        Some(vm_memory::FileOffset::new(std::fs::File::from_raw_fd(fd), start))
    }
}
/// the public one-call route, the same function name in both build flavours
fn new_region_via(f: u64, base: u64, size: u64) -> Result<R, Error> {
    GuestRegionMmap::from_range(GuestAddress(base), size as usize, file_of_tag(f, size))
}

impl World {
    fn slot_of(&self, p: *const R) -> u64 {
        for (i, s) in self.pool.iter().enumerate() {
            if let Some(s) = s {
                if s.ptr == p {
                    return i as u64;
                }
            }
        }
        0xffff
    }
    fn register(&mut self, arc: Arc<R>, start: u64, len: u64) {
        let id = self.pool.len() as u64;
        let host = arc.get_host_address(MemoryRegionAddress(0)).unwrap_or(std::ptr::null_mut());
        let n = arc.len().min(64) as usize;
        let shadow: Vec<u8> = (0..n).map(|o| (id * 31 + o as u64 * 7 + 1) as u8).collect();
        if !host.is_null() {
            // SAFETY: host points at the start of a live private mapping of at least n bytes
            unsafe { std::ptr::copy_nonoverlapping(shadow.as_ptr(), host, n) };
        }
        let ptr = Arc::as_ptr(&arc);
        self.pool.push(Some(Slot { arc, ptr, host, start, len, shadow }));
    }
    fn triples(&self, m: &M) -> Vec<u128> {
        let mut v = Vec::new();
        for r in m.iter() {
            v.push(self.slot_of(r as *const R) as u128);
            v.push(r.start_addr().0 as u128);
            v.push(r.len() as u128);
        }
        v
    }
    /// a new map was produced: remember what it lists, then write fresh tags through it
    fn adopt(&mut self, m: M) -> bool {
        let snap: Vec<(*const R, u64, u64)> =
            m.iter().map(|r| (r as *const R, r.start_addr().0, r.len())).collect();
        let mut good = true;
        for (p, s, l) in &snap {
            let id = self.slot_of(*p);
            if id == 0xffff {
                continue;
            }
            let nb = (*l).min(64) as usize;
            let pat: Vec<u8> = (0..nb).map(|o| ((self.step + 1) * 37 + id * 11 + o as u64 * 3) as u8).collect();
            if m.write_slice(&pat, GuestAddress(*s)).is_err() {
                good = false;
            } else if let Some(slot) = self.pool[id as usize].as_mut() {
                slot.shadow = pat;
            }
        }
        self.maps.push(Some(MapSlot { map: m, snap }));
        good
    }
    fn raw(host: *mut u8, n: usize) -> Vec<u8> {
        let mut b = vec![0u8; n];
        if !host.is_null() {
            // SAFETY: host is the start of a live mapping of at least n bytes (the handle is alive)
            unsafe { std::ptr::copy_nonoverlapping(host as *const u8, b.as_mut_ptr(), n) };
        }
        b
    }
    fn intact(&self) -> bool {
        for s in self.pool.iter().flatten() {
            if s.arc.start_addr().0 != s.start || s.arc.len() != s.len || Arc::as_ptr(&s.arc) != s.ptr {
                return false;
            }
            if s.arc.get_host_address(MemoryRegionAddress(0)).ok() != Some(s.host) {
                return false;
            }
            if Self::raw(s.host, s.shadow.len()) != s.shadow {
                return false;
            }
            // through the handle itself
            let mut b = vec![0u8; s.shadow.len()];
            if s.arc.read_slice(&mut b, MemoryRegionAddress(0)).is_err() || b != s.shadow {
                return false;
            }
        }
        for (a, id) in self.removed.iter().flatten() {
            match self.pool.get(*id).and_then(|x| x.as_ref()) {
                Some(s) => {
                    if Arc::as_ptr(a) != s.ptr || a.start_addr().0 != s.start || a.len() != s.len {
                        return false;
                    }
                }
                None => return false,
            }
        }
        for ms in self.maps.iter().flatten() {
            let cur: Vec<(*const R, u64, u64)> =
                ms.map.iter().map(|r| (r as *const R, r.start_addr().0, r.len())).collect();
            if cur != ms.snap || ms.map.num_regions() != ms.snap.len() {
                return false;
            }
            for (p, s, _l) in &cur {
                let id = self.slot_of(*p);
                if id == 0xffff {
                    return false;
                }
                let slot = self.pool[id as usize].as_ref().unwrap();
                let mut b = vec![0u8; slot.shadow.len()];
                if ms.map.read_slice(&mut b, GuestAddress(*s)).is_err() || b != slot.shadow {
                    return false;
                }
            }
        }
        true
    }
    fn map_result(&mut self, r: Option<Result<M, Error>>) -> (u64, Vec<u128>, bool) {
        match r {
            None => {
                self.maps.push(None);
                (9, vec![], true)
            }
            Some(Err(e)) => {
                self.maps.push(None);
                (code(&e), vec![], true)
            }
            Some(Ok(m)) => {
                let t = self.triples(&m);
                let good = self.adopt(m);
                (0, t, good)
            }
        }
    }
}

fn exec(case: &[Tok]) -> Vec<Tok> {
    let mut w = World { pool: Vec::new(), maps: Vec::new(), removed: Vec::new(), step: 0 };
    let mut out = Vec::new();
    for (i, op) in case[1..].iter().enumerate() {
        w.step = i as u64;
        let a: Vec<u64> = op.l().iter().map(|x| *x as u64).collect();
        let (c, regs, good): (u64, Vec<u128>, bool) = match a[0] {
            0 | 7 => {
                let (f, base, size) = if a[0] == 0 {
                    assert!(a.len() == 3);
                    (None, a[1], a[2])
                } else {
                    assert!(a.len() == 4 && a[1] < 3);
                    (Some(a[1]), a[2], a[3])
                };
                let made = util::catch(|| match f {
                    None => new_region(base, size),
                    Some(f) => new_region_via(f, base, size),
                });
                match made {
                    Some(Ok(r)) => {
                        w.register(Arc::new(r), base, size);
                        (0, vec![], true)
                    }
                    Some(Err(e)) => {
                        w.pool.push(None);
                        (code(&e), vec![], true)
                    }
                    None => {
                        w.pool.push(None);
                        (9, vec![], true)
                    }
                }
            }
            1 => {
                let hs: Option<Vec<Arc<R>>> = a[1..]
                    .iter()
                    .map(|id| w.pool.get(*id as usize).and_then(|s| s.as_ref()).map(|s| s.arc.clone()))
                    .collect();
                match hs {
                    None => {
                        w.maps.push(None);
                        (8, vec![], true)
                    }
                    Some(hs) => {
                        let r = util::catch(|| M::from_arc_regions(hs));
                        w.map_result(r)
                    }
                }
            }
            2 | 9 => {
                let with_files = a[0] == 9;
                let step = if with_files { 3 } else { 2 };
                assert!((a.len() - 1) % step == 0);
                let ranges: Vec<(GuestAddress, usize)> =
                    a[1..].chunks(step).map(|c| (GuestAddress(c[0]), c[1] as usize)).collect();
                let k = ranges.len();
                let built = if with_files {
                    let rf: Vec<(GuestAddress, usize, Option<vm_memory::FileOffset>)> = a[1..]
                        .chunks(3)
                        .map(|c| (GuestAddress(c[0]), c[1] as usize, file_of_tag(c[2], c[1])))
                        .collect();
                    util::catch(|| M::from_ranges_with_files(rf))
                } else {
                    util::catch(|| M::from_ranges(&ranges))
                };
                match built {
                    Some(Ok(m)) => {
                        // the map owns the only Arcs: take an extra strong reference to each region
                        // (the regions live in Arcs created by from_regions) to get handles
                        let ptrs: Vec<*const R> = m.iter().map(|r| r as *const R).collect();
                        if ptrs.len() == k {
                            for (j, p) in ptrs.iter().enumerate() {
                                // SAFETY: p is the data pointer of an Arc<R> held by m.regions
                                let arc = unsafe {
                                    Arc::increment_strong_count(*p);
                                    Arc::from_raw(*p)
                                };
                                w.register(arc, ranges[j].0 .0, ranges[j].1 as u64);
                            }
                        } else {
                            for _ in 0..k {
                                w.pool.push(None);
                            }
                        }
                        let t = w.triples(&m);
                        let good = w.adopt(m);
                        (0, t, good)
                    }
                    other => {
                        for _ in 0..k {
                            w.pool.push(None);
                        }
                        w.map_result(other)
                    }
                }
            }
            3 => {
                assert!(a.len() == 3);
                let m = w.maps.get(a[1] as usize).and_then(|x| x.as_ref()).map(|x| &x.map);
                let r = w.pool.get(a[2] as usize).and_then(|x| x.as_ref()).map(|x| x.arc.clone());
                match (m, r) {
                    (Some(m), Some(r)) => {
                        let res = util::catch(|| m.insert_region(r));
                        w.map_result(res)
                    }
                    _ => {
                        w.maps.push(None);
                        (8, vec![], true)
                    }
                }
            }
            4 => {
                assert!(a.len() == 4);
                let m = w.maps.get(a[1] as usize).and_then(|x| x.as_ref()).map(|x| &x.map);
                match m {
                    Some(m) => match util::catch(|| m.remove_region(GuestAddress(a[2]), a[3])) {
                        Some(Ok((nm, arc))) => {
                            let id = w.slot_of(Arc::as_ptr(&arc));
                            let mut t = vec![id as u128, arc.start_addr().0 as u128, arc.len() as u128];
                            t.extend(w.triples(&nm));
                            w.removed.push(Some((arc, id as usize)));
                            let good = w.adopt(nm);
                            (0, t, good)
                        }
                        Some(Err(e)) => {
                            w.maps.push(None);
                            (code(&e), vec![], true)
                        }
                        None => {
                            w.maps.push(None);
                            (9, vec![], true)
                        }
                    },
                    None => {
                        w.maps.push(None);
                        (8, vec![], true)
                    }
                }
            }
            5 => {
                assert!(a.len() == 3);
                let m = w.maps.get(a[1] as usize).and_then(|x| x.as_ref()).map(|x| &x.map);
                match m {
                    Some(m) => match util::catch(|| {
                        m.find_region(GuestAddress(a[2])).map(|r| (r as *const R, r.start_addr().0, r.len()))
                    }) {
                        Some(Some((p, s, l))) => (0, vec![w.slot_of(p) as u128, s as u128, l as u128], true),
                        Some(None) => (0, vec![], true),
                        None => (9, vec![], true),
                    },
                    None => (8, vec![], true),
                }
            }
            10 => {
                assert!(a.len() == 2);
                match w.maps.get_mut(a[1] as usize) {
                    Some(slot) if slot.is_some() => {
                        let gone = slot.take();
                        let done = util::catch(move || drop(gone));
                        (if done.is_some() { 0 } else { 9 }, vec![], true)
                    }
                    _ => (8, vec![], true),
                }
            }
            11 => {
                assert!(a.len() == 2);
                if let Some(slot) = w.removed.get_mut(a[1] as usize) {
                    let gone = slot.take();
                    if util::catch(move || drop(gone)).is_none() {
                        out.push(Tok::L(vec![9, 1]));
                        continue;
                    }
                }
                (0, vec![], true)
            }
            6 => {
                assert!(a.len() == 1);
                let t = w.map_result(Some(Ok(M::new())));
                t
            }
            _ => panic!("bad op"),
        };
        let intact = good && util::catch(|| w.intact()).unwrap_or(false);
        let mut l: Vec<u128> = vec![c as u128, intact as u128];
        l.extend(regs);
        out.push(Tok::L(l));
    }
    out
}

// ------------------------------------------------------------------------------------ generator
const TOP: u64 = u64::MAX - 23; // 2^64 - 24: the upper half of the small universe U

#[derive(Clone)]
struct G {
    ops: Vec<Tok>,
    pool: Vec<Option<(u64, u64)>>,       // predicted live handles (steering only)
    maps: Vec<Option<Vec<usize>>>,       // predicted maps as handle lists (steering only)
    ctr: u64,                            // spreads creations over the constructor routes
}
impl G {
    fn new() -> G {
        G { ops: Vec::new(), pool: Vec::new(), maps: Vec::new(), ctr: 0 }
    }
    /// next route selector: a deterministic function of what was emitted so far in this history
    fn pick(&mut self, salt: u64) -> u64 {
        self.ctr = self.ctr.wrapping_mul(6364136223846793005).wrapping_add(salt ^ 0x9E37_79B9_7F4A_7C15);
        (self.ctr >> 33) % 8
    }
    fn op(&mut self, v: Vec<u64>) {
        self.ops.push(Tok::of_u64s(&v));
    }
    fn fits(s: u64, l: u64) -> bool {
        l > 0 && s.checked_add(l).is_some()
    }
    fn new_region(&mut self, s: u64, l: u64) -> usize {
        // a share of the creations goes through the public one-call route, with and without a backing file
        match self.pick(s ^ l.rotate_left(17)) {
            0..=2 => self.op(vec![0, s, l]),
            3 | 4 => self.op(vec![7, 0, s, l]),
            5 | 6 => self.op(vec![7, 1, s, l]),
            _ => self.op(vec![7, 2, s, l]),
        }
        self.pool.push(if Self::fits(s, l) { Some((s, l)) } else { None });
        self.pool.len() - 1
    }
    fn new_region_via(&mut self, f: u64, s: u64, l: u64) -> usize {
        self.op(vec![7, f, s, l]);
        self.pool.push(if Self::fits(s, l) { Some((s, l)) } else { None });
        self.pool.len() - 1
    }
    fn valid(&self, ids: &[usize]) -> bool {
        if ids.is_empty() {
            return false;
        }
        if ids.iter().any(|i| self.pool.get(*i).copied().flatten().is_none()) {
            return false;
        }
        for w in ids.windows(2) {
            match (self.pool[w[0]], self.pool[w[1]]) {
                (Some((s0, l0)), Some((s1, _))) => {
                    if s0 > s1 || s0 + (l0 - 1) >= s1 {
                        return false;
                    }
                }
                _ => return false,
            }
        }
        true
    }
    fn from_arc(&mut self, ids: &[usize]) {
        let mut v = vec![1u64];
        v.extend(ids.iter().map(|x| *x as u64));
        self.op(v);
        let ok = self.valid(ids);
        self.maps.push(if ok { Some(ids.to_vec()) } else { None });
    }
    fn from_ranges(&mut self, rs: &[(u64, u64)]) {
        let sel = self.pick(rs.len() as u64);
        let mut v = vec![if sel < 4 { 2u64 } else { 9 }];
        for (i, (s, l)) in rs.iter().enumerate() {
            v.push(*s);
            v.push(*l);
            if sel >= 4 {
                // from_ranges_with_files: no file / file at 0 / file at 65536, varying along the list
                v.push((sel + i as u64) % 3);
            }
        }
        self.op(v);
        let first = self.pool.len();
        let all_fit = rs.iter().all(|(s, l)| Self::fits(*s, *l));
        for (s, l) in rs {
            self.pool.push(if all_fit { Some((*s, *l)) } else { None });
        }
        let ids: Vec<usize> = (first..first + rs.len()).collect();
        let ok = all_fit && self.valid(&ids);
        if !ok {
            for i in first..first + rs.len() {
                self.pool[i] = None;
            }
        }
        self.maps.push(if ok { Some(ids) } else { None });
    }
    fn insert(&mut self, m: usize, r: usize) {
        self.op(vec![3, m as u64, r as u64]);
        let res = match (self.maps.get(m).cloned().flatten(), self.pool.get(r).copied().flatten()) {
            (Some(mut ids), Some((s, _))) => {
                let pos = ids.iter().position(|i| self.pool[*i].unwrap().0 > s).unwrap_or(ids.len());
                ids.insert(pos, r);
                if self.valid(&ids) {
                    Some(ids)
                } else {
                    None
                }
            }
            _ => None,
        };
        self.maps.push(res);
    }
    fn remove(&mut self, m: usize, b: u64, sz: u64) {
        self.op(vec![4, m as u64, b, sz]);
        let res = match self.maps.get(m).cloned().flatten() {
            Some(ids) => match ids.iter().position(|i| self.pool[*i] == Some((b, sz))) {
                Some(p) => {
                    let mut v = ids.clone();
                    v.remove(p);
                    Some(v)
                }
                None => None,
            },
            None => None,
        };
        self.maps.push(res);
    }
    fn find(&mut self, m: usize, a: u64) {
        self.op(vec![5, m as u64, a]);
    }
    fn new_map(&mut self) {
        self.op(vec![6]);
        self.maps.push(Some(vec![]));
    }
    fn drop_map(&mut self, m: usize) {
        self.op(vec![10, m as u64]);
        if let Some(x) = self.maps.get_mut(m) {
            *x = None;
        }
    }
    fn drop_removed(&mut self, k: u64) {
        self.op(vec![11, k]);
    }
    fn live_maps(&self) -> Vec<usize> {
        (0..self.maps.len()).filter(|i| self.maps[*i].is_some()).collect()
    }
    fn emit(&self, emit: &mut dyn FnMut(Vec<Tok>)) {
        let mut c = vec![n(crate::build_mode())];
        c.extend(self.ops.iter().cloned());
        emit(c);
    }
}

fn u_addr(rng: &mut Rng, top: bool) -> u64 {
    if top {
        TOP + rng.below(24)
    } else {
        rng.below(24)
    }
}

/// interesting (start,len) relative to an existing layout: gap, adjacent, overlap-by-one,
/// duplicate start, contained, covering, random, top of the address space
fn candidate(rng: &mut Rng, g: &G, m: usize, top: bool) -> (u64, u64) {
    let regs: Vec<(u64, u64)> = g.maps[m].clone().unwrap_or_default().iter().filter_map(|i| g.pool[*i]).collect();
    let span = if rng.chance(1, 8) { 9 } else { 4 };
    let len = 1 + rng.below(span);
    if regs.is_empty() || rng.chance(1, 6) {
        return (u_addr(rng, top), len);
    }
    let (s, l) = *rng.pick(&regs);
    let e = s.wrapping_add(l); // first address after the region (may wrap to 0 only if refused)
    match rng.below(10) {
        0 => (e, len),                                  // adjacent above
        1 => (s.wrapping_sub(len), len),                // adjacent below
        2 => (e.wrapping_sub(1), len),                  // overlaps the last byte
        3 => (s.wrapping_sub(len).wrapping_add(1), len), // overlaps the first byte
        4 => (s, len),                                  // duplicate start
        5 => (s, l),                                    // identical interval
        6 => (s.wrapping_add(rng.below(l)), 1),         // contained
        7 => (s.wrapping_sub(1), l + 2),                // covering
        8 => (e.wrapping_add(1 + rng.below(3)), len),   // small gap above
        _ => (s.wrapping_sub(len + 1 + rng.below(3)), len),
    }
}

fn history(rng: &mut Rng, maxops: usize) -> G {
    let mut g = G::new();
    let top = rng.chance(2, 5);
    let both = rng.chance(1, 4);
    // starting layout
    match rng.below(4) {
        0 => g.new_map(),
        1 => {
            let mut rs = Vec::new();
            let mut a = if top { TOP } else { 0 } + rng.below(3);
            for _ in 0..1 + rng.below(4) {
                let l = 1 + rng.below(4);
                rs.push((a, l));
                a = a.wrapping_add(l + rng.below(3));
            }
            if rng.chance(1, 8) && rs.len() > 1 {
                rs.swap(0, 1);
            }
            g.from_ranges(&rs);
        }
        _ => {
            let mut ids = Vec::new();
            let mut a = if top { TOP } else { 0 } + rng.below(3);
            for _ in 0..1 + rng.below(4) {
                let l = 1 + rng.below(4);
                ids.push(g.new_region(a, l));
                a = a.wrapping_add(l + rng.below(3));
            }
            g.from_arc(&ids);
        }
    }
    if g.live_maps().is_empty() {
        g.new_map();
    }
    while g.ops.len() < maxops {
        let live = g.live_maps();
        let cur = if rng.chance(1, 6) { *rng.pick(&live) } else { *live.last().unwrap() };
        let t = if both { rng.bool() } else { top };
        match rng.below(24) {
            20 | 21 => {
                // destroy a map: the newest one (what was just derived), an older one (what it was derived from), or a
                // dead / absent slot; at least one live map stays
                if live.len() > 1 {
                    let m = match rng.below(5) {
                        0 | 1 => *live.last().unwrap(),
                        2 => live[0],
                        3 => *rng.pick(&live),
                        _ => rng.below(g.maps.len() as u64 + 2) as usize,
                    };
                    if !(live.len() == 2 && g.maps.get(m).map_or(false, |x| x.is_some()) && rng.chance(1, 2)) {
                        g.drop_map(m);
                    }
                } else {
                    g.drop_map(g.maps.len() + 1);
                }
            }
            22 => {
                let k = rng.below(4);
                g.drop_removed(k);
            }
            23 => {
                // derive and destroy at once: insert / remove, then drop the NEW map, then look through the old one
                let ids = g.maps[cur].clone().unwrap();
                if ids.is_empty() || rng.bool() {
                    let (s, l) = candidate(rng, &g, cur, t);
                    let r = g.new_region(s, l);
                    g.insert(cur, r);
                } else {
                    let (s, l) = g.pool[*rng.pick(&ids)].unwrap();
                    g.remove(cur, s, l);
                }
                let newest = g.maps.len() - 1;
                g.drop_map(newest);
                g.find(cur, u_addr(rng, t));
            }
            0..=7 => {
                let (s, l) = candidate(rng, &g, cur, t);
                let r = g.new_region(s, l);
                g.insert(cur, r);
            }
            8..=11 => {
                let ids = g.maps[cur].clone().unwrap();
                if ids.is_empty() {
                    g.remove(cur, u_addr(rng, t), 1 + rng.below(3));
                } else {
                    let (s, l) = g.pool[*rng.pick(&ids)].unwrap();
                    match rng.below(8) {
                        0..=2 => g.remove(cur, s, l),
                        3 => g.remove(cur, s, l + 1),
                        4 => g.remove(cur, s, l - 1),
                        5 => g.remove(cur, s.wrapping_add(1), l),
                        6 => g.remove(cur, s.wrapping_add(l - 1), 1),
                        _ => g.remove(cur, u_addr(rng, t), l),
                    }
                }
            }
            12..=15 => {
                let ids = g.maps[cur].clone().unwrap();
                if ids.is_empty() || rng.chance(1, 4) {
                    g.find(cur, u_addr(rng, t));
                } else {
                    let (s, l) = g.pool[*rng.pick(&ids)].unwrap();
                    let a = match rng.below(5) {
                        0 => s,
                        1 => s.wrapping_add(l - 1),
                        2 => s.wrapping_add(l),
                        3 => s.wrapping_sub(1),
                        _ => s.wrapping_add(rng.below(l)),
                    };
                    g.find(cur, a);
                }
            }
            16 => {
                // re-insert an existing handle (already present, or removed earlier)
                let livep: Vec<usize> = (0..g.pool.len()).filter(|i| g.pool[*i].is_some()).collect();
                if !livep.is_empty() {
                    let r = *rng.pick(&livep);
                    g.insert(cur, r);
                }
            }
            17 => {
                // from_arc_regions over a random selection of handles (order as drawn, then maybe sorted)
                let livep: Vec<usize> = (0..g.pool.len()).filter(|i| g.pool[*i].is_some()).collect();
                let k = rng.below(5) as usize;
                let mut ids: Vec<usize> = (0..k.min(livep.len())).map(|_| *rng.pick(&livep)).collect();
                if rng.chance(2, 3) {
                    ids.sort_by_key(|i| g.pool[*i].unwrap().0);
                    ids.dedup();
                }
                if rng.chance(1, 10) {
                    ids.push(g.pool.len() + 3); // absent operand
                }
                g.from_arc(&ids);
            }
            18 => {
                let mut rs = Vec::new();
                for _ in 0..rng.below(4) {
                    rs.push((u_addr(rng, t), rng.below(5)));
                }
                if rng.chance(1, 2) {
                    rs.sort();
                }
                g.from_ranges(&rs);
            }
            _ => {
                // the very top of the address space: end exactly 2^64-1 (accepted), 2^64 and beyond (refused)
                let l = 1 + rng.below(4);
                let s = match rng.below(4) {
                    0 => u64::MAX - l,       // last byte 2^64-2: the highest acceptable region
                    1 => u64::MAX - l + 1,   // would end at 2^64: refused
                    2 => { let d = rng.below(l); u64::MAX - d } // end beyond 2^64: refused
                    _ => { let d = rng.below(3); u64::MAX - l - d }
                };
                let r = g.new_region(s, l);
                g.insert(cur, r);
                g.find(cur, u64::MAX);
                if let Some(last) = g.live_maps().last() {
                    g.find(*last, u64::MAX - 1);
                }
            }
        }
    }
    g
}

fn gen(rng: &mut Rng, tier: Tier, emit: &mut dyn FnMut(Vec<Tok>)) {
    // (a) exhaustive: from_ranges / from_arc_regions over every list of <= 3 regions of a tiny universe,
    //     at the bottom and at the top of the address space (classification Unsorted vs Overlap)
    for off in [0u64, u64::MAX - 8] {
        let cells: Vec<(u64, u64)> = (0..5u64).flat_map(|s| (1..=2u64).map(move |l| (off + s, l))).collect();
        let mut g = G::new();
        g.from_ranges(&[]);
        g.from_arc(&[]);
        g.emit(emit);
        for a in &cells {
            for b in &cells {
                let mut g = G::new();
                g.from_ranges(&[*a, *b]);
                let (x, y) = (g.new_region(a.0, a.1), g.new_region(b.0, b.1));
                g.from_arc(&[x, y]);
                let m = g.maps.len() - 1;
                for q in 0..8u64 {
                    g.find(m, off.wrapping_add(q));
                }
                g.emit(emit);
                for c in &cells {
                    let mut g = G::new();
                    g.from_ranges(&[*a, *b, *c]);
                    g.emit(emit);
                }
            }
        }
    }
    // (b) exhaustive: one insertion / one removal / every lookup against a fixed two-region layout,
    //     bottom and top of the address space
    for off in [0u64, TOP] {
        for s in 0..12u64 {
            for l in 0..5u64 {
                let mut g = G::new();
                g.from_ranges(&[(off + 3, 2), (off + 7, 3)]);
                let r = g.new_region(off + s, l);
                g.insert(0, r);
                g.remove(0, off + s, l);
                let last = g.maps.len() - 1;
                g.remove(last - 1, off + s, l);
                for q in 0..12u64 {
                    g.find(last - 1, off + q);
                }
                g.find(0, off + s);
                g.emit(emit);
            }
        }
    }
    // (c) region creation at the top of the address space
    {
        let mut g = G::new();
        for l in 0..4u64 {
            for d in 0..6u64 {
                g.new_region(u64::MAX - d, l);
            }
        }
        g.emit(emit);
        // every constructor route at the border base + size = 2^64 (+-1 and further), byte-sized and page-sized,
        // as a single creation and as the last / the first range of a list
        for f in 0..4u64 {
            for l in [0u64, 1, 2, 3, 4096, 8192, 65536, 4097] {
                let mut g = G::new();
                for d in [-2i64, -1, 0, 1, 2, 5] {
                    let s = 0u64.wrapping_sub(l).wrapping_add(d as u64);
                    if f == 3 {
                        g.op(vec![0, s, l]);
                        g.pool.push(if G::fits(s, l) { Some((s, l)) } else { None });
                    } else {
                        g.new_region_via(f, s, l);
                    }
                }
                g.emit(emit);
                if l == 0 {
                    continue;
                }
                for d in [-1i64, 0, 1, 2] {
                    let s = 0u64.wrapping_sub(l).wrapping_add(d as u64);
                    for lo in [0x1000u64, 0] {
                        let mut g = G::new();
                        let rs = [(lo, l), (s, l)];
                        let fits = rs.iter().all(|(s, l)| G::fits(*s, *l));
                        let mut v = vec![if f == 3 { 2u64 } else { 9 }];
                        for (i, (s, l)) in rs.iter().enumerate() {
                            v.push(*s);
                            v.push(*l);
                            if f != 3 {
                                v.push((f + i as u64) % 3);
                            }
                        }
                        g.op(v);
                        for (s, l) in rs {
                            g.pool.push(if fits { Some((s, l)) } else { None });
                        }
                        let ok = fits && g.valid(&[0, 1]);
                        g.maps.push(if ok { Some(vec![0, 1]) } else { None });
                        if ok {
                            g.find(0, u64::MAX);
                            g.find(0, u64::MAX - 1);
                            g.find(0, s);
                            g.find(0, 0);
                        }
                        g.emit(emit);
                    }
                }
            }
        }
        let mut g = G::new();
        for (s, l) in [(0u64, 4096u64), (4096, 4097), (1 << 32, 65536), (u64::MAX - 4096, 4096), (u64::MAX - 4095, 4096)] {
            g.new_region(s, l);
        }
        g.from_arc(&[0, 1, 2, 3]);
        g.from_arc(&[0, 1, 2, 3, 4]);
        g.insert(0, 4);
        g.remove(0, 4096, 4097);
        g.remove(0, 4096, 4096);
        for a in [0u64, 4095, 4096, 8192, 8193, (1 << 32) - 1, 1 << 32, (1 << 32) + 65535, (1 << 32) + 65536, u64::MAX - 4096, u64::MAX - 1, u64::MAX] {
            g.find(0, a);
        }
        g.emit(emit);
    }
    // (c2) objects going away: derive a map by insertion / removal, destroy the derived map (resp. the one it was derived
    //      from, resp. the removed handle), then use the survivor; every constructor route, byte- and page-sized regions
    for f in 0..4u64 {
        for (b0, l) in [(0u64, 3u64), (0x10000, 4096), (TOP, 2)] {
            for which in 0..4u64 {
                let mut g = G::new();
                let mk = |g: &mut G, s: u64, l: u64| -> usize {
                    if f == 3 {
                        g.op(vec![0, s, l]);
                        g.pool.push(Some((s, l)));
                        g.pool.len() - 1
                    } else {
                        g.new_region_via(f, s, l)
                    }
                };
                let r0 = mk(&mut g, b0, l);
                let r1 = mk(&mut g, b0 + 2 * l, l);
                g.from_arc(&[r0, r1]); // map 0
                let r2 = mk(&mut g, b0 + l, l);
                g.insert(0, r2); // map 1 = map 0 + r2
                g.remove(1, b0, l); // map 2 = map 1 - r0, removed handle 0
                match which {
                    0 => g.drop_map(2),
                    1 => g.drop_map(1),
                    2 => g.drop_map(0),
                    _ => g.drop_removed(0),
                }
                for m in 0..3usize {
                    g.find(m, b0 + l);
                    g.find(m, b0);
                }
                if which == 0 {
                    g.drop_map(1);
                    g.find(0, b0 + 2 * l);
                    g.drop_map(1);
                }
                g.emit(emit);
            }
        }
    }
    // (d) random histories of <= 25 operations over U
    let nh = if tier == Tier::Quick { 3000 } else { 200_000 };
    for _ in 0..nh {
        let maxops = 6 + rng.below(20) as usize;
        let mut g = history(rng, maxops);
        g.ops.truncate(25);
        g.emit(emit);
    }
}
