// build: no-xen
//! C14: stream transfers into / out of guest memory under scripted short I/O, EINTR, end of stream and
//! hard errors.
//! case:  mode target [layout] [memory] addr count op [script] [source]
//!   target 0 VolatileSlice [offset in parent, length]; 1 GuestRegionMmap [guest start, length];
//!          2 GuestMemoryMmap [start1, len1, start2, len2, ...]
//!   op 0 read_volatile_from 1 read_exact_volatile_from 2 write_volatile_to 3 write_all_volatile_to
//!   script element 0 Full 1 Zero 2 Eintr 3 HardErr 16+k Short k; after the script ends: Zero
//! obs:   rk a b calls moved [sink] [memory after]
//!   rk 0 Ok(n) 1 Ok(()) 2 UnexpectedEof 3 WriteZero 4 Interrupted 5 other io 6 bounds/backend address
//!      7 InvalidGuestAddress 8 PartialBuffer{a,b} 9 CallbackOutOfRange 10 GuestAddressOverflow 11 panic 12 other
//! Guest memory is initialised and observed through host pointers; the streams count their calls and
//! the bytes they gave out / accepted themselves.
use crate::tok::n;
use crate::{util, Rng, Suite, Tier, Tok};
use std::io::ErrorKind;
use vm_memory::bitmap::BitmapSlice;
use vm_memory::{
    Bytes, GuestAddress, GuestMemory, GuestMemoryError, GuestMemoryMmap, GuestMemoryRegion, GuestRegionMmap,
    MemoryRegionAddress, MmapRegion, ReadVolatile, VolatileMemoryError, VolatileSlice, WriteVolatile,
};

// C14own: the same entry points driven with the crate's OWN endpoints (see the end of this file)
pub const SUITES: &[Suite] = &[Suite { name: "C14", gen, exec }, Suite { name: "C14own", gen: gen_own, exec: exec_own }];

#[derive(Clone, Copy, PartialEq, Eq, Debug)]
enum Beh {
    Full,
    Short(usize),
    Zero,
    Eintr,
    HardErr,
}
fn beh_of(x: u128) -> Beh {
    match x {
        0 => Beh::Full,
        1 => Beh::Zero,
        2 => Beh::Eintr,
        3 => Beh::HardErr,
        k if k >= 16 => Beh::Short((k - 16) as usize),
        _ => panic!("bad behaviour"),
    }
}
fn beh_code(b: Beh) -> u128 {
    match b {
        Beh::Full => 0,
        Beh::Zero => 1,
        Beh::Eintr => 2,
        Beh::HardErr => 3,
        Beh::Short(k) => 16 + k as u128,
    }
}

struct Scripted {
    script: Vec<Beh>,
    idx: usize,
    calls: u64,
    src: Vec<u8>,
    pos: usize,
    sink: Vec<u8>,
}
impl Scripted {
    fn next(&mut self) -> Beh {
        self.calls += 1;
        if self.idx < self.script.len() {
            self.idx += 1;
            self.script[self.idx - 1]
        } else {
            Beh::Zero
        }
    }
    fn amount(b: Beh, len: usize) -> usize {
        match b {
            Beh::Full => len,
            Beh::Short(k) => k.min(len),
            _ => 0,
        }
    }
}
fn io_err(k: ErrorKind) -> VolatileMemoryError {
    VolatileMemoryError::IOError(std::io::Error::new(k, "scripted"))
}
/// "any other stream error ends the transfer and is reported": the scripted hard error rotates through error kinds
/// (all of them are NOT `Interrupted`; in particular `WouldBlock`/EAGAIN must not be retried like EINTR)
fn hard_kind(call: u64) -> ErrorKind {
    [ErrorKind::Other, ErrorKind::WouldBlock, ErrorKind::TimedOut, ErrorKind::BrokenPipe, ErrorKind::ConnectionReset,
     ErrorKind::PermissionDenied, ErrorKind::InvalidInput][(call % 7) as usize]
}
impl ReadVolatile for Scripted {
    fn read_volatile<B: BitmapSlice>(&mut self, buf: &mut VolatileSlice<B>) -> Result<usize, VolatileMemoryError> {
        match self.next() {
            Beh::Eintr => Err(io_err(ErrorKind::Interrupted)),
            Beh::HardErr => Err(io_err(hard_kind(self.calls))),
            b => {
                let k = Self::amount(b, buf.len()).min(self.src.len() - self.pos);
                if k > 0 {
                    buf.subslice(0, k).unwrap().copy_from(&self.src[self.pos..self.pos + k]);
                }
                self.pos += k;
                Ok(k)
            }
        }
    }
}
impl WriteVolatile for Scripted {
    fn write_volatile<B: BitmapSlice>(&mut self, buf: &VolatileSlice<B>) -> Result<usize, VolatileMemoryError> {
        match self.next() {
            Beh::Eintr => Err(io_err(ErrorKind::Interrupted)),
            Beh::HardErr => Err(io_err(hard_kind(self.calls))),
            b => {
                let k = Self::amount(b, buf.len());
                let mut tmp = vec![0u8; k];
                if k > 0 {
                    buf.subslice(0, k).unwrap().copy_to(&mut tmp[..]);
                }
                self.sink.extend_from_slice(&tmp);
                Ok(k)
            }
        }
    }
}

fn kind_code(k: ErrorKind) -> u64 {
    match k {
        ErrorKind::UnexpectedEof => 2,
        ErrorKind::WriteZero => 3,
        ErrorKind::Interrupted => 4,
        _ => 5,
    }
}
fn verr(e: &VolatileMemoryError) -> (u64, u64, u64) {
    match e {
        VolatileMemoryError::IOError(e) => (kind_code(e.kind()), 0, 0),
        VolatileMemoryError::OutOfBounds { .. } | VolatileMemoryError::Overflow { .. } => (6, 0, 0),
        VolatileMemoryError::PartialBuffer { expected, completed } => (8, *expected as u64, *completed as u64),
        _ => (12, 0, 0),
    }
}
fn gerr(e: &GuestMemoryError) -> (u64, u64, u64) {
    match e {
        GuestMemoryError::IOError(e) => (kind_code(e.kind()), 0, 0),
        GuestMemoryError::InvalidBackendAddress => (6, 0, 0),
        GuestMemoryError::InvalidGuestAddress(_) => (7, 0, 0),
        GuestMemoryError::PartialBuffer { expected, completed } => (8, *expected as u64, *completed as u64),
        GuestMemoryError::CallbackOutOfRange => (9, 0, 0),
        GuestMemoryError::GuestAddressOverflow => (10, 0, 0),
        _ => (12, 0, 0),
    }
}

/// the four stream methods on any Bytes<A> implementor
fn run_op<A, E, T: Bytes<A, E = E>>(t: &T, addr: A, s: &mut Scripted, count: usize, op: u64, ec: fn(&E) -> (u64, u64, u64)) -> (u64, u64, u64) {
    match op {
        0 => match t.read_volatile_from(addr, s, count) {
            Ok(k) => (0, k as u64, 0),
            Err(e) => ec(&e),
        },
        1 => match t.read_exact_volatile_from(addr, s, count) {
            Ok(()) => (1, 0, 0),
            Err(e) => ec(&e),
        },
        2 => match t.write_volatile_to(addr, s, count) {
            Ok(k) => (0, k as u64, 0),
            Err(e) => ec(&e),
        },
        3 => match t.write_all_volatile_to(addr, s, count) {
            Ok(()) => (1, 0, 0),
            Err(e) => ec(&e),
        },
        _ => panic!("bad op"),
    }
}

unsafe fn poke(p: *mut u8, bytes: &[u8]) {
    for (i, b) in bytes.iter().enumerate() {
        std::ptr::write_volatile(p.add(i), *b);
    }
}
unsafe fn peek(p: *const u8, len: usize) -> Vec<u8> {
    (0..len).map(|i| std::ptr::read_volatile(p.add(i))).collect()
}

fn exec(case: &[Tok]) -> Vec<Tok> {
    let target = case[1].u();
    let lay: Vec<u64> = case[2].l().iter().map(|x| *x as u64).collect();
    let mem0 = case[3].bytes();
    let addr = case[4].u();
    let count = case[5].u() as usize;
    let op = case[6].u();
    let script: Vec<Beh> = case[7].l().iter().map(|x| beh_of(*x)).collect();
    let src = case[8].bytes();
    let mut s = Scripted { script, idx: 0, calls: 0, src, pos: 0, sink: vec![] };
    let (rc, mem1) = match target {
        0 => {
            let (soff, slen) = (lay[0] as usize, lay[1] as usize);
            let mut parent = mem0.clone();
            assert!(soff + slen <= parent.len());
            let base = parent.as_mut_ptr();
            let rc = {
                let vs = VolatileSlice::from(&mut parent[soff..soff + slen]);
                util::catch(|| run_op(&vs, addr as usize, &mut s, count, op, verr))
            };
            (rc, unsafe { peek(base, mem0.len()) })
        }
        1 => {
            let (start, len) = (lay[0], lay[1] as usize);
            assert!(len == mem0.len() && len > 0);
            let r = GuestRegionMmap::<()>::new(MmapRegion::new(len).unwrap(), GuestAddress(start)).unwrap();
            let p = r.as_ptr();
            unsafe { poke(p, &mem0) };
            let rc = util::catch(|| run_op(&r, MemoryRegionAddress(addr), &mut s, count, op, gerr));
            (rc, unsafe { peek(p, len) })
        }
        2 => {
            let ranges: Vec<(GuestAddress, usize)> = lay.chunks(2).map(|c| (GuestAddress(c[0]), c[1] as usize)).collect();
            assert!(ranges.iter().map(|r| r.1).sum::<usize>() == mem0.len());
            let gm = GuestMemoryMmap::<()>::from_ranges(&ranges).unwrap();
            // host pointers of the regions, in the order of the layout given by the case
            let ptrs: Vec<(*mut u8, usize)> = ranges
                .iter()
                .map(|(a, l)| {
                    let r = gm.find_region(*a).unwrap();
                    assert!(r.start_addr() == *a && r.len() as usize == *l);
                    (r.as_ptr(), *l)
                })
                .collect();
            let mut off = 0;
            for (p, l) in &ptrs {
                unsafe { poke(*p, &mem0[off..off + l]) };
                off += l;
            }
            let rc = util::catch(|| run_op(&gm, GuestAddress(addr), &mut s, count, op, gerr));
            let mut m = Vec::new();
            for (p, l) in &ptrs {
                m.extend(unsafe { peek(*p, *l) });
            }
            (rc, m)
        }
        _ => panic!("bad target"),
    };
    let rc = rc.unwrap_or((11, 0, 0));
    let moved = if op <= 1 { s.pos } else { s.sink.len() };
    vec![n(rc.0), n(rc.1), n(rc.2), n(s.calls), n(moved as u64), Tok::of_bytes(&s.sink), Tok::of_bytes(&mem1)]
}

// ------------------------------------------------------------------------------------------- generator
const ALPHABET: [&[Beh]; 7] = [
    &[Beh::Full],
    &[Beh::Short(1)],
    &[Beh::Short(3)],
    &[Beh::Zero],
    &[Beh::Eintr],
    &[Beh::Eintr, Beh::Eintr],
    &[Beh::HardErr],
];

/// (target, layout, memory length, [(addr, count)]) - the fixed configurations every script is run on
fn configs() -> Vec<(u64, Vec<u64>, usize, Vec<(u64, u64)>)> {
    vec![
        // a slice in the middle of its parent: inside, up to the end, beyond the end
        (0, vec![4, 12], 24, vec![(0, 12), (3, 7), (5, 9)]),
        // a region
        (1, vec![0x1000, 12], 12, vec![(0, 12), (2, 10), (4, 11)]),
        // guest memory: two adjacent regions then a hole; two regions with a gap
        (2, vec![0x1000, 6, 0x1006, 5], 11, vec![(0x1002, 7), (0x1001, 10), (0x1003, 12)]),
        (2, vec![0x1000, 6, 0x1008, 5], 11, vec![(0x1002, 9)]),
    ]
}

fn gen(rng: &mut Rng, tier: Tier, emit: &mut dyn FnMut(Vec<Tok>)) {
    let mode = crate::build_mode();
    let quick = tier == Tier::Quick;
    let mut case = |rng: &mut Rng, target: u64, lay: &[u64], mlen: usize, addr: u64, count: u64, op: u64, script: &[Beh], srclen: usize| {
        let mem = rng.bytes(mlen);
        let src: Vec<u8> = if op <= 1 { rng.bytes(srclen) } else { vec![] };
        emit(vec![
            n(mode),
            n(target),
            Tok::of_u64s(lay),
            Tok::of_bytes(&mem),
            n(addr),
            n(count),
            n(op),
            Tok::L(script.iter().map(|b| beh_code(*b)).collect()),
            Tok::of_bytes(&src),
        ])
    };
    // 1. every script over the alphabet up to a length, on the fixed configurations
    let maxlen = if quick { 3 } else { 5 };
    let cfgs = configs();
    let mut scripts: Vec<Vec<Beh>> = vec![vec![]];
    let mut frontier: Vec<Vec<Beh>> = vec![vec![]];
    for _ in 0..maxlen {
        let mut next = Vec::new();
        for s in &frontier {
            for a in ALPHABET.iter() {
                let mut t = s.clone();
                t.extend_from_slice(a);
                next.push(t);
            }
        }
        scripts.extend(next.iter().cloned());
        frontier = next;
    }
    for (si, script) in scripts.iter().enumerate() {
        for (target, lay, mlen, acs) in &cfgs {
            for (ai, (addr, count)) in acs.iter().enumerate() {
                // the quick tier runs each script on one (addr, count) per configuration, rotating
                if quick && (si + ai) % acs.len() != 0 {
                    continue;
                }
                for op in 0..4u64 {
                    case(rng, *target, lay, *mlen, *addr, *count, op, script, 24);
                }
            }
        }
    }
    // 2. random scripts (up to 5 symbols, sometimes longer) x random layouts, addresses, counts
    let nrand = if quick { 8_000 } else { 300_000 };
    for _ in 0..nrand {
        let nsym = if rng.chance(1, 10) { rng.range(6, 9) } else { rng.range(0, 5) };
        let mut script = Vec::new();
        for _ in 0..nsym {
            match rng.below(10) {
                0 => script.push(Beh::Short(rng.below(6) as usize)),
                1 => script.push(Beh::Short(rng.range(1, 12) as usize)),
                _ => script.extend_from_slice(*rng.pick(&ALPHABET)),
            }
        }
        let op = rng.below(4);
        let big = [u64::MAX, u64::MAX - 1, 1 << 63, 1 << 32];
        let srclen = if rng.chance(1, 5) { rng.below(8) as usize } else { 24 };
        match rng.below(3) {
            0 => {
                let plen = rng.range(0, 24);
                let soff = rng.below(plen + 1);
                let slen = rng.below(plen - soff + 1);
                let addr = if rng.chance(1, 12) { *rng.pick(&big) } else { rng.below(slen + 3) };
                let count = if rng.chance(1, 12) { *rng.pick(&big) } else { rng.below(slen + 4) };
                case(rng, 0, &[soff, slen], plen as usize, addr, count, op, &script, srclen);
            }
            1 => {
                let len = rng.range(1, 20);
                let start = *rng.pick(&[0u64, 0x1000, u64::MAX - 64]);
                let addr = if rng.chance(1, 12) { *rng.pick(&big) } else { rng.below(len + 3) };
                let count = if rng.chance(1, 12) { *rng.pick(&big) } else { rng.below(len + 4) };
                case(rng, 1, &[start, len], len as usize, addr, count, op, &script, srclen);
            }
            _ => {
                let base = *rng.pick(&[0u64, 0x1000, 0xffff_ffff_ffff_f000]);
                let l1 = rng.range(1, 9);
                let gap = if rng.bool() { 0 } else { rng.range(1, 3) };
                let l2 = rng.range(1, 9);
                let mut lay = vec![base, l1, base + l1 + gap, l2];
                let mut mlen = l1 + l2;
                let mut end = base + l1 + gap + l2;
                if rng.chance(1, 3) {
                    let gap2 = if rng.bool() { 0 } else { 1 };
                    let l3 = rng.range(1, 6);
                    lay.extend([end + gap2, l3]);
                    mlen += l3;
                    end += gap2 + l3;
                }
                let addr = if rng.chance(1, 12) { *rng.pick(&big) } else { base.wrapping_sub(1).wrapping_add(rng.below(end - base + 3)) };
                let count = if rng.chance(1, 12) { *rng.pick(&big) } else { rng.below(end - base + 3) };
                case(rng, 2, &lay, mlen as usize, addr, count, op, &script, srclen);
            }
        }
    }
}

// =========================================================================================== suite C14own
// The guest-memory / region / slice stream entry points driven with the endpoints the crate itself provides:
//   ekind 0 &[u8]  1 &mut [u8]  2 Vec<u8>  3 Cursor<&[u8]>  8 Cursor<Vec<u8>> (position anywhere, also past the end)
//         5 File  6 UnixStream  7 pipe (OwnedFd): REAL descriptors whose read(2) / write(2) calls follow [script]
//         (crate::fdscript; 0 Full 1 Zero 2 Eintr 3..8 hard error 16+k Short k; the real call once the script is over)
// case:  mode target [layout] [memory] addr count op ekind [script] [content] pos
// obs:   rk a b calls [endpoint data after] pos_after [out] [memory after]
// The endpoint is observed independently of the transfer (backing array, second descriptor + lseek, FIONREAD, draining
// the peer): super::c13::Stream::observe.
use super::c13::Stream;
use crate::fdscript;

fn rd_op<A, E, T: Bytes<A, E = E>, S: ReadVolatile>(t: &T, addr: A, s: &mut S, count: usize, op: u64, ec: fn(&E) -> (u64, u64, u64)) -> (u64, u64, u64) {
    if op == 0 {
        match t.read_volatile_from(addr, s, count) {
            Ok(k) => (0, k as u64, 0),
            Err(e) => ec(&e),
        }
    } else {
        match t.read_exact_volatile_from(addr, s, count) {
            Ok(()) => (1, 0, 0),
            Err(e) => ec(&e),
        }
    }
}
fn wr_op<A, E, T: Bytes<A, E = E>, S: WriteVolatile>(t: &T, addr: A, s: &mut S, count: usize, op: u64, ec: fn(&E) -> (u64, u64, u64)) -> (u64, u64, u64) {
    if op == 2 {
        match t.write_volatile_to(addr, s, count) {
            Ok(k) => (0, k as u64, 0),
            Err(e) => ec(&e),
        }
    } else {
        match t.write_all_volatile_to(addr, s, count) {
            Ok(()) => (1, 0, 0),
            Err(e) => ec(&e),
        }
    }
}
/// one of the four stream methods of `t` with the endpoint `s`
fn xfer<A, E, T: Bytes<A, E = E>>(t: &T, addr: A, s: &mut Stream, count: usize, op: u64, ec: fn(&E) -> (u64, u64, u64)) -> (u64, u64, u64) {
    let rd = op <= 1;
    match s {
        Stream::SliceR { cur, .. } if rd => rd_op(t, addr, cur, count, op, ec),
        Stream::CurR { c, .. } if rd => rd_op(t, addr, c, count, op, ec),
        Stream::CurRV { c } if rd => rd_op(t, addr, c, count, op, ec),
        Stream::SliceW { cur, .. } if !rd => wr_op(t, addr, cur, count, op, ec),
        Stream::VecW { v, .. } if !rd => wr_op(t, addr, v, count, op, ec),
        Stream::FileS { f, .. } => {
            if rd {
                rd_op(t, addr, f, count, op, ec)
            } else {
                wr_op(t, addr, f, count, op, ec)
            }
        }
        Stream::Sock { a, .. } => {
            if rd {
                rd_op(t, addr, a, count, op, ec)
            } else {
                wr_op(t, addr, a, count, op, ec)
            }
        }
        Stream::PipeVm { rd: r, wr: w, .. } => {
            if rd {
                rd_op(t, addr, r, count, op, ec)
            } else {
                wr_op(t, addr, w, count, op, ec)
            }
        }
        _ => panic!("endpoint does not offer this operation"),
    }
}

fn exec_own(case: &[Tok]) -> Vec<Tok> {
    fdscript::self_test();
    fdscript::watched(|| exec_own_inner(case))
}
fn exec_own_inner(case: &[Tok]) -> Vec<Tok> {
    let target = case[1].u();
    let lay: Vec<u64> = case[2].l().iter().map(|x| *x as u64).collect();
    let mem0 = case[3].bytes();
    let addr = case[4].u();
    let count = case[5].u() as usize;
    let op = case[6].u();
    let ekind = case[7].u();
    let script: Vec<fdscript::Beh> = case[8].l().iter().map(|x| fdscript::beh_of(*x)).collect();
    let content = case[9].bytes();
    let pos = case[10].u();
    assert!(op <= 3 && script.len() <= 64 && content.len() <= 65536);
    let is_fd = matches!(ekind, 5 | 6 | 7);
    match ekind {
        0 | 1 => assert!(pos <= content.len() as u64),
        2 | 6 | 7 => assert!(pos == 0),
        5 => assert!(pos <= 65536),
        3 | 8 => {}
        _ => panic!("bad endpoint kind"),
    }
    assert!(is_fd || script.is_empty());
    let mut s = Stream::new(ekind, &content, pos, true);
    let fd = if is_fd { s.raw_fd(op <= 1) } else { -1 };
    // the transfer itself, under the script when the endpoint is a descriptor; a panic is an observation
    let mut go = |f: &mut dyn FnMut(&mut Stream) -> (u64, u64, u64)| -> (Option<(u64, u64, u64)>, u64) {
        if is_fd {
            fdscript::with_script(fd, &script, || f(&mut s))
        } else {
            (util::catch(|| f(&mut s)), 0)
        }
    };
    let ((rc, calls), mem1) = match target {
        0 => {
            let (soff, slen) = (lay[0] as usize, lay[1] as usize);
            let mut parent = mem0.clone();
            assert!(soff + slen <= parent.len());
            let base = parent.as_mut_ptr();
            let r = {
                let vs = VolatileSlice::from(&mut parent[soff..soff + slen]);
                go(&mut |s| xfer(&vs, addr as usize, s, count, op, verr))
            };
            (r, unsafe { peek(base, mem0.len()) })
        }
        1 => {
            let (start, len) = (lay[0], lay[1] as usize);
            assert!(len == mem0.len() && len > 0);
            let r = GuestRegionMmap::<()>::new(MmapRegion::new(len).unwrap(), GuestAddress(start)).unwrap();
            let p = r.as_ptr();
            unsafe { poke(p, &mem0) };
            let res = go(&mut |s| xfer(&r, MemoryRegionAddress(addr), s, count, op, gerr));
            (res, unsafe { peek(p, len) })
        }
        2 => {
            let ranges: Vec<(GuestAddress, usize)> = lay.chunks(2).map(|c| (GuestAddress(c[0]), c[1] as usize)).collect();
            assert!(ranges.iter().map(|r| r.1).sum::<usize>() == mem0.len());
            let gm = GuestMemoryMmap::<()>::from_ranges(&ranges).unwrap();
            let ptrs: Vec<(*mut u8, usize)> = ranges
                .iter()
                .map(|(a, l)| {
                    let r = gm.find_region(*a).unwrap();
                    assert!(r.start_addr() == *a && r.len() as usize == *l);
                    (r.as_ptr(), *l)
                })
                .collect();
            let mut off = 0;
            for (p, l) in &ptrs {
                unsafe { poke(*p, &mem0[off..off + l]) };
                off += l;
            }
            let res = go(&mut |s| xfer(&gm, GuestAddress(addr), s, count, op, gerr));
            let mut m = Vec::new();
            for (p, l) in &ptrs {
                m.extend(unsafe { peek(*p, *l) });
            }
            (res, m)
        }
        _ => panic!("bad target"),
    };
    drop(go);
    let rc = rc.unwrap_or((11, 0, 0));
    let (d, p, o) = s.observe();
    vec![n(rc.0), n(rc.1), n(rc.2), n(calls), d, n(p), o, Tok::of_bytes(&mem1)]
}

const OWN_ALPHABET: [&[u128]; 9] = [&[0], &[17], &[19], &[1], &[2], &[2, 2], &[3], &[4], &[16]];

fn gen_own(rng: &mut Rng, tier: Tier, emit: &mut dyn FnMut(Vec<Tok>)) {
    let mode = crate::build_mode();
    let quick = tier == Tier::Quick;
    let mut case = |rng: &mut Rng, target: u64, lay: &[u64], mlen: usize, addr: u64, count: u64, op: u64, ekind: u64, script: &[u128], content: &[u8], pos: u64| {
        let mem = rng.bytes(mlen);
        emit(vec![
            n(mode),
            n(target),
            Tok::of_u64s(lay),
            Tok::of_bytes(&mem),
            n(addr),
            n(count),
            n(op),
            n(ekind),
            Tok::L(script.to_vec()),
            Tok::of_bytes(content),
            n(pos),
        ])
    };
    let readers = [0u64, 3, 8, 5, 6, 7];
    let writers = [1u64, 2, 5, 6, 7];
    let cfgs = configs();
    // 1. in-memory endpoints: every configuration x endpoint x operation x stream length (empty, shorter than, equal to,
    //    longer than the count) x position (start, middle, end; cursors also past the end and u64::MAX)
    for (target, lay, mlen, acs) in &cfgs {
        for (addr, count) in acs {
            let c = *count as usize;
            for op in 0..4u64 {
                let eks: &[u64] = if op <= 1 { &[0, 3, 8] } else { &[1, 2] };
                for &ek in eks {
                    for slen in [0usize, 1, c.saturating_sub(1), c, c + 1, c + 6] {
                        let positions: Vec<u64> = match ek {
                            0 | 1 => vec![0, (slen / 2) as u64, slen as u64],
                            2 => vec![0],
                            _ => vec![0, (slen / 2) as u64, slen as u64, slen as u64 + 1, slen as u64 + 7, u64::MAX, 1 << 63],
                        };
                        for pos in positions {
                            let content = rng.bytes(slen);
                            case(rng, *target, lay, *mlen, *addr, *count, op, ek, &[], &content, pos);
                        }
                    }
                }
            }
        }
    }
    // 2. descriptors: every script of up to 2 (quick) / 4 (thorough) symbols on the fixed configurations
    let maxlen = if quick { 2 } else { 4 };
    let mut scripts: Vec<Vec<u128>> = vec![vec![]];
    let mut frontier: Vec<Vec<u128>> = vec![vec![]];
    for _ in 0..maxlen {
        let mut next = Vec::new();
        for s in &frontier {
            for a in OWN_ALPHABET.iter() {
                let mut t = s.clone();
                t.extend_from_slice(a);
                next.push(t);
            }
        }
        scripts.extend(next.iter().cloned());
        frontier = next;
    }
    for (si, script) in scripts.iter().enumerate() {
        for (ci, (target, lay, mlen, acs)) in cfgs.iter().enumerate() {
            for (ai, (addr, count)) in acs.iter().enumerate() {
                if quick && (si + ai) % acs.len() != 0 {
                    continue;
                }
                for op in 0..4u64 {
                    let ek = [5u64, 6, 7][(si + ci + ai + op as usize) % 3];
                    // readers: enough data (24 bytes) or too little; writers: some initial content
                    let slen = if op <= 1 { if (si + ai) % 4 == 3 { (*count as usize) / 2 } else { 24 } } else { 3 };
                    let content = rng.bytes(slen);
                    let pos = if ek == 5 { (si % 3) as u64 } else { 0 };
                    case(rng, *target, lay, *mlen, *addr, *count, op, ek, script, &content, pos);
                }
            }
        }
    }
    // 3. random: layouts, addresses, counts (incl. 2^64-1) x endpoints x scripts
    let nrand = if quick { 20_000 } else { 300_000 };
    for _ in 0..nrand {
        let op = rng.below(4);
        let ek = if op <= 1 { *rng.pick(&readers) } else { *rng.pick(&writers) };
        let is_fd = matches!(ek, 5 | 6 | 7);
        let mut script: Vec<u128> = Vec::new();
        if is_fd {
            let nsym = if rng.chance(1, 10) { rng.range(6, 9) } else { rng.range(0, 5) };
            for _ in 0..nsym {
                match rng.below(10) {
                    0 => script.push(16 + rng.below(6) as u128),
                    1 => script.push(16 + rng.range(1, 12) as u128),
                    2 => script.push(3 + rng.below(6) as u128),
                    _ => script.extend_from_slice(*rng.pick(&OWN_ALPHABET)),
                }
            }
        }
        let slen = match rng.below(4) {
            0 => rng.below(4) as usize,
            _ => rng.below(30) as usize,
        };
        let content = rng.bytes(slen);
        let pos = match ek {
            0 | 1 => rng.below(slen as u64 + 1),
            3 | 8 => match rng.below(6) {
                0 => u64::MAX - rng.below(2),
                1 => slen as u64 + rng.below(6),
                _ => rng.below(slen as u64 + 1),
            },
            5 => rng.below(slen as u64 + 3),
            _ => 0,
        };
        let big = [u64::MAX, u64::MAX - 1, 1 << 63, 1 << 32];
        match rng.below(3) {
            0 => {
                let plen = rng.range(0, 24);
                let soff = rng.below(plen + 1);
                let sl = rng.below(plen - soff + 1);
                let addr = if rng.chance(1, 12) { *rng.pick(&big) } else { rng.below(sl + 3) };
                let count = if rng.chance(1, 12) { *rng.pick(&big) } else { rng.below(sl + 4) };
                case(rng, 0, &[soff, sl], plen as usize, addr, count, op, ek, &script, &content, pos);
            }
            1 => {
                let len = rng.range(1, 20);
                let start = *rng.pick(&[0u64, 0x1000, u64::MAX - 64]);
                let addr = if rng.chance(1, 12) { *rng.pick(&big) } else { rng.below(len + 3) };
                let count = if rng.chance(1, 12) { *rng.pick(&big) } else { rng.below(len + 4) };
                case(rng, 1, &[start, len], len as usize, addr, count, op, ek, &script, &content, pos);
            }
            _ => {
                let base = *rng.pick(&[0u64, 0x1000, 0xffff_ffff_ffff_f000]);
                let l1 = rng.range(1, 9);
                let gap = if rng.bool() { 0 } else { rng.range(1, 3) };
                let l2 = rng.range(1, 9);
                let mut lay = vec![base, l1, base + l1 + gap, l2];
                let mut mlen = l1 + l2;
                let mut end = base + l1 + gap + l2;
                if rng.chance(1, 3) {
                    let gap2 = if rng.bool() { 0 } else { 1 };
                    let l3 = rng.range(1, 6);
                    lay.extend([end + gap2, l3]);
                    mlen += l3;
                    end += gap2 + l3;
                }
                let addr = if rng.chance(1, 12) { *rng.pick(&big) } else { base.wrapping_sub(1).wrapping_add(rng.below(end - base + 3)) };
                let count = if rng.chance(1, 12) { *rng.pick(&big) } else { rng.below(end - base + 3) };
                case(rng, 2, &lay, mlen as usize, addr, count, op, ek, &script, &content, pos);
            }
        }
    }
}
