// build: no-xen
//! C14: stream transfers into / out of guest memory under scripted short I/O, EINTR, end of stream and
//! hard errors.
//! case:  mode target [layout] [memory] addr count op [script] [source]
//!   target 0 VolatileSlice [offset in parent, length]; 1 GuestRegionMmap [guest start, length];
//!          2 GuestMemoryMmap [start1, len1, start2, len2, ...]
//!   op 0 read_volatile_from 1 read_exact_volatile_from 2 write_volatile_to 3 write_all_volatile_to
//!   script element 0 Full 1 Zero 2 Eintr 3 HardErr 16+k Short k; after the script ends: Zero
//! obs:   rk a b calls moved [sink] [memory after]
//!   rk 0 Ok(n) 1 Ok(()) 2 UnexpectedEof 3 WriteZero 4 Interrupted 5 other io 6 bounds/backend address
//!      7 InvalidGuestAddress 8 PartialBuffer{a,b} 9 CallbackOutOfRange 10 GuestAddressOverflow 11 panic 12 other
//! Guest memory is initialised and observed through host pointers; the streams count their calls and
//! the bytes they gave out / accepted themselves.
use crate::tok::n;
use crate::{util, Rng, Suite, Tier, Tok};
use std::io::ErrorKind;
use vm_memory::bitmap::BitmapSlice;
use vm_memory::{
    Bytes, GuestAddress, GuestMemory, GuestMemoryError, GuestMemoryMmap, GuestMemoryRegion, GuestRegionMmap,
    MemoryRegionAddress, MmapRegion, ReadVolatile, VolatileMemoryError, VolatileSlice, WriteVolatile,
};

pub const SUITES: &[Suite] = &[Suite { name: "C14", gen, exec }];

#[derive(Clone, Copy, PartialEq, Eq, Debug)]
enum Beh {
    Full,
    Short(usize),
    Zero,
    Eintr,
    HardErr,
}
fn beh_of(x: u128) -> Beh {
    match x {
        0 => Beh::Full,
        1 => Beh::Zero,
        2 => Beh::Eintr,
        3 => Beh::HardErr,
        k if k >= 16 => Beh::Short((k - 16) as usize),
        _ => panic!("bad behaviour"),
    }
}
fn beh_code(b: Beh) -> u128 {
    match b {
        Beh::Full => 0,
        Beh::Zero => 1,
        Beh::Eintr => 2,
        Beh::HardErr => 3,
        Beh::Short(k) => 16 + k as u128,
    }
}

struct Scripted {
    script: Vec<Beh>,
    idx: usize,
    calls: u64,
    src: Vec<u8>,
    pos: usize,
    sink: Vec<u8>,
}
impl Scripted {
    fn next(&mut self) -> Beh {
        self.calls += 1;
        if self.idx < self.script.len() {
            self.idx += 1;
            self.script[self.idx - 1]
        } else {
            Beh::Zero
        }
    }
    fn amount(b: Beh, len: usize) -> usize {
        match b {
            Beh::Full => len,
            Beh::Short(k) => k.min(len),
            _ => 0,
        }
    }
}
fn io_err(k: ErrorKind) -> VolatileMemoryError {
    VolatileMemoryError::IOError(std::io::Error::new(k, "scripted"))
}
/// "any other stream error ends the transfer and is reported": the scripted hard error rotates through error kinds
/// (all of them are NOT `Interrupted`; in particular `WouldBlock`/EAGAIN must not be retried like EINTR)
fn hard_kind(call: u64) -> ErrorKind {
    [ErrorKind::Other, ErrorKind::WouldBlock, ErrorKind::TimedOut, ErrorKind::BrokenPipe, ErrorKind::ConnectionReset,
     ErrorKind::PermissionDenied, ErrorKind::InvalidInput][(call % 7) as usize]
}
impl ReadVolatile for Scripted {
    fn read_volatile<B: BitmapSlice>(&mut self, buf: &mut VolatileSlice<B>) -> Result<usize, VolatileMemoryError> {
        match self.next() {
            Beh::Eintr => Err(io_err(ErrorKind::Interrupted)),
            Beh::HardErr => Err(io_err(hard_kind(self.calls))),
            b => {
                let k = Self::amount(b, buf.len()).min(self.src.len() - self.pos);
                if k > 0 {
                    buf.subslice(0, k).unwrap().copy_from(&self.src[self.pos..self.pos + k]);
                }
                self.pos += k;
                Ok(k)
            }
        }
    }
}
impl WriteVolatile for Scripted {
    fn write_volatile<B: BitmapSlice>(&mut self, buf: &VolatileSlice<B>) -> Result<usize, VolatileMemoryError> {
        match self.next() {
            Beh::Eintr => Err(io_err(ErrorKind::Interrupted)),
            Beh::HardErr => Err(io_err(hard_kind(self.calls))),
            b => {
                let k = Self::amount(b, buf.len());
                let mut tmp = vec![0u8; k];
                if k > 0 {
                    buf.subslice(0, k).unwrap().copy_to(&mut tmp[..]);
                }
                self.sink.extend_from_slice(&tmp);
                Ok(k)
            }
        }
    }
}

fn kind_code(k: ErrorKind) -> u64 {
    match k {
        ErrorKind::UnexpectedEof => 2,
        ErrorKind::WriteZero => 3,
        ErrorKind::Interrupted => 4,
        _ => 5,
    }
}
fn verr(e: &VolatileMemoryError) -> (u64, u64, u64) {
    match e {
        VolatileMemoryError::IOError(e) => (kind_code(e.kind()), 0, 0),
        VolatileMemoryError::OutOfBounds { .. } | VolatileMemoryError::Overflow { .. } => (6, 0, 0),
        VolatileMemoryError::PartialBuffer { expected, completed } => (8, *expected as u64, *completed as u64),
        _ => (12, 0, 0),
    }
}
fn gerr(e: &GuestMemoryError) -> (u64, u64, u64) {
    match e {
        GuestMemoryError::IOError(e) => (kind_code(e.kind()), 0, 0),
        GuestMemoryError::InvalidBackendAddress => (6, 0, 0),
        GuestMemoryError::InvalidGuestAddress(_) => (7, 0, 0),
        GuestMemoryError::PartialBuffer { expected, completed } => (8, *expected as u64, *completed as u64),
        GuestMemoryError::CallbackOutOfRange => (9, 0, 0),
        GuestMemoryError::GuestAddressOverflow => (10, 0, 0),
        _ => (12, 0, 0),
    }
}

/// the four stream methods on any Bytes<A> implementor
fn run_op<A, E, T: Bytes<A, E = E>>(t: &T, addr: A, s: &mut Scripted, count: usize, op: u64, ec: fn(&E) -> (u64, u64, u64)) -> (u64, u64, u64) {
    match op {
        0 => match t.read_volatile_from(addr, s, count) {
            Ok(k) => (0, k as u64, 0),
            Err(e) => ec(&e),
        },
        1 => match t.read_exact_volatile_from(addr, s, count) {
            Ok(()) => (1, 0, 0),
            Err(e) => ec(&e),
        },
        2 => match t.write_volatile_to(addr, s, count) {
            Ok(k) => (0, k as u64, 0),
            Err(e) => ec(&e),
        },
        3 => match t.write_all_volatile_to(addr, s, count) {
            Ok(()) => (1, 0, 0),
            Err(e) => ec(&e),
        },
        _ => panic!("bad op"),
    }
}

unsafe fn poke(p: *mut u8, bytes: &[u8]) {
    for (i, b) in bytes.iter().enumerate() {
        std::ptr::write_volatile(p.add(i), *b);
    }
}
unsafe fn peek(p: *const u8, len: usize) -> Vec<u8> {
    (0..len).map(|i| std::ptr::read_volatile(p.add(i))).collect()
}

fn exec(case: &[Tok]) -> Vec<Tok> {
    let target = case[1].u();
    let lay: Vec<u64> = case[2].l().iter().map(|x| *x as u64).collect();
    let mem0 = case[3].bytes();
    let addr = case[4].u();
    let count = case[5].u() as usize;
    let op = case[6].u();
    let script: Vec<Beh> = case[7].l().iter().map(|x| beh_of(*x)).collect();
    let src = case[8].bytes();
    let mut s = Scripted { script, idx: 0, calls: 0, src, pos: 0, sink: vec![] };
    let (rc, mem1) = match target {
        0 => {
            let (soff, slen) = (lay[0] as usize, lay[1] as usize);
            let mut parent = mem0.clone();
            assert!(soff + slen <= parent.len());
            let base = parent.as_mut_ptr();
            let rc = {
                let vs = VolatileSlice::from(&mut parent[soff..soff + slen]);
                util::catch(|| run_op(&vs, addr as usize, &mut s, count, op, verr))
            };
            (rc, unsafe { peek(base, mem0.len()) })
        }
        1 => {
            let (start, len) = (lay[0], lay[1] as usize);
            assert!(len == mem0.len() && len > 0);
            let r = GuestRegionMmap::<()>::new(MmapRegion::new(len).unwrap(), GuestAddress(start)).unwrap();
            let p = r.as_ptr();
            unsafe { poke(p, &mem0) };
            let rc = util::catch(|| run_op(&r, MemoryRegionAddress(addr), &mut s, count, op, gerr));
            (rc, unsafe { peek(p, len) })
        }
        2 => {
            let ranges: Vec<(GuestAddress, usize)> = lay.chunks(2).map(|c| (GuestAddress(c[0]), c[1] as usize)).collect();
            assert!(ranges.iter().map(|r| r.1).sum::<usize>() == mem0.len());
            let gm = GuestMemoryMmap::<()>::from_ranges(&ranges).unwrap();
            // host pointers of the regions, in the order of the layout given by the case
            let ptrs: Vec<(*mut u8, usize)> = ranges
                .iter()
                .map(|(a, l)| {
                    let r = gm.find_region(*a).unwrap();
                    assert!(r.start_addr() == *a && r.len() as usize == *l);
                    (r.as_ptr(), *l)
                })
                .collect();
            let mut off = 0;
            for (p, l) in &ptrs {
                unsafe { poke(*p, &mem0[off..off + l]) };
                off += l;
            }
            let rc = util::catch(|| run_op(&gm, GuestAddress(addr), &mut s, count, op, gerr));
            let mut m = Vec::new();
            for (p, l) in &ptrs {
                m.extend(unsafe { peek(*p, *l) });
            }
            (rc, m)
        }
        _ => panic!("bad target"),
    };
    let rc = rc.unwrap_or((11, 0, 0));
    let moved = if op <= 1 { s.pos } else { s.sink.len() };
    vec![n(rc.0), n(rc.1), n(rc.2), n(s.calls), n(moved as u64), Tok::of_bytes(&s.sink), Tok::of_bytes(&mem1)]
}

// ------------------------------------------------------------------------------------------- generator
const ALPHABET: [&[Beh]; 7] = [
    &[Beh::Full],
    &[Beh::Short(1)],
    &[Beh::Short(3)],
    &[Beh::Zero],
    &[Beh::Eintr],
    &[Beh::Eintr, Beh::Eintr],
    &[Beh::HardErr],
];

/// (target, layout, memory length, [(addr, count)]) - the fixed configurations every script is run on
fn configs() -> Vec<(u64, Vec<u64>, usize, Vec<(u64, u64)>)> {
    vec![
        // a slice in the middle of its parent: inside, up to the end, beyond the end
        (0, vec![4, 12], 24, vec![(0, 12), (3, 7), (5, 9)]),
        // a region
        (1, vec![0x1000, 12], 12, vec![(0, 12), (2, 10), (4, 11)]),
        // guest memory: two adjacent regions then a hole; two regions with a gap
        (2, vec![0x1000, 6, 0x1006, 5], 11, vec![(0x1002, 7), (0x1001, 10), (0x1003, 12)]),
        (2, vec![0x1000, 6, 0x1008, 5], 11, vec![(0x1002, 9)]),
    ]
}

fn gen(rng: &mut Rng, tier: Tier, emit: &mut dyn FnMut(Vec<Tok>)) {
    let mode = crate::build_mode();
    let quick = tier == Tier::Quick;
    let mut case = |rng: &mut Rng, target: u64, lay: &[u64], mlen: usize, addr: u64, count: u64, op: u64, script: &[Beh], srclen: usize| {
        let mem = rng.bytes(mlen);
        let src: Vec<u8> = if op <= 1 { rng.bytes(srclen) } else { vec![] };
        emit(vec![
            n(mode),
            n(target),
            Tok::of_u64s(lay),
            Tok::of_bytes(&mem),
            n(addr),
            n(count),
            n(op),
            Tok::L(script.iter().map(|b| beh_code(*b)).collect()),
            Tok::of_bytes(&src),
        ])
    };
    // 1. every script over the alphabet up to a length, on the fixed configurations
    let maxlen = if quick { 3 } else { 5 };
    let cfgs = configs();
    let mut scripts: Vec<Vec<Beh>> = vec![vec![]];
    let mut frontier: Vec<Vec<Beh>> = vec![vec![]];
    for _ in 0..maxlen {
        let mut next = Vec::new();
        for s in &frontier {
            for a in ALPHABET.iter() {
                let mut t = s.clone();
                t.extend_from_slice(a);
                next.push(t);
            }
        }
        scripts.extend(next.iter().cloned());
        frontier = next;
    }
    for (si, script) in scripts.iter().enumerate() {
        for (target, lay, mlen, acs) in &cfgs {
            for (ai, (addr, count)) in acs.iter().enumerate() {
                // the quick tier runs each script on one (addr, count) per configuration, rotating
                if quick && (si + ai) % acs.len() != 0 {
                    continue;
                }
                for op in 0..4u64 {
                    case(rng, *target, lay, *mlen, *addr, *count, op, script, 24);
                }
            }
        }
    }
    // 2. random scripts (up to 5 symbols, sometimes longer) x random layouts, addresses, counts
    let nrand = if quick { 8_000 } else { 300_000 };
    for _ in 0..nrand {
        let nsym = if rng.chance(1, 10) { rng.range(6, 9) } else { rng.range(0, 5) };
        let mut script = Vec::new();
        for _ in 0..nsym {
            match rng.below(10) {
                0 => script.push(Beh::Short(rng.below(6) as usize)),
                1 => script.push(Beh::Short(rng.range(1, 12) as usize)),
                _ => script.extend_from_slice(*rng.pick(&ALPHABET)),
            }
        }
        let op = rng.below(4);
        let big = [u64::MAX, u64::MAX - 1, 1 << 63, 1 << 32];
        let srclen = if rng.chance(1, 5) { rng.below(8) as usize } else { 24 };
        match rng.below(3) {
            0 => {
                let plen = rng.range(0, 24);
                let soff = rng.below(plen + 1);
                let slen = rng.below(plen - soff + 1);
                let addr = if rng.chance(1, 12) { *rng.pick(&big) } else { rng.below(slen + 3) };
                let count = if rng.chance(1, 12) { *rng.pick(&big) } else { rng.below(slen + 4) };
                case(rng, 0, &[soff, slen], plen as usize, addr, count, op, &script, srclen);
            }
            1 => {
                let len = rng.range(1, 20);
                let start = *rng.pick(&[0u64, 0x1000, u64::MAX - 64]);
                let addr = if rng.chance(1, 12) { *rng.pick(&big) } else { rng.below(len + 3) };
                let count = if rng.chance(1, 12) { *rng.pick(&big) } else { rng.below(len + 4) };
                case(rng, 1, &[start, len], len as usize, addr, count, op, &script, srclen);
            }
            _ => {
                let base = *rng.pick(&[0u64, 0x1000, 0xffff_ffff_ffff_f000]);
                let l1 = rng.range(1, 9);
                let gap = if rng.bool() { 0 } else { rng.range(1, 3) };
                let l2 = rng.range(1, 9);
                let mut lay = vec![base, l1, base + l1 + gap, l2];
                let mut mlen = l1 + l2;
                let mut end = base + l1 + gap + l2;
                if rng.chance(1, 3) {
                    let gap2 = if rng.bool() { 0 } else { 1 };
                    let l3 = rng.range(1, 6);
                    lay.extend([end + gap2, l3]);
                    mlen += l3;
                    end += gap2 + l3;
                }
                let addr = if rng.chance(1, 12) { *rng.pick(&big) } else { base.wrapping_sub(1).wrapping_add(rng.below(end - base + 3)) };
                let count = if rng.chance(1, 12) { *rng.pick(&big) } else { rng.below(end - base + 3) };
                case(rng, 2, &lay, mlen as usize, addr, count, op, &script, srclen);
            }
        }
    }
}
