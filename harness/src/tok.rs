//! Trace tokens: hex numbers or [h,h,...] lists (same format as coq/Prelude/Tok.v + ocaml/driver.ml).
#[derive(Clone, Debug, PartialEq, Eq)]
pub enum Tok {
    N(u128),
    L(Vec<u128>),
}
impl Tok {
    pub fn n(&self) -> u128 {
        match self {
            Tok::N(x) => *x,
            _ => panic!("expected number token"),
        }
    }
    pub fn u(&self) -> u64 {
        self.n() as u64
    }
    pub fn l(&self) -> &[u128] {
        match self {
            Tok::L(x) => x,
            _ => panic!("expected list token"),
        }
    }
    pub fn bytes(&self) -> Vec<u8> {
        self.l().iter().map(|x| *x as u8).collect()
    }
    pub fn of_bytes(b: &[u8]) -> Tok {
        Tok::L(b.iter().map(|x| *x as u128).collect())
    }
    pub fn of_u64s(b: &[u64]) -> Tok {
        Tok::L(b.iter().map(|x| *x as u128).collect())
    }
    pub fn b(x: bool) -> Tok {
        Tok::N(x as u128)
    }
}
pub fn n<T: Into<u128>>(x: T) -> Tok {
    Tok::N(x.into())
}
pub fn us(x: usize) -> Tok {
    Tok::N(x as u128)
}
pub fn parse(w: &str) -> Tok {
    if w.starts_with('[') && w.ends_with(']') {
        let inner = &w[1..w.len() - 1];
        if inner.is_empty() {
            Tok::L(vec![])
        } else {
            Tok::L(inner.split(',').map(|x| u128::from_str_radix(x, 16).expect("hex")).collect())
        }
    } else {
        Tok::N(u128::from_str_radix(w, 16).expect("hex"))
    }
}
pub fn show(t: &Tok) -> String {
    match t {
        Tok::N(x) => format!("{:x}", x),
        Tok::L(l) => format!("[{}]", l.iter().map(|x| format!("{:x}", x)).collect::<Vec<_>>().join(",")),
    }
}
pub fn join(ts: &[Tok]) -> String {
    ts.iter().map(show).collect::<Vec<_>>().join(" ")
}
