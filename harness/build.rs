// Enumerates src/suites/*.rs into $OUT_DIR/suites.rs (module declarations + dispatch table).
// Files named *_xen.rs are only compiled with the `xen` feature.
use std::{env, fs, path::Path};
fn main() {
    let dir = Path::new(&env::var("CARGO_MANIFEST_DIR").unwrap()).join("src/suites");
    println!("cargo:rerun-if-changed={}", dir.display());
    println!("cargo:rustc-check-cfg=cfg(vm_memory_verif)");
    let mut names: Vec<String> = fs::read_dir(&dir)
        .unwrap()
        .filter_map(|e| {
            let n = e.unwrap().file_name().into_string().unwrap();
            n.strip_suffix(".rs").map(|s| s.to_string())
        })
        .filter(|n| n != "mod")
        .collect();
    names.sort();
    let mut out = String::new();
    for n in &names {
        let cfg = if n.ends_with("_xen") { "#[cfg(feature = \"xen\")] " } else { "" };
        out += &format!("{}#[path = \"{}/{}.rs\"] pub mod {};\n", cfg, dir.display(), n, n);
    }
    out += "pub fn table() -> Vec<(&'static str, crate::Suite)> { let mut v: Vec<(&'static str, crate::Suite)> = Vec::new();\n";
    for n in &names {
        let cfg = if n.ends_with("_xen") { "#[cfg(feature = \"xen\")] " } else { "" };
        out += &format!("{} {{ for s in {}::SUITES {{ v.push((s.name, *s)); }} }}\n", cfg, n);
    }
    out += "v }\n";
    fs::write(Path::new(&env::var("OUT_DIR").unwrap()).join("suites.rs"), out).unwrap();
}
