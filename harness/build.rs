// Enumerates src/suites/*.rs into $OUT_DIR/suites.rs (module declarations + dispatch table).
// Files named *_xen.rs are only compiled with the `xen` feature.
use std::{env, fs, path::Path};
fn main() {
    let dir = Path::new(&env::var("CARGO_MANIFEST_DIR").unwrap()).join("src/suites");
    println!("cargo:rerun-if-changed={}", dir.display());
    println!("cargo:rustc-check-cfg=cfg(vm_memory_verif)");
    let mut names: Vec<String> = fs::read_dir(&dir)
        .unwrap()
        .filter_map(|e| {
            let n = e.unwrap().file_name().into_string().unwrap();
            n.strip_suffix(".rs").map(|s| s.to_string())
        })
        .filter(|n| n != "mod")
        .collect();
    names.sort();
    // a suite file whose first lines contain "build: no-xen" uses APIs that do not exist in the Xen
    // flavour of the crate (e.g. MmapRegionBuilder) and is left out of xen builds
    let no_xen: Vec<bool> = names
        .iter()
        .map(|n| {
            let t = fs::read_to_string(dir.join(format!("{}.rs", n))).unwrap_or_default();
            t.lines().take(12).any(|l| l.contains("build: no-xen"))
        })
        .collect();
    let mut out = String::new();
    let cfg_of = |i: usize, n: &String| -> &'static str {
        if n.ends_with("_xen") {
            "#[cfg(feature = \"xen\")] "
        } else if no_xen[i] {
            "#[cfg(not(feature = \"xen\"))] "
        } else {
            ""
        }
    };
    for (i, n) in names.iter().enumerate() {
        out += &format!("{}#[path = \"{}/{}.rs\"] pub mod {};\n", cfg_of(i, n), dir.display(), n, n);
    }
    out += "pub fn table() -> Vec<(&'static str, crate::Suite)> { let mut v: Vec<(&'static str, crate::Suite)> = Vec::new();\n";
    for (i, n) in names.iter().enumerate() {
        out += &format!("{} {{ for s in {}::SUITES {{ v.push((s.name, *s)); }} }}\n", cfg_of(i, n), n);
    }
    out += "v }\n";
    fs::write(Path::new(&env::var("OUT_DIR").unwrap()).join("suites.rs"), out).unwrap();
}
