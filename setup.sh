#!/bin/sh
# Builds the whole framework offline from files on disk: rs2v translator + generated kernels, Coq development (full .vo, no -vos),
# extraction, OCaml driver, Rust harness (dev + release [+ xen]) against /repo.
set -e
cd "$(dirname "$0")"
export CARGO_NET_OFFLINE=true
# kernel translator: build it and regenerate coq/Gen/*.v from the current source (docs/RS2V.md)
python3 lib/rs2v.py
mkdir -p work
python3 lib/glue.py
( cd coq && coq_makefile -f _CoqProject -o Makefile >/dev/null && timeout 7000 make -j16 >../work/coq-build.log 2>&1 || { tail -50 ../work/coq-build.log; exit 1; } )
python3 - <<'PY'
import sys; sys.path.insert(0, 'lib')
import runner
runner.build_driver()
for b in ['debug', 'release', 'xen-debug', 'xen-release']:
    runner.build_harness(b)
print('setup ok')
PY
