(* Generic trace replayer.  Reads lines  <suite> tok* => tok*  (numbers in hex, lists as
   [h,h,...]) from stdin, runs the Coq-extracted suite function on (input, observation) and
   reports, per line, whether the model's observation equals the real one (correspondence)
   and whether the spec checker accepts the real observation (verdict).
   All modelling and judging logic is in the extracted code; this file only converts. *)
open Model

let rec pos_of_bits acc = function      (* remaining bits, msb first; acc = value so far *)
  | [] -> acc
  | b :: r -> pos_of_bits (if b then XI acc else XO acc) r

let n_of_hex (s : string) : n =
  let msb_first = ref [] in
  String.iter (fun c ->
    let v = match c with
      | '0'..'9' -> Char.code c - 48
      | 'a'..'f' -> Char.code c - 87
      | 'A'..'F' -> Char.code c - 55
      | _ -> failwith "bad hex" in
    msb_first := !msb_first @ [v land 8 = 8; v land 4 = 4; v land 2 = 2; v land 1 = 1]) s;
  let rec strip = function false :: r -> strip r | l -> l in
  match strip !msb_first with
  | [] -> N0
  | _ :: r -> Npos (pos_of_bits XH r)

let hex_of_n (x : n) : string =
  match x with
  | N0 -> "0"
  | Npos p ->
    let rec bits p = match p with XH -> [true] | XO q -> false :: bits q | XI q -> true :: bits q in
    let b = Array.of_list (bits p) in      (* lsb first *)
    let nd = (Array.length b + 3) / 4 in
    let buf = Bytes.create nd in
    for d = 0 to nd - 1 do
      let v = ref 0 in
      for k = 0 to 3 do
        let i = d * 4 + k in
        if i < Array.length b && b.(i) then v := !v lor (1 lsl k)
      done;
      Bytes.set buf (nd - 1 - d) "0123456789abcdef".[!v]
    done;
    Bytes.to_string buf

let tok_of_string (s : string) : tok =
  let n = String.length s in
  if n >= 2 && s.[0] = '[' && s.[n - 1] = ']' then begin
    let inner = String.sub s 1 (n - 2) in
    if inner = "" then TL [] else TL (List.map n_of_hex (String.split_on_char ',' inner))
  end else TN (n_of_hex s)

let string_of_tok = function
  | TN x -> hex_of_n x
  | TL l -> "[" ^ String.concat "," (List.map hex_of_n l) ^ "]"

let split_words s = List.filter (fun w -> w <> "") (String.split_on_char ' ' s)

let () =
  let total = ref 0 and ok = ref 0 and dis = ref 0 and spec = ref 0 and mal = ref 0 in
  let lineno = ref 0 in
  (try
    while true do
      let line = input_line stdin in
      incr lineno;
      if String.length line > 0 && line.[0] <> '#' then begin
        match split_words line with
        | suite :: rest ->
          let rec split acc = function
            | "=>" :: r -> (List.rev acc, r)
            | w :: r -> split (w :: acc) r
            | [] -> (List.rev acc, []) in
          let (inp, obs) = split [] rest in
          incr total;
          (match List.assoc_opt suite Suites.table with
           | None -> incr mal; Printf.printf "%d MALFORMED unknown-suite %s\n" !lineno suite
           | Some f ->
             let v = (try f (List.map tok_of_string inp) (List.map tok_of_string obs)
                      with Failure _ -> malformed) in
             if not v.v_wellformed then begin incr mal; Printf.printf "%d MALFORMED\n" !lineno end
             else begin
               let mobs = String.concat " " (List.map string_of_tok v.v_model) in
               let robs = String.concat " " obs in
               let agree = (mobs = robs) in
               if agree && v.v_ok then incr ok;
               if not agree then begin incr dis; Printf.printf "%d DISAGREE model= %s\n" !lineno mobs end;
               if not v.v_ok then begin incr spec; Printf.printf "%d SPECFAIL\n" !lineno end
             end)
        | [] -> ()
      end
    done
  with End_of_file -> ());
  Printf.printf "SUMMARY total=%d ok=%d disagree=%d specfail=%d malformed=%d\n" !total !ok !dis !spec !mal
