use vm_memory::{MmapRegion, VolatileMemory};
fn main() {
    let s;
    {
        let r = MmapRegion::<()>::new(4096).unwrap();
        s = r.get_slice(0, 8).unwrap();
    }
    let _ = s.len();
}
