use vm_memory::{GuestAddress, GuestAddressSpace, GuestMemory, GuestMemoryAtomic, GuestMemoryMmap};
fn main() {
    let gm = GuestMemoryMmap::<()>::from_ranges(&[(GuestAddress(0), 4096)]).unwrap();
    let atomic = GuestMemoryAtomic::new(gm);
    let s;
    {
        let guard = atomic.memory();
        s = guard.get_slice(GuestAddress(0), 8).unwrap();
    }
    let _ = s.len();
}
