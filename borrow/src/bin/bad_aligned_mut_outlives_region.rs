use vm_memory::{MmapRegion, VolatileMemory};
fn main() {
    let x: &mut u32;
    {
        let r = MmapRegion::<()>::new(4096).unwrap();
        x = unsafe { r.aligned_as_mut::<u32>(0).unwrap() };
    }
    *x = 1;
}
