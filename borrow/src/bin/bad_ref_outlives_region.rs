use vm_memory::{MmapRegion, VolatileMemory};
fn main() {
    let x;
    {
        let r = MmapRegion::<()>::new(4096).unwrap();
        x = r.get_ref::<u32>(0).unwrap();
    }
    x.store(1);
}
