use vm_memory::{GuestAddress, GuestMemoryRegion, GuestRegionMmap, MmapRegion};
fn main() {
    let s;
    {
        let g = GuestRegionMmap::new(MmapRegion::<()>::new(4096).unwrap(), GuestAddress(0x1000)).unwrap();
        s = g.as_volatile_slice().unwrap();
    }
    let _ = s.len();
}
