use vm_memory::{GuestAddress, GuestMemoryRegion, GuestRegionMmap, MemoryRegionAddress, MmapRegion};
fn main() {
    let s;
    {
        let g = GuestRegionMmap::new(MmapRegion::<()>::new(4096).unwrap(), GuestAddress(0x1000)).unwrap();
        s = g.get_slice(MemoryRegionAddress(0), 8).unwrap();
    }
    let _ = s.len();
}
