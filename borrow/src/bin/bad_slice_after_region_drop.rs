use vm_memory::{MmapRegion, VolatileMemory};
fn main() {
    let r = MmapRegion::<()>::new(4096).unwrap();
    let s = r.get_slice(0, 8).unwrap();
    drop(r);
    let _ = s.len();
}
