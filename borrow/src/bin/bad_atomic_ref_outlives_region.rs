use std::sync::atomic::{AtomicU32, Ordering};
use vm_memory::{MmapRegion, VolatileMemory};
fn main() {
    let x;
    {
        let r = MmapRegion::<()>::new(4096).unwrap();
        x = r.get_atomic_ref::<AtomicU32>(0).unwrap();
    }
    x.store(1, Ordering::Relaxed);
}
