use vm_memory::{MmapRegion, VolatileMemory};
fn main() {
    let t;
    {
        let r = MmapRegion::<()>::new(4096).unwrap();
        let s = r.get_slice(0, 64).unwrap();
        t = s.subslice(8, 8).unwrap();
    }
    let _ = t.len();
}
