use vm_memory::{GuestAddress, GuestMemory, GuestMemoryMmap};
fn main() {
    let gm = GuestMemoryMmap::<()>::from_ranges(&[(GuestAddress(0), 4096)]).unwrap();
    let s = gm.get_slice(GuestAddress(0), 8).unwrap();
    drop(gm);
    let _ = s.len();
}
