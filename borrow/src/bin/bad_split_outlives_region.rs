use vm_memory::{MmapRegion, VolatileMemory};
fn main() {
    let t;
    {
        let r = MmapRegion::<()>::new(4096).unwrap();
        t = r.get_slice(0, 64).unwrap().split_at(8).unwrap().1;
    }
    let _ = t.len();
}
