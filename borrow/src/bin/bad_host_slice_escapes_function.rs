use vm_memory::{MmapRegion, VolatileMemory, VolatileSlice};
fn leak<'a>() -> VolatileSlice<'a, ()> {
    let r = MmapRegion::<()>::new(4096).unwrap();
    r.get_slice(0, 8).unwrap()
}
fn main() {
    let _ = leak().len();
}
