use vm_memory::{GuestAddress, GuestMemory, GuestMemoryMmap};
fn main() {
    let s;
    {
        let gm = GuestMemoryMmap::<()>::from_ranges(&[(GuestAddress(0), 4096)]).unwrap();
        s = gm.get_slice(GuestAddress(0), 8).unwrap();
    }
    let _ = s.len();
}
