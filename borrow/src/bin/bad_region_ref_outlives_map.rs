use vm_memory::{GuestAddress, GuestMemory, GuestMemoryMmap, GuestMemoryRegion};
fn main() {
    let reg;
    {
        let gm = GuestMemoryMmap::<()>::from_ranges(&[(GuestAddress(0), 4096)]).unwrap();
        reg = gm.find_region(GuestAddress(0)).unwrap();
    }
    let _ = reg.len();
}
