use vm_memory::{GuestAddress, GuestMemory, GuestMemoryMmap};
fn main() {
    let it;
    {
        let gm = GuestMemoryMmap::<()>::from_ranges(&[(GuestAddress(0), 4096)]).unwrap();
        it = gm.iter();
    }
    let _ = it.count();
}
