use vm_memory::VolatileSlice;
fn main() {
    let s;
    {
        let mut v = vec![0u8; 32];
        s = VolatileSlice::from(&mut v[..]);
    }
    let _ = s.len();
}
