use vm_memory::{MmapRegion, VolatileMemory};
fn main() {
    let x: &u32;
    {
        let r = MmapRegion::<()>::new(4096).unwrap();
        x = unsafe { r.aligned_as_ref::<u32>(0).unwrap() };
    }
    let _ = *x;
}
