use vm_memory::{MmapRegion, VolatileMemory};
fn main() {
    let x;
    {
        let r = MmapRegion::<()>::new(4096).unwrap();
        x = r.get_array_ref::<u16>(0, 4).unwrap().ref_at(2);
    }
    x.store(1);
}
