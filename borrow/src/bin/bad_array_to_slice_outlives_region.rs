use vm_memory::{MmapRegion, VolatileMemory};
fn main() {
    let x;
    {
        let r = MmapRegion::<()>::new(4096).unwrap();
        x = r.get_array_ref::<u8>(0, 16).unwrap().to_slice();
    }
    let _ = x.len();
}
