// every accessor used while its owner is alive: must compile
use std::sync::atomic::{AtomicU32, Ordering};
use vm_memory::{
    Bytes, GuestAddress, GuestAddressSpace, GuestMemory, GuestMemoryAtomic, GuestMemoryMmap, GuestMemoryRegion,
    GuestRegionMmap, MemoryRegionAddress, MmapRegion, VolatileMemory, VolatileSlice,
};
fn main() {
    let r = MmapRegion::<()>::new(4096).unwrap();
    let s = r.get_slice(0, 64).unwrap();
    let t = s.subslice(8, 8).unwrap();
    let o = s.offset(4).unwrap();
    let (a, b) = s.split_at(16).unwrap();
    let rf = r.get_ref::<u32>(0).unwrap();
    let ar = r.get_array_ref::<u16>(0, 4).unwrap();
    let e = ar.ref_at(1);
    let at = r.get_atomic_ref::<AtomicU32>(0).unwrap();
    let sl2 = rf.to_slice();
    let sl3 = ar.to_slice();
    at.store(1, Ordering::Relaxed);
    rf.store(2);
    e.store(3);
    let _ = (s.len(), t.len(), o.len(), a.len(), b.len(), sl2.len(), sl3.len());
    let g = GuestRegionMmap::new(MmapRegion::<()>::new(4096).unwrap(), GuestAddress(0x1000)).unwrap();
    let gs = g.get_slice(MemoryRegionAddress(0), 8).unwrap();
    let gv = g.as_volatile_slice().unwrap();
    let _ = (gs.len(), gv.len());
    let gm = GuestMemoryMmap::<()>::from_ranges(&[(GuestAddress(0), 4096)]).unwrap();
    let ms = gm.get_slice(GuestAddress(0), 8).unwrap();
    let reg = gm.find_region(GuestAddress(0)).unwrap();
    let n = gm.iter().count();
    let _ = (ms.len(), reg.len(), n);
    let mut v = vec![0u8; 32];
    let vs = VolatileSlice::from(&mut v[..]);
    vs.write_obj(7u8, 0).unwrap();
    let atomic = GuestMemoryAtomic::new(gm.clone());
    let guard = atomic.memory();
    let gsl = guard.get_slice(GuestAddress(0), 8).unwrap();
    let _ = gsl.len();
    let tr = unsafe { r.aligned_as_ref::<u32>(0).unwrap() };
    let _ = *tr;
}
