//! rs2v: regenerates Gallina definitions (coq/Gen/*.v) for a fixed list of loop-free kernels of
//! the vm-memory crate from the CURRENT source tree.  Usage: rs2v <repo> <outdir>
//! Output is deterministic (a function of the source text and the kernel table only).
//! A kernel that can no longer be found / translated is reported (status.json, stderr) and its
//! definition is omitted, so the GenEq lemma about it stops compiling; the other kernels are
//! unaffected.  Exit code: 0 = all kernels translated, 3 = some kernel failed, 2 = usage/IO error.
mod panics;
mod specs;
mod trans;

use proc_macro2::{Delimiter, TokenStream, TokenTree};
use specs::Loc;
use std::collections::BTreeMap;
use std::fmt::Write as _;
use syn::{ImplItem, Item, TraitItem};

struct Found {
    sig: syn::Signature,
    body: syn::Block,
    line: usize,
}

fn last_ident(p: &syn::Path) -> String {
    p.segments.last().map(|s| s.ident.to_string()).unwrap_or_default()
}

fn is_cfg_test(attrs: &[syn::Attribute]) -> bool {
    attrs.iter().any(|a| a.path().is_ident("cfg") && quote::ToTokens::to_token_stream(a).to_string().contains("test"))
}

/// name of an impl's self type: last path segment; `&T` / `&mut T` as T; a slice `[u8]` as "[T]"
fn self_type_name(t: &syn::Type) -> Option<String> {
    match t {
        syn::Type::Path(p) => Some(last_ident(&p.path)),
        syn::Type::Reference(r) => self_type_name(&r.elem),
        syn::Type::Paren(p) => self_type_name(&p.elem),
        syn::Type::Slice(_) => Some("[T]".to_string()),
        _ => None,
    }
}

/// closures of a function body in source order
fn closures_of(body: &syn::Block) -> Vec<syn::ExprClosure> {
    use syn::visit::Visit;
    struct V {
        found: Vec<((usize, usize), syn::ExprClosure)>,
    }
    impl<'ast> Visit<'ast> for V {
        fn visit_expr_closure(&mut self, c: &'ast syn::ExprClosure) {
            let p = c.or1_token.span.start();
            self.found.push(((p.line, p.column), c.clone()));
            syn::visit::visit_expr_closure(self, c);
        }
    }
    let mut v = V { found: vec![] };
    v.visit_block(body);
    v.found.sort_by_key(|f| f.0);
    v.found.into_iter().map(|f| f.1).collect()
}

fn find_in_items(items: &[Item], loc: &Loc, out: &mut Vec<Found>) -> Result<(), String> {
    if let Loc::Closure { outer, idx } = loc {
        let mut fs = vec![];
        find_in_items(items, outer, &mut fs)?;
        for f in fs {
            let cl = match closures_of(&f.body).into_iter().nth(*idx) {
                Some(c) => c,
                None => return Err(format!("the function at {:?} has no closure number {}", outer, idx)),
            };
            let mut args: Vec<syn::FnArg> = vec![];
            for p in &cl.inputs {
                let a: syn::FnArg = match p {
                    syn::Pat::Type(pt) => {
                        let (pat, ty) = (&pt.pat, &pt.ty);
                        syn::parse_quote!(#pat: #ty)
                    }
                    syn::Pat::Wild(_) => syn::parse_quote!(_unused: _),
                    other => syn::parse_quote!(#other: _),
                };
                args.push(a);
            }
            let output = &cl.output;
            let sig: syn::Signature = syn::parse_quote!(fn closure(#(#args),*) #output);
            let body: syn::Block = match &*cl.body {
                syn::Expr::Block(b) if b.label.is_none() => b.block.clone(),
                e => syn::parse_quote!({ #e }),
            };
            out.push(Found { sig, body, line: cl.or1_token.span.start().line });
        }
        return Ok(());
    }
    for it in items {
        match (it, loc) {
            (Item::Mod(m), _) => {
                if is_cfg_test(&m.attrs) {
                    continue;
                }
                if let Some((_, items)) = &m.content {
                    find_in_items(items, loc, out)?;
                }
            }
            (Item::Fn(f), Loc::Free(name)) if f.sig.ident == name => {
                out.push(Found { sig: f.sig.clone(), body: (*f.block).clone(), line: f.sig.ident.span().start().line });
            }
            (Item::Trait(t), Loc::Trait(tr, name)) if t.ident == tr => {
                for ti in &t.items {
                    if let TraitItem::Fn(f) = ti {
                        if f.sig.ident == name {
                            match &f.default {
                                Some(b) => out.push(Found { sig: f.sig.clone(), body: b.clone(), line: f.sig.ident.span().start().line }),
                                None => return Err(format!("trait method {}::{} has no default body any more", tr, name)),
                            }
                        }
                    }
                }
            }
            (Item::Impl(i), Loc::Impl { ty, tr, f }) => {
                let self_name = match self_type_name(&i.self_ty) {
                    Some(n) => n,
                    None => continue,
                };
                if self_name != *ty {
                    continue;
                }
                let trait_name = i.trait_.as_ref().map(|(_, p, _)| last_ident(p));
                if trait_name.as_deref() != *tr {
                    continue;
                }
                for ii in &i.items {
                    if let ImplItem::Fn(m) = ii {
                        if m.sig.ident == f {
                            out.push(Found { sig: m.sig.clone(), body: m.block.clone(), line: m.sig.ident.span().start().line });
                        }
                    }
                }
            }
            (Item::Macro(m), Loc::MacroExpr { mac, subst }) if m.ident.as_ref().map(|i| i == mac).unwrap_or(false) => {
                let body = macro_body(m.mac.tokens.clone(), subst).ok_or_else(|| format!("cannot find the body of macro_rules! {}", mac))?;
                let e: syn::Expr = syn::parse2(body).map_err(|e| format!("body of macro_rules! {} does not parse as an expression after substitution: {}", mac, e))?;
                let sig: syn::Signature = syn::parse_quote!(fn macro_body());
                let line = m.ident.as_ref().map(|i| i.span().start().line).unwrap_or(0);
                out.push(Found { sig, body: syn::parse_quote!({ #e }), line });
            }
            (Item::Macro(m), Loc::InMacro { mac, subst, inner }) if m.ident.as_ref().map(|i| i == mac).unwrap_or(false) => {
                let body = macro_body(m.mac.tokens.clone(), subst).ok_or_else(|| format!("cannot find the body of macro_rules! {}", mac))?;
                let file: syn::File = syn::parse2(body).map_err(|e| format!("body of macro_rules! {} does not parse as items after substitution: {}", mac, e))?;
                find_in_items(&file.items, inner, out)?;
            }
            _ => {}
        }
    }
    Ok(())
}

/// `(<matcher>) => { <body> }` (single rule): the body with `$name` replaced per `subst`.
fn macro_body(ts: TokenStream, subst: &[(&str, &str)]) -> Option<TokenStream> {
    let tts: Vec<TokenTree> = ts.into_iter().collect();
    let body = tts.iter().rev().find_map(|t| match t {
        TokenTree::Group(g) if g.delimiter() == Delimiter::Brace => Some(g.stream()),
        _ => None,
    })?;
    Some(substitute(body, subst))
}

fn substitute(ts: TokenStream, subst: &[(&str, &str)]) -> TokenStream {
    let mut out: Vec<TokenTree> = vec![];
    let mut it = ts.into_iter().peekable();
    while let Some(t) = it.next() {
        match &t {
            TokenTree::Punct(p) if p.as_char() == '$' => {
                if let Some(TokenTree::Ident(id)) = it.peek() {
                    let name = id.to_string();
                    if let Some((_, to)) = subst.iter().find(|(f, _)| *f == name) {
                        let span = id.span();
                        it.next();
                        let mut r = proc_macro2::Ident::new(to, span);
                        r.set_span(span);
                        out.push(TokenTree::Ident(r));
                        continue;
                    }
                }
                out.push(t);
            }
            TokenTree::Group(g) => {
                let mut ng = proc_macro2::Group::new(g.delimiter(), substitute(g.stream(), subst));
                ng.set_span(g.span());
                out.push(TokenTree::Group(ng));
            }
            _ => out.push(t),
        }
    }
    out.into_iter().collect()
}

/// `const NAME = <integer literal>;` entries of `bitflags! { ... struct <ty>: uN { ... } }`
fn bitflag_consts(items: &[Item], ty: &str) -> Vec<(String, String)> {
    let mut out = vec![];
    for it in items {
        if let Item::Macro(m) = it {
            if last_ident(&m.mac.path) != "bitflags" {
                continue;
            }
            let tts: Vec<TokenTree> = m.mac.tokens.clone().into_iter().collect();
            let mut is_ty = false;
            for (i, t) in tts.iter().enumerate() {
                if let TokenTree::Ident(id) = t {
                    if id == "struct" {
                        is_ty = matches!(tts.get(i + 1), Some(TokenTree::Ident(n)) if n == ty);
                    }
                }
                if let (true, TokenTree::Group(g)) = (is_ty, t) {
                    if g.delimiter() != Delimiter::Brace {
                        continue;
                    }
                    let inner: Vec<TokenTree> = g.stream().into_iter().collect();
                    for j in 0..inner.len() {
                        if let (Some(TokenTree::Ident(c)), Some(TokenTree::Ident(n)), Some(TokenTree::Punct(eq)), Some(TokenTree::Literal(l)), Some(TokenTree::Punct(semi))) =
                            (inner.get(j), inner.get(j + 1), inner.get(j + 2), inner.get(j + 3), inner.get(j + 4))
                        {
                            if c == "const" && eq.as_char() == '=' && semi.as_char() == ';' {
                                if let Ok(li) = syn::parse_str::<syn::LitInt>(&l.to_string()) {
                                    if let Ok(v) = li.base10_parse::<u128>() {
                                        out.push((n.to_string(), v.to_string()));
                                    }
                                }
                            }
                        }
                    }
                }
            }
        }
    }
    out
}

fn json_str(s: &str) -> String {
    let mut o = String::from("\"");
    for ch in s.chars() {
        match ch {
            '"' => o.push_str("\\\""),
            '\\' => o.push_str("\\\\"),
            '\n' => o.push_str("\\n"),
            c if (c as u32) < 0x20 => {
                let _ = write!(o, "\\u{:04x}", c as u32);
            }
            c => o.push(c),
        }
    }
    o.push('"');
    o
}

fn main() {
    let args: Vec<String> = std::env::args().collect();
    if args.len() != 3 {
        eprintln!("usage: rs2v <repo> <outdir>");
        std::process::exit(2);
    }
    let (repo, outdir) = (&args[1], &args[2]);
    let table = specs::table();
    let mut files: BTreeMap<&str, Result<syn::File, String>> = BTreeMap::new();
    let mut sigs: BTreeMap<String, trans::Sig> = BTreeMap::new();
    let mut modules: Vec<&str> = vec![];
    let mut defs: BTreeMap<&str, Vec<String>> = BTreeMap::new();
    let mut status: Vec<String> = vec![];
    let mut failed = 0;
    let mut table = table;
    // `Self::NAME` constants of bitflags! types, read from the source
    for spec in table.iter_mut() {
        if let Some(bf) = spec.bitflags {
            let path = format!("{}/{}", repo, spec.file);
            if let Ok(file) = std::fs::read_to_string(&path).map_err(|e| e.to_string()).and_then(|s| syn::parse_file(&s).map_err(|e| e.to_string())) {
                for (n, v) in bitflag_consts(&file.items, bf) {
                    spec.consts.push((format!("Self :: {}", n), v, specs::Ty::Int(32)));
                }
            }
        }
    }
    let table = table;
    for spec in &table {
        if !modules.contains(&spec.module) {
            modules.push(spec.module);
        }
        let parsed = files.entry(spec.file).or_insert_with(|| {
            let path = format!("{}/{}", repo, spec.file);
            std::fs::read_to_string(&path).map_err(|e| format!("cannot read {}: {}", path, e)).and_then(|src| syn::parse_file(&src).map_err(|e| format!("{} does not parse: {}", spec.file, e)))
        });
        let res: Result<(trans::Out, usize), String> = (|| {
            let file = parsed.as_ref().map_err(|e| e.clone())?;
            let mut found = vec![];
            find_in_items(&file.items, &spec.loc, &mut found)?;
            if found.len() != 1 {
                return Err(format!("expected exactly one definition at {:?}, found {}", spec.loc, found.len()));
            }
            let f = &found[0];
            let out = trans::translate(spec, &f.sig, &f.body, &sigs).map_err(|e| match e {
                trans::TErr::Unsupported(s) => format!("unsupported construct: {}", s),
                trans::TErr::NeedMonad => "internal: no translation mode applies".to_string(),
            })?;
            Ok((out, f.line))
        })();
        let entry = defs.entry(spec.module).or_default();
        match res {
            Ok((out, line)) => {
                entry.push(format!("(* {}:{}  fn {} *)\n{}\n", spec.file, line, spec.rust, out.def));
                status.push(format!(
                    "{{\"module\": {}, \"kernel\": {}, \"file\": {}, \"line\": {}, \"ok\": true, \"monadic\": {}}}",
                    json_str(spec.module), json_str(spec.name), json_str(spec.file), line, out.sig.monadic
                ));
                sigs.insert(format!("{}::{}", spec.group, spec.rust), out.sig);
            }
            Err(e) => {
                failed += 1;
                eprintln!("rs2v: FAILED {}.{} ({}): {}", spec.module, spec.name, spec.file, e);
                entry.push(format!("(* FAILED: kernel {} of {} could not be regenerated: {} *)\n", spec.name, spec.file, e.replace("*)", "* )").replace("(*", "( *")));
                status.push(format!(
                    "{{\"module\": {}, \"kernel\": {}, \"file\": {}, \"ok\": false, \"error\": {}}}",
                    json_str(spec.module), json_str(spec.name), json_str(spec.file), json_str(&e)
                ));
            }
        }
    }
    if let Err(e) = std::fs::create_dir_all(outdir) {
        eprintln!("rs2v: cannot create {}: {}", outdir, e);
        std::process::exit(2);
    }
    let write_if_changed = |path: String, txt: String| {
        if std::fs::read_to_string(&path).map(|old| old == txt).unwrap_or(false) {
            return;
        }
        if let Err(e) = std::fs::write(&path, txt) {
            eprintln!("rs2v: cannot write {}: {}", path, e);
            std::process::exit(2);
        }
    };
    for (i, m) in modules.iter().enumerate() {
        let mut txt = String::new();
        let _ = writeln!(txt, "(* GENERATED by rs2v from the current Rust source - do not edit, do not commit.");
        let _ = writeln!(txt, "   One definition per kernel; see docs/RS2V.md and the equality lemmas in coq/GenEq/{}.v *)", m);
        let _ = writeln!(txt, "From VM Require Import Prelude.MachInt Prelude.Outcome Prelude.Rs2v.");
        // a module may call kernels of the modules generated before it
        for prev in &modules[..i] {
            if specs::module_deps(m).contains(prev) {
                let _ = writeln!(txt, "From VM Require Gen.{}.", prev);
            }
        }
        let _ = writeln!(txt);
        for d in &defs[m] {
            let _ = writeln!(txt, "{}", d);
        }
        write_if_changed(format!("{}/{}.v", outdir, m), txt);
    }
    write_if_changed(format!("{}/status.json", outdir), format!("[\n{}\n]\n", status.join(",\n")));
    // panic-site inventory of the whole non-test source (docs/RS2V.md "Panic sites")
    write_if_changed(format!("{}/panic_sites.json", outdir), panics::inventory(repo, &table));
    std::process::exit(if failed > 0 { 3 } else { 0 });
}
