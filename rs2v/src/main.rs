//! rs2v: regenerates Gallina definitions (coq/Gen/*.v) for a fixed list of loop-free kernels of
//! the vm-memory crate from the CURRENT source tree.  Usage: rs2v <repo> <outdir>
//! Output is deterministic (a function of the source text and the kernel table only).
//! A kernel that can no longer be found / translated is reported (status.json, stderr) and its
//! definition is omitted, so the GenEq lemma about it stops compiling; the other kernels are
//! unaffected.  Exit code: 0 = all kernels translated, 3 = some kernel failed, 2 = usage/IO error.
mod impls;
mod panics;
mod specs;
mod trans;

use proc_macro2::{Delimiter, TokenStream, TokenTree};
use specs::Loc;
use std::collections::BTreeMap;
use std::fmt::Write as _;
use syn::{ImplItem, Item, TraitItem};

struct Found {
    sig: syn::Signature,
    body: syn::Block,
    line: usize,
    /// for a closure kernel: the enclosing function
    outer: Option<(syn::Signature, syn::Block)>,
    /// token string of the attributes of the function and of the impl block it sits in
    attrs: String,
}

fn last_ident(p: &syn::Path) -> String {
    p.segments.last().map(|s| s.ident.to_string()).unwrap_or_default()
}

fn is_cfg_test(attrs: &[syn::Attribute]) -> bool {
    attrs.iter().any(|a| a.path().is_ident("cfg") && quote::ToTokens::to_token_stream(a).to_string().contains("test"))
}

/// name of an impl's self type: last path segment; `&T` / `&mut T` as T; a slice `[u8]` as "[T]"
fn self_type_name(t: &syn::Type) -> Option<String> {
    match t {
        syn::Type::Path(p) => Some(last_ident(&p.path)),
        syn::Type::Reference(r) => self_type_name(&r.elem),
        syn::Type::Paren(p) => self_type_name(&p.elem),
        syn::Type::Slice(_) => Some("[T]".to_string()),
        _ => None,
    }
}

/// closures of a function body in source order
fn closures_of(body: &syn::Block) -> Vec<syn::ExprClosure> {
    use syn::visit::Visit;
    struct V {
        found: Vec<((usize, usize), syn::ExprClosure)>,
    }
    impl<'ast> Visit<'ast> for V {
        fn visit_expr_closure(&mut self, c: &'ast syn::ExprClosure) {
            let p = c.or1_token.span.start();
            self.found.push(((p.line, p.column), c.clone()));
            syn::visit::visit_expr_closure(self, c);
        }
    }
    let mut v = V { found: vec![] };
    v.visit_block(body);
    v.found.sort_by_key(|f| f.0);
    v.found.into_iter().map(|f| f.1).collect()
}

fn find_in_items(items: &[Item], loc: &Loc, out: &mut Vec<Found>) -> Result<(), String> {
    if let Loc::Closure { outer, idx } = loc {
        let mut fs = vec![];
        find_in_items(items, outer, &mut fs)?;
        for f in fs {
            let cl = match closures_of(&f.body).into_iter().nth(*idx) {
                Some(c) => c,
                None => return Err(format!("the function at {:?} has no closure number {}", outer, idx)),
            };
            let mut args: Vec<syn::FnArg> = vec![];
            for p in &cl.inputs {
                let a: syn::FnArg = match p {
                    syn::Pat::Type(pt) => {
                        let (pat, ty) = (&pt.pat, &pt.ty);
                        syn::parse_quote!(#pat: #ty)
                    }
                    syn::Pat::Wild(_) => syn::parse_quote!(_unused: _),
                    other => syn::parse_quote!(#other: _),
                };
                args.push(a);
            }
            let output = &cl.output;
            let sig: syn::Signature = syn::parse_quote!(fn closure(#(#args),*) #output);
            let body: syn::Block = match &*cl.body {
                syn::Expr::Block(b) if b.label.is_none() => b.block.clone(),
                e => syn::parse_quote!({ #e }),
            };
            out.push(Found { sig, body, line: cl.or1_token.span.start().line, outer: Some((f.sig.clone(), f.body.clone())), attrs: f.attrs.clone() });
        }
        return Ok(());
    }
    for it in items {
        match (it, loc) {
            (Item::Mod(m), _) => {
                if is_cfg_test(&m.attrs) {
                    continue;
                }
                if let Some((_, items)) = &m.content {
                    find_in_items(items, loc, out)?;
                }
            }
            (Item::Fn(f), Loc::Free(name)) if f.sig.ident == name => {
                out.push(Found { sig: f.sig.clone(), body: (*f.block).clone(), line: f.sig.ident.span().start().line, outer: None, attrs: f.attrs.iter().map(|a| quote::ToTokens::to_token_stream(a).to_string()).collect::<Vec<_>>().join(" ") });
            }
            (Item::Trait(t), Loc::Trait(tr, name)) if t.ident == tr => {
                for ti in &t.items {
                    if let TraitItem::Fn(f) = ti {
                        if f.sig.ident == name {
                            match &f.default {
                                Some(b) => out.push(Found { sig: f.sig.clone(), body: b.clone(), line: f.sig.ident.span().start().line, outer: None, attrs: String::new() }),
                                None => return Err(format!("trait method {}::{} has no default body any more", tr, name)),
                            }
                        }
                    }
                }
            }
            (Item::Impl(i), Loc::Impl { ty, tr, f }) => {
                let self_name = match self_type_name(&i.self_ty) {
                    Some(n) => n,
                    None => continue,
                };
                if self_name != *ty {
                    continue;
                }
                let trait_name = i.trait_.as_ref().map(|(_, p, _)| last_ident(p));
                if trait_name.as_deref() != *tr {
                    continue;
                }
                for ii in &i.items {
                    if let ImplItem::Fn(m) = ii {
                        if m.sig.ident == f {
                            out.push(Found { sig: m.sig.clone(), body: m.block.clone(), line: m.sig.ident.span().start().line, outer: None, attrs: i.attrs.iter().chain(m.attrs.iter()).collect::<Vec<_>>().iter().map(|a| quote::ToTokens::to_token_stream(a).to_string()).collect::<Vec<_>>().join(" ") });
                        }
                    }
                }
            }
            (Item::Macro(m), Loc::MacroExpr { mac, subst }) if m.ident.as_ref().map(|i| i == mac).unwrap_or(false) => {
                let body = macro_body(m.mac.tokens.clone(), subst).ok_or_else(|| format!("cannot find the body of macro_rules! {}", mac))?;
                let e: syn::Expr = syn::parse2(body).map_err(|e| format!("body of macro_rules! {} does not parse as an expression after substitution: {}", mac, e))?;
                let sig: syn::Signature = syn::parse_quote!(fn macro_body());
                let line = m.ident.as_ref().map(|i| i.span().start().line).unwrap_or(0);
                out.push(Found { sig, body: syn::parse_quote!({ #e }), line, outer: None, attrs: String::new() });
            }
            (Item::Macro(m), Loc::InMacro { mac, subst, inner }) if m.ident.as_ref().map(|i| i == mac).unwrap_or(false) => {
                let body = macro_body(m.mac.tokens.clone(), subst).ok_or_else(|| format!("cannot find the body of macro_rules! {}", mac))?;
                let file: syn::File = syn::parse2(body).map_err(|e| format!("body of macro_rules! {} does not parse as items after substitution: {}", mac, e))?;
                find_in_items(&file.items, inner, out)?;
            }
            _ => {}
        }
    }
    Ok(())
}

/// the table's function name of a location (the innermost function for closures / macros)
fn loc_fn_name(l: &Loc) -> Option<&'static str> {
    match l {
        Loc::Free(f) => Some(f),
        Loc::Trait(_, f) => Some(f),
        Loc::Impl { f, .. } => Some(f),
        Loc::InMacro { inner, .. } => loc_fn_name(inner),
        Loc::Closure { outer, .. } => loc_fn_name(outer),
        Loc::MacroExpr { .. } => None,
    }
}
fn loc_with_fn(l: &Loc, name: &'static str) -> Loc {
    match l {
        Loc::Free(_) => Loc::Free(name),
        Loc::Trait(t, _) => Loc::Trait(t, name),
        Loc::Impl { ty, tr, .. } => Loc::Impl { ty, tr: *tr, f: name },
        Loc::InMacro { mac, subst, inner } => Loc::InMacro { mac, subst: subst.clone(), inner: Box::new(loc_with_fn(inner, name)) },
        Loc::Closure { outer, idx } => Loc::Closure { outer: Box::new(loc_with_fn(outer, name)), idx: *idx },
        Loc::MacroExpr { .. } => l.clone(),
    }
}

/// names of the callees of the calls with `nargs` arguments in a body, in source order (statements under
/// `#[cfg(vm_memory_verif)]` are not looked into; macro arguments are opaque to syn)
fn callees(body: &syn::Block, method: bool, nargs: usize) -> Vec<String> {
    use syn::visit::Visit;
    struct V {
        method: bool,
        nargs: usize,
        found: Vec<((usize, usize), String)>,
    }
    fn hook(attrs: &[syn::Attribute]) -> bool {
        attrs.iter().any(|a| a.path().is_ident("cfg") && quote::ToTokens::to_token_stream(a).to_string().contains("vm_memory_verif"))
    }
    impl<'ast> Visit<'ast> for V {
        fn visit_expr_method_call(&mut self, mc: &'ast syn::ExprMethodCall) {
            if hook(&mc.attrs) {
                return;
            }
            if self.method && mc.args.len() == self.nargs {
                let p = mc.method.span().start();
                self.found.push(((p.line, p.column), mc.method.to_string()));
            }
            syn::visit::visit_expr_method_call(self, mc);
        }
        fn visit_expr_call(&mut self, c: &'ast syn::ExprCall) {
            if hook(&c.attrs) {
                return;
            }
            if !self.method && c.args.len() == self.nargs {
                if let syn::Expr::Path(p) = &*c.func {
                    if let Some(seg) = p.path.segments.last() {
                        let q = seg.ident.span().start();
                        self.found.push(((q.line, q.column), seg.ident.to_string()));
                    }
                }
            }
            syn::visit::visit_expr_call(self, c);
        }
    }
    let mut v = V { method, nargs, found: vec![] };
    v.visit_block(body);
    v.found.sort();
    v.found.into_iter().map(|f| f.1).collect()
}

/// Finds the function of a table entry: by its name, else - a private function a refactoring may have
/// renamed - through its call site in a public function (`via`).  Returns the definition and, in the second
/// case, (actual name, table name).
fn resolve(items: &[Item], loc: &Loc, via: Option<&specs::Via>) -> Result<(Found, Option<(String, String)>), String> {
    resolve_f(items, loc, via, None)
}
fn resolve_f(items: &[Item], loc: &Loc, via: Option<&specs::Via>, filter: Option<(&str, bool)>) -> Result<(Found, Option<(String, String)>), String> {
    let mut found = vec![];
    find_in_items(items, loc, &mut found)?;
    if let (true, Some((pat, want))) = (found.len() > 1, filter) {
        found.retain(|f| f.attrs.contains(pat) == want);
    }
    if found.len() == 1 {
        return Ok((found.pop().unwrap(), None));
    }
    let by_name = format!("expected exactly one definition at {:?}, found {}", loc, found.len());
    let via = match via {
        Some(v) if found.is_empty() => v,
        _ => return Err(by_name),
    };
    let table_name = loc_fn_name(loc).ok_or_else(|| by_name.clone())?;
    let (outer, _) = resolve(items, &via.outer, via.outer_via.as_deref()).map_err(|e| format!("{}; its call site: {}", by_name, e))?;
    let names = callees(&outer.body, via.method, via.nargs);
    let actual = match names.get(via.nth) {
        Some(n) => n.clone(),
        None => return Err(format!("{}; and the function at {:?} has no {} call number {} with {} arguments", by_name, via.outer, if via.method { "method" } else { "path" }, via.nth, via.nargs)),
    };
    let leaked: &'static str = Box::leak(actual.clone().into_boxed_str());
    let mut found = vec![];
    find_in_items(items, &loc_with_fn(loc, leaked), &mut found)?;
    if found.len() != 1 {
        return Err(format!("{}; the call site in {:?} names `{}`, of which {} definitions were found", by_name, via.outer, actual, found.len()));
    }
    Ok((found.pop().unwrap(), Some((actual, table_name.to_string()))))
}

/// `(<matcher>) => { <body> }` (single rule): the body with `$name` replaced per `subst`.
fn macro_body(ts: TokenStream, subst: &[(&str, &str)]) -> Option<TokenStream> {
    let tts: Vec<TokenTree> = ts.into_iter().collect();
    let body = tts.iter().rev().find_map(|t| match t {
        TokenTree::Group(g) if g.delimiter() == Delimiter::Brace => Some(g.stream()),
        _ => None,
    })?;
    Some(substitute(body, subst))
}

fn substitute(ts: TokenStream, subst: &[(&str, &str)]) -> TokenStream {
    let mut out: Vec<TokenTree> = vec![];
    let mut it = ts.into_iter().peekable();
    while let Some(t) = it.next() {
        match &t {
            TokenTree::Punct(p) if p.as_char() == '$' => {
                if let Some(TokenTree::Ident(id)) = it.peek() {
                    let name = id.to_string();
                    if let Some((_, to)) = subst.iter().find(|(f, _)| *f == name) {
                        let span = id.span();
                        it.next();
                        let mut r = proc_macro2::Ident::new(to, span);
                        r.set_span(span);
                        out.push(TokenTree::Ident(r));
                        continue;
                    }
                }
                out.push(t);
            }
            TokenTree::Group(g) => {
                let mut ng = proc_macro2::Group::new(g.delimiter(), substitute(g.stream(), subst));
                ng.set_span(g.span());
                out.push(TokenTree::Group(ng));
            }
            _ => out.push(t),
        }
    }
    out.into_iter().collect()
}

/// `const NAME = <integer literal>;` entries of `bitflags! { ... struct <ty>: uN { ... } }`
fn bitflag_consts(items: &[Item], ty: &str) -> Vec<(String, String)> {
    let mut out = vec![];
    for it in items {
        if let Item::Macro(m) = it {
            if last_ident(&m.mac.path) != "bitflags" {
                continue;
            }
            let tts: Vec<TokenTree> = m.mac.tokens.clone().into_iter().collect();
            let mut is_ty = false;
            for (i, t) in tts.iter().enumerate() {
                if let TokenTree::Ident(id) = t {
                    if id == "struct" {
                        is_ty = matches!(tts.get(i + 1), Some(TokenTree::Ident(n)) if n == ty);
                    }
                }
                if let (true, TokenTree::Group(g)) = (is_ty, t) {
                    if g.delimiter() != Delimiter::Brace {
                        continue;
                    }
                    let inner: Vec<TokenTree> = g.stream().into_iter().collect();
                    for j in 0..inner.len() {
                        if let (Some(TokenTree::Ident(c)), Some(TokenTree::Ident(n)), Some(TokenTree::Punct(eq)), Some(TokenTree::Literal(l)), Some(TokenTree::Punct(semi))) =
                            (inner.get(j), inner.get(j + 1), inner.get(j + 2), inner.get(j + 3), inner.get(j + 4))
                        {
                            if c == "const" && eq.as_char() == '=' && semi.as_char() == ';' {
                                if let Ok(li) = syn::parse_str::<syn::LitInt>(&l.to_string()) {
                                    if let Ok(v) = li.base10_parse::<u128>() {
                                        out.push((n.to_string(), v.to_string()));
                                    }
                                }
                            }
                        }
                    }
                }
            }
        }
    }
    out
}

fn json_str(s: &str) -> String {
    let mut o = String::from("\"");
    for ch in s.chars() {
        match ch {
            '"' => o.push_str("\\\""),
            '\\' => o.push_str("\\\\"),
            '\n' => o.push_str("\\n"),
            c if (c as u32) < 0x20 => {
                let _ = write!(o, "\\u{:04x}", c as u32);
            }
            c => o.push(c),
        }
    }
    o.push('"');
    o
}

fn main() {
    let args: Vec<String> = std::env::args().collect();
    if args.len() != 3 {
        eprintln!("usage: rs2v <repo> <outdir>");
        std::process::exit(2);
    }
    let (repo, outdir) = (&args[1], &args[2]);
    let table = specs::table();
    let mut files: BTreeMap<&str, Result<syn::File, String>> = BTreeMap::new();
    let mut sigs: BTreeMap<String, trans::Sig> = BTreeMap::new();
    let mut modules: Vec<&str> = vec![];
    let mut defs: BTreeMap<&str, Vec<String>> = BTreeMap::new();
    let mut status: Vec<String> = vec![];
    let mut failed = 0;
    let mut table = table;
    // `Self::NAME` constants of bitflags! types, read from the source
    for spec in table.iter_mut() {
        if let Some(bf) = spec.bitflags {
            let path = format!("{}/{}", repo, spec.file);
            if let Ok(file) = std::fs::read_to_string(&path).map_err(|e| e.to_string()).and_then(|s| syn::parse_file(&s).map_err(|e| e.to_string())) {
                for (n, v) in bitflag_consts(&file.items, bf) {
                    spec.consts.push((format!("Self :: {}", n), v, specs::Ty::Int(32)));
                }
            }
        }
    }
    let table = table;
    // private functions found through their call sites under another name: (file, actual name, table name);
    // calls of the actual name are read as calls of the table name in every kernel of that file
    let mut fn_renames: Vec<(&str, String, String)> = vec![];
    for spec in &table {
        if spec.via.is_none() {
            continue;
        }
        let path = format!("{}/{}", repo, spec.file);
        if let Ok(file) = std::fs::read_to_string(&path).map_err(|e| e.to_string()).and_then(|s| syn::parse_file(&s).map_err(|e| e.to_string())) {
            if let Ok((_, Some((actual, tname)))) = resolve(&file.items, &spec.loc, spec.via.as_ref()) {
                if !fn_renames.iter().any(|(f, a, _)| *f == spec.file && *a == actual) {
                    fn_renames.push((spec.file, actual, tname));
                }
            }
        }
    }
    for spec in &table {
        if !modules.contains(&spec.module) {
            modules.push(spec.module);
        }
        let parsed = files.entry(spec.file).or_insert_with(|| {
            let path = format!("{}/{}", repo, spec.file);
            std::fs::read_to_string(&path).map_err(|e| format!("cannot read {}: {}", path, e)).and_then(|src| syn::parse_file(&src).map_err(|e| format!("{} does not parse: {}", spec.file, e)))
        });
        let res: Result<(trans::Out, usize), String> = (|| {
            let file = parsed.as_ref().map_err(|e| e.clone())?;
            if let Some((traits, macs)) = &spec.inventory {
                // the inventory of the file: (trait, implementing type) and (macro, arguments) in source order
                let mut rows: Vec<String> = vec![];
                fn walk(items: &[Item], traits: &[&str], macs: &[&str], structs: &[&str], rows: &mut Vec<String>) {
                    for it in items {
                        match it {
                            Item::Struct(st) if structs.contains(&st.ident.to_string().as_str()) => {
                                for a in &st.attrs {
                                    if a.path().is_ident("derive") {
                                        if let syn::Meta::List(l) = &a.meta {
                                            rows.push(format!("inv {} {}", json_str(&format!("derive {}", st.ident)), json_str(&l.tokens.to_string())));
                                        }
                                    }
                                }
                            }
                            Item::Mod(m) => {
                                if let (false, Some((_, l))) = (is_cfg_test(&m.attrs), &m.content) {
                                    walk(l, traits, macs, structs, rows);
                                }
                            }
                            Item::Impl(i) => {
                                if let Some((_, p, _)) = &i.trait_ {
                                    let tn = last_ident(p);
                                    if traits.contains(&tn.as_str()) {
                                        rows.push(format!("inv {} {}", json_str(&tn), json_str(&quote::ToTokens::to_token_stream(&i.self_ty).to_string())));
                                    }
                                }
                            }
                            Item::Macro(m) => {
                                let mn = last_ident(&m.mac.path);
                                if macs.contains(&mn.as_str()) {
                                    rows.push(format!("inv {} {}", json_str(&mn), json_str(&m.mac.tokens.to_string())));
                                }
                            }
                            _ => {}
                        }
                    }
                }
                walk(&file.items, traits, macs, &spec.inventory_derives, &mut rows);
                let def = format!("Definition {} : list (String.string * String.string) :=\n[{}].", spec.name, rows.join(";\n "));
                let sig = trans::Sig { module: spec.module.to_string(), coq: spec.name.to_string(), monadic: false, extra: vec![], nparams: 0, ret: specs::Ty::Unknown };
                return Ok((trans::Out { def, sig, aux: vec![] }, 0));
            }
            let (f, _) = resolve_f(&file.items, &spec.loc, spec.via.as_ref(), spec.attr_filter)?;
            let f = &f;
            let renames: Vec<(String, String)> = fn_renames.iter().filter(|(fl, _, _)| *fl == spec.file).map(|(_, a, t)| (a.clone(), t.clone())).collect();
            let info = trans::Info { items: &file.items, fn_renames: &renames, outer: f.outer.as_ref() };
            let out = trans::translate(spec, &f.sig, &f.body, &sigs, &info).map_err(|e| match e {
                trans::TErr::Unsupported(s) => format!("unsupported construct: {}", s),
                trans::TErr::NeedMonad => "internal: no translation mode applies".to_string(),
            })?;
            Ok((out, f.line))
        })();
        let entry = defs.entry(spec.module).or_default();
        match res {
            Ok((out, line)) => {
                for a in &out.aux {
                    entry.push(format!("{}\n", a));
                }
                entry.push(format!("(* {}:{}  fn {} *)\n{}\n", spec.file, line, spec.rust, out.def));
                status.push(format!(
                    "{{\"module\": {}, \"kernel\": {}, \"file\": {}, \"line\": {}, \"ok\": true, \"monadic\": {}}}",
                    json_str(spec.module), json_str(spec.name), json_str(spec.file), line, out.sig.monadic
                ));
                sigs.insert(format!("{}::{}", spec.group, spec.rust), out.sig);
            }
            Err(e) => {
                failed += 1;
                eprintln!("rs2v: FAILED {}.{} ({}): {}", spec.module, spec.name, spec.file, e);
                entry.push(format!("(* FAILED: kernel {} of {} could not be regenerated: {} *)\n", spec.name, spec.file, e.replace("*)", "* )").replace("(*", "( *")));
                status.push(format!(
                    "{{\"module\": {}, \"kernel\": {}, \"file\": {}, \"ok\": false, \"error\": {}}}",
                    json_str(spec.module), json_str(spec.name), json_str(spec.file), json_str(&e)
                ));
            }
        }
    }
    if let Err(e) = std::fs::create_dir_all(outdir) {
        eprintln!("rs2v: cannot create {}: {}", outdir, e);
        std::process::exit(2);
    }
    let write_if_changed = |path: String, txt: String| {
        if std::fs::read_to_string(&path).map(|old| old == txt).unwrap_or(false) {
            return;
        }
        if let Err(e) = std::fs::write(&path, txt) {
            eprintln!("rs2v: cannot write {}: {}", path, e);
            std::process::exit(2);
        }
    };
    for (i, m) in modules.iter().enumerate() {
        let mut txt = String::new();
        let _ = writeln!(txt, "(* GENERATED by rs2v from the current Rust source - do not edit, do not commit.");
        let _ = writeln!(txt, "   One definition per kernel; see docs/RS2V.md and the equality lemmas in coq/GenEq/{}.v *)", m);
        let _ = writeln!(txt, "From VM Require Import Prelude.MachInt Prelude.Outcome Prelude.Rs2v.");
        // a module may call kernels of the modules generated before it
        for prev in &modules[..i] {
            if specs::module_deps(m).contains(prev) {
                let _ = writeln!(txt, "From VM Require Gen.{}.", prev);
            }
        }
        let _ = writeln!(txt);
        for d in &defs[m] {
            let _ = writeln!(txt, "{}", d);
        }
        write_if_changed(format!("{}/{}.v", outdir, m), txt);
    }
    write_if_changed(format!("{}/status.json", outdir), format!("[\n{}\n]\n", status.join(",\n")));
    // panic-site inventory of the whole non-test source (docs/RS2V.md "Panic sites")
    write_if_changed(format!("{}/panic_sites.json", outdir), panics::inventory(repo, &table));
    // impl inventory: inherent methods, trait impl blocks, crate traits (docs/RS2V.md "Impl inventory")
    write_if_changed(format!("{}/impl_inventory.json", outdir), impls::inventory(repo));
    std::process::exit(if failed > 0 { 3 } else { 0 });
}
