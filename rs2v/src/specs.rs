//! The fixed kernel table: which functions of the crate are regenerated, where they live,
//! and what each kernel treats as OPAQUE (a `self` field / accessor, an I/O result, a call into
//! another object).  Opaque things become parameters of the generated definition; nothing
//! else may escape the translated subset (the kernel then fails loudly).
use quote::ToTokens;

#[derive(Debug, Clone, PartialEq)]
pub enum Ty {
    Int(u32),
    NonZero,
    Bool,
    Addr,
    Opt(Box<Ty>),
    Res(Box<Ty>),
    Tup(Vec<Ty>),
    Unit,
    Unknown,
}

#[derive(Debug, Clone)]
pub enum Loc {
    /// free function (top level or inside a non-test module)
    Free(&'static str),
    /// provided method of a trait
    Trait(&'static str, &'static str),
    /// method in `impl [Trait for] Type`
    Impl { ty: &'static str, tr: Option<&'static str>, f: &'static str },
    /// the location is inside the body of `macro_rules! mac`, instantiated textually with `subst`
    InMacro { mac: &'static str, subst: Vec<(&'static str, &'static str)>, inner: Box<Loc> },
}

#[derive(Debug, Clone)]
pub struct Extra {
    pub pat: &'static str,    // token string of the opaque expression (as printed by proc-macro2)
    pub param: &'static str,  // name of the parameter standing for it
    pub coq_ty: &'static str,
    pub ty: Ty,
}
#[derive(Debug, Clone)]
pub struct OpaqueFn {
    pub method: &'static str,
    pub param: &'static str,
    pub coq_ty: &'static str,
    pub ret: Ty,
}

#[derive(Debug, Clone)]
pub struct Spec {
    pub module: &'static str, // coq/Gen/<module>.v
    pub group: &'static str,  // kernels of one group can call each other by Rust name
    pub name: &'static str,   // Coq name of the definition
    pub rust: &'static str,   // Rust name under which other kernels call it
    pub file: &'static str,
    pub loc: Loc,
    pub self_ty: Ty,
    pub extra: Vec<Extra>,
    pub fns: Vec<OpaqueFn>,
    pub skip: Vec<&'static str>,
    pub drop_params: Vec<&'static str>,
    pub effects: Vec<&'static str>,
    pub locals: Option<Vec<&'static str>>,
    pub fields: Vec<&'static str>,
    pub consts: Vec<(String, String, Ty)>,
    /// `Self::NAME` constants are read from `bitflags! { struct <this> ... const NAME = <literal>; }`
    pub bitflags: Option<&'static str>,
    /// uN::to_le/to_be/from_le/from_be become `cv <kind> <bytes> x` (parameter cv)
    pub endian: bool,
    pub newtypes: Vec<&'static str>,
    pub err_enums: Vec<&'static str>,
}

impl Spec {
    /// extra parameters of the generated definition (name, Coq type), in order, without repeats
    pub fn extra_params(&self) -> Vec<(String, String)> {
        let mut out: Vec<(String, String)> = vec![];
        for (p, t) in self.extra.iter().map(|x| (x.param, x.coq_ty)).chain(self.fns.iter().map(|x| (x.param, x.coq_ty))) {
            if !out.iter().any(|(q, _)| q == p) {
                out.push((p.to_string(), t.to_string()));
            }
        }
        out
    }
    pub fn ty_of(&self, t: &syn::Type) -> Ty {
        use syn::Type;
        match t {
            Type::Reference(r) => self.ty_of(&r.elem),
            Type::Paren(p) => self.ty_of(&p.elem),
            Type::Group(g) => self.ty_of(&g.elem),
            Type::Tuple(t) => {
                if t.elems.is_empty() {
                    Ty::Unit
                } else {
                    Ty::Tup(t.elems.iter().map(|e| self.ty_of(e)).collect())
                }
            }
            Type::Path(p) => {
                let s = p.to_token_stream().to_string();
                match s.as_str() {
                    "u64" | "usize" | "GuestUsize" | "Self :: V" => return Ty::Int(64),
                    "u32" => return Ty::Int(32),
                    "u16" => return Ty::Int(16),
                    "u8" => return Ty::Int(8),
                    "bool" => return Ty::Bool,
                    "NonZeroUsize" => return Ty::NonZero,
                    "Self" => return self.self_ty.clone(),
                    _ => {}
                }
                let last = p.path.segments.last().unwrap();
                let name = last.ident.to_string();
                if self.newtypes.iter().any(|n| *n == name) {
                    return Ty::Addr;
                }
                let arg0 = || -> Option<Ty> {
                    if let syn::PathArguments::AngleBracketed(a) = &last.arguments {
                        for x in &a.args {
                            if let syn::GenericArgument::Type(t) = x {
                                return Some(self.ty_of(t));
                            }
                        }
                    }
                    None
                };
                match name.as_str() {
                    "Option" => Ty::Opt(Box::new(arg0().unwrap_or(Ty::Unknown))),
                    "Result" => Ty::Res(Box::new(arg0().unwrap_or(Ty::Unknown))),
                    _ => Ty::Unknown,
                }
            }
            _ => Ty::Unknown,
        }
    }
}

fn base(module: &'static str, group: &'static str, file: &'static str, name: &'static str, rust: &'static str, loc: Loc) -> Spec {
    Spec {
        module, group, name, rust, file, loc,
        self_ty: Ty::Unknown,
        extra: vec![], fns: vec![], skip: vec![], drop_params: vec![], effects: vec![], locals: None, fields: vec![],
        consts: vec![], bitflags: None, endian: false,
        newtypes: vec!["GuestAddress", "MemoryRegionAddress", "AddrT"],
        err_enums: vec!["Error", "MmapRegionError"],
    }
}

fn ex(pat: &'static str, param: &'static str, ty: Ty) -> Extra {
    let coq_ty = match ty {
        Ty::Bool => "bool",
        _ => "N",
    };
    Extra { pat, param, coq_ty, ty }
}

pub fn table() -> Vec<Spec> {
    let mut t = vec![];
    // ------------------------------------------------------------------ src/address.rs
    // provided methods of `trait Address` (Self = the address newtype, Self::V = u64)
    let addr_consts = vec![("Self :: one ()".to_string(), "1".to_string(), Ty::Int(64)), ("Self :: zero ()".to_string(), "0".to_string(), Ty::Int(64))];
    let in_macro = |f: &'static str, tr: Option<&'static str>| Loc::InMacro {
        mac: "impl_address_ops",
        subst: vec![("T", "AddrT"), ("V", "u64")],
        inner: Box::new(Loc::Impl { ty: "AddrT", tr, f }),
    };
    // the macro-generated impl first: the provided methods call it
    for f in ["checked_offset_from", "checked_add", "overflowing_add", "unchecked_add", "checked_sub", "overflowing_sub", "unchecked_sub"] {
        let mut s = base("Address", "Address", "src/address.rs", f, f, in_macro(f, Some("Address")));
        s.self_ty = Ty::Addr;
        s.extra = vec![ex("self . 0", "a", Ty::Int(64))];
        t.push(s);
    }
    for (f, tr) in [("bitand", "BitAnd"), ("bitor", "BitOr")] {
        let mut s = base("Address", "Address", "src/address.rs", f, f, in_macro(f, Some(tr)));
        s.self_ty = Ty::Addr;
        s.extra = vec![ex("self . 0", "a", Ty::Int(64))];
        t.push(s);
    }
    for f in ["mask", "unchecked_offset_from", "checked_align_up", "unchecked_align_up"] {
        let mut s = base("Address", "Address", "src/address.rs", f, f, Loc::Trait("Address", f));
        s.self_ty = Ty::Addr;
        s.consts = addr_consts.clone();
        s.extra = vec![ex("self . raw_value ()", "a", Ty::Int(64))];
        t.push(s);
    }
    // ------------------------------------------------------------------ src/volatile_memory.rs
    t.push(base("Volatile", "Volatile", "src/volatile_memory.rs", "compute_offset", "compute_offset", Loc::Free("compute_offset")));
    {
        let mut s = base("Volatile", "Volatile", "src/volatile_memory.rs", "compute_end_offset", "compute_end_offset",
                         Loc::Trait("VolatileMemory", "compute_end_offset"));
        s.extra = vec![ex("self . len ()", "len", Ty::Int(64))];
        t.push(s);
    }
    t.push(base("Volatile", "Volatile", "src/volatile_memory.rs", "alignment", "alignment", Loc::Free("alignment")));
    {
        let mut s = base("Volatile", "Volatile", "src/volatile_memory.rs", "check_alignment", "check_alignment",
                         Loc::Impl { ty: "VolatileSlice", tr: None, f: "check_alignment" });
        s.extra = vec![ex("self . addr as usize", "addr", Ty::Int(64))];
        t.push(s);
    }
    // ------------------------------------------------------------------ src/guest_memory.rs
    let gfile = "src/guest_memory.rs";
    let start = || ex("self . start_addr ()", "start", Ty::Addr);
    let len = || ex("self . len ()", "len", Ty::Int(64));
    for (name, f, extra) in [
        ("region_address_in_range", "address_in_range", vec![len()]),
        ("region_check_address", "check_address", vec![len()]),
        ("region_checked_offset", "checked_offset", vec![len()]),
        ("region_to_region_addr", "to_region_addr", vec![start(), len()]),
        ("region_last_addr", "last_addr", vec![start(), len()]),
    ] {
        let mut s = base("Guest", "GuestRegion", gfile, name, f, Loc::Trait("GuestMemoryRegion", f));
        s.extra = extra;
        t.push(s);
    }
    {
        // GuestMemory::checked_offset: check_address of the collection (find_region) is opaque
        let mut s = base("Guest", "GuestMemory", gfile, "mem_checked_offset", "checked_offset", Loc::Trait("GuestMemory", "checked_offset"));
        s.fns = vec![OpaqueFn { method: "check_address", param: "check_address", coq_ty: "N -> option N", ret: Ty::Opt(Box::new(Ty::Addr)) }];
        t.push(s);
    }
    // ------------------------------------------------------------------ src/bitmap/backend/slice.rs
    let sfile = "src/bitmap/backend/slice.rs";
    let bo = || ex("self . base_offset", "base_offset", Ty::Int(64));
    {
        let mut s = base("Slice", "Slice", sfile, "mark_dirty", "mark_dirty", Loc::Impl { ty: "BaseSlice", tr: Some("Bitmap"), f: "mark_dirty" });
        s.extra = vec![bo()];
        s.effects = vec!["mark_dirty"];
        t.push(s);
        let mut s = base("Slice", "Slice", sfile, "dirty_at", "dirty_at", Loc::Impl { ty: "BaseSlice", tr: Some("Bitmap"), f: "dirty_at" });
        s.extra = vec![bo()];
        s.fns = vec![OpaqueFn { method: "dirty_at", param: "inner_dirty_at", coq_ty: "N -> R", ret: Ty::Unknown }];
        t.push(s);
        let mut s = base("Slice", "Slice", sfile, "slice_at", "slice_at", Loc::Impl { ty: "BaseSlice", tr: Some("Bitmap"), f: "slice_at" });
        s.extra = vec![bo()];
        s.fields = vec!["base_offset"];
        t.push(s);
    }
    // ------------------------------------------------------------------ src/bitmap/backend/atomic_bitmap.rs
    let bfile = "src/bitmap/backend/atomic_bitmap.rs";
    let bm = |name: &'static str, f: &'static str| base("AtomicBitmap", "AtomicBitmap", bfile, name, f, Loc::Impl { ty: "AtomicBitmap", tr: None, f });
    let size = || ex("self . size", "size", Ty::Int(64));
    let psz = || ex("self . page_size", "page_size", Ty::NonZero);
    let load = || OpaqueFn { method: "load", param: "map_load", coq_ty: "N -> N", ret: Ty::Int(64) };
    let bits = ("u64 :: BITS".to_string(), "64".to_string(), Ty::Int(32));
    {
        let mut s = bm("new_sizes", "new");
        s.locals = Some(vec!["num_pages", "map_size"]);
        s.consts = vec![bits.clone()];
        t.push(s);
        let mut s = bm("is_bit_set", "is_bit_set");
        s.extra = vec![size()];
        s.fns = vec![load()];
        t.push(s);
        let mut s = bm("is_addr_set", "is_addr_set");
        s.extra = vec![size(), psz()];
        s.fns = vec![load()];
        t.push(s);
        let mut s = bm("range_bits", "set_reset_addr_range");
        s.extra = vec![psz()];
        s.locals = Some(vec!["first_bit", "last_bit"]);
        t.push(s);
        for f in ["set_bit", "reset_bit"] {
            let mut s = bm(f, f);
            s.extra = vec![size()];
            s.effects = vec!["fetch_or", "fetch_and"];
            t.push(s);
        }
    }
    // ------------------------------------------------------------------ src/mmap/mod.rs
    {
        let mut s = base("Mmap", "Mmap", "src/mmap/mod.rs", "check_file_offset", "check_file_offset", Loc::Free("check_file_offset"));
        s.drop_params = vec!["file_offset"];
        s.skip = vec!["file_offset . file ()", "file . rewind () . map_err (MmapRegionError :: SeekStart) ?"];
        s.extra = vec![
            ex("file_offset . start ()", "start", Ty::Int(64)),
            ex("file . seek (SeekFrom :: End (0)) . map_err (MmapRegionError :: SeekEnd) ?", "filesize", Ty::Int(64)),
        ];
        t.push(s);
        let mut s = base("Mmap", "Mmap", "src/mmap/mod.rs", "guest_region_new", "new", Loc::Impl { ty: "GuestRegionMmap", tr: None, f: "new" });
        s.drop_params = vec!["mapping"];
        s.extra = vec![ex("mapping . size ()", "size", Ty::Int(64))];
        s.fields = vec!["guest_base"];
        t.push(s);
    }
    // ------------------------------------------------------------------ src/mmap/xen.rs
    let xfile = "src/mmap/xen.rs";
    for f in ["is_unix", "is_foreign", "is_grant", "mmap_in_advance", "is_valid"] {
        let mut s = base("Xen", "XenFlags", xfile, f, f, Loc::Impl { ty: "MmapXenFlags", tr: None, f });
        s.extra = vec![ex("self . bits ()", "bits", Ty::Int(32)), ex("self", "bits", Ty::Int(32))];
        s.bitflags = Some("MmapXenFlags");
        t.push(s);
    }
    {
        let ps = || ex("page_size () as usize", "page_size", Ty::Int(64));
        let mut s = base("Xen", "Xen", xfile, "pages", "pages", Loc::Free("pages"));
        s.extra = vec![ps()];
        t.push(s);
        let mut s = base("Xen", "Xen", xfile, "new_with_window", "new_with", Loc::Impl { ty: "MmapXenSlice", tr: None, f: "new_with" });
        s.extra = vec![ps(), ex("grant . guest_base . 0", "guest_base", Ty::Int(64))];
        s.drop_params = vec!["grant", "prot"];
        s.locals = Some(vec!["page_base", "offset", "size", "addr"]);
        t.push(s);
    }
    // ------------------------------------------------------------------ src/endian.rs
    for (old, new, to_new, from_new, bits) in [
        ("u16", "Le16", "to_le", "from_le", 16), ("u32", "Le32", "to_le", "from_le", 32),
        ("u64", "Le64", "to_le", "from_le", 64), ("usize", "LeSize", "to_le", "from_le", 64),
        ("u16", "Be16", "to_be", "from_be", 16), ("u32", "Be32", "to_be", "from_be", 32),
        ("u64", "Be64", "to_be", "from_be", 64), ("usize", "BeSize", "to_be", "from_be", 64),
    ] {
        let subst = vec![("old_type", old), ("new_type", new), ("to_new", to_new), ("from_new", from_new)];
        let cv = || OpaqueFn { method: "\u{0}cv", param: "cv", coq_ty: "econv -> N -> N -> N", ret: Ty::Unknown };
        let mk = |suffix: &str, inner: Loc| {
            let name: &'static str = Box::leak(format!("{}_{}", new, suffix).into_boxed_str());
            let mut s = base("Endian", "Endian", "src/endian.rs", name, name, Loc::InMacro { mac: "endian_type", subst: subst.clone(), inner: Box::new(inner) });
            s.endian = true;
            s.fns = vec![cv()];
            s.newtypes = vec![new];
            s
        };
        let mut s = mk("to_native", Loc::Impl { ty: new, tr: None, f: "to_native" });
        s.extra = vec![ex("self . 0", "stored", Ty::Int(bits))];
        t.push(s);
        let mut s = mk("eq_old", Loc::Impl { ty: new, tr: Some("PartialEq"), f: "eq" });
        s.extra = vec![ex("self . 0", "stored", Ty::Int(bits))];
        t.push(s);
        let mut s = mk("old_eq", Loc::Impl { ty: old, tr: Some("PartialEq"), f: "eq" });
        s.extra = vec![ex("* self", "self_v", Ty::Int(bits)), ex("other . 0", "other_stored", Ty::Int(bits))];
        s.drop_params = vec!["other"];
        t.push(s);
        let mut s = mk("from", Loc::Impl { ty: new, tr: Some("From"), f: "from" });
        s.extra = vec![];
        t.push(s);
    }
    t
}

/// Gen modules whose kernels the given module may call
pub fn module_deps(m: &str) -> Vec<&'static str> {
    match m {
        "Guest" => vec!["Address"],
        _ => vec![],
    }
}
