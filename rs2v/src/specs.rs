//! The fixed kernel table: which functions of the crate are regenerated, where they live,
//! and what each kernel treats as OPAQUE (a `self` field / accessor, an I/O result, a call into
//! another object).  Opaque things become parameters of the generated definition; nothing
//! else may escape the translated subset (the kernel then fails loudly).
use quote::ToTokens;

#[derive(Debug, Clone, PartialEq)]
pub enum Ty {
    Int(u32),
    NonZero,
    Bool,
    Addr,
    Opt(Box<Ty>),
    Res(Box<Ty>),
    Tup(Vec<Ty>),
    Unit,
    Unknown,
}

#[derive(Debug, Clone)]
pub enum Loc {
    /// free function (top level or inside a non-test module)
    Free(&'static str),
    /// provided method of a trait
    Trait(&'static str, &'static str),
    /// method in `impl [Trait for] Type`
    Impl { ty: &'static str, tr: Option<&'static str>, f: &'static str },
    /// the location is inside the body of `macro_rules! mac`, instantiated textually with `subst`
    InMacro { mac: &'static str, subst: Vec<(&'static str, &'static str)>, inner: Box<Loc> },
}

#[derive(Debug, Clone)]
pub struct Extra {
    pub pat: &'static str,    // token string of the opaque expression (as printed by proc-macro2)
    pub param: &'static str,  // name of the parameter standing for it
    pub coq_ty: &'static str,
    pub ty: Ty,
}
#[derive(Debug, Clone)]
pub struct OpaqueFn {
    pub method: &'static str,
    pub param: &'static str,
    pub coq_ty: &'static str,
    pub ret: Ty,
}

#[derive(Debug, Clone)]
pub struct Spec {
    pub module: &'static str, // coq/Gen/<module>.v
    pub group: &'static str,  // kernels of one group can call each other by Rust name
    pub name: &'static str,   // Coq name of the definition
    pub rust: &'static str,   // Rust name under which other kernels call it
    pub file: &'static str,
    pub loc: Loc,
    pub self_ty: Ty,
    pub extra: Vec<Extra>,
    pub fns: Vec<OpaqueFn>,
    pub skip: Vec<&'static str>,
    pub drop_params: Vec<&'static str>,
    pub effects: Vec<&'static str>,
    pub locals: Option<Vec<&'static str>>,
    pub fields: Vec<&'static str>,
    pub consts: Vec<(&'static str, &'static str, Ty)>,
    pub newtypes: Vec<&'static str>,
    pub err_enums: Vec<&'static str>,
}

impl Spec {
    pub fn ty_of(&self, t: &syn::Type) -> Ty {
        use syn::Type;
        match t {
            Type::Reference(r) => self.ty_of(&r.elem),
            Type::Paren(p) => self.ty_of(&p.elem),
            Type::Group(g) => self.ty_of(&g.elem),
            Type::Tuple(t) => {
                if t.elems.is_empty() {
                    Ty::Unit
                } else {
                    Ty::Tup(t.elems.iter().map(|e| self.ty_of(e)).collect())
                }
            }
            Type::Path(p) => {
                let s = p.to_token_stream().to_string();
                match s.as_str() {
                    "u64" | "usize" | "GuestUsize" | "Self :: V" => return Ty::Int(64),
                    "u32" => return Ty::Int(32),
                    "u16" => return Ty::Int(16),
                    "u8" => return Ty::Int(8),
                    "bool" => return Ty::Bool,
                    "NonZeroUsize" => return Ty::NonZero,
                    "Self" => return self.self_ty.clone(),
                    _ => {}
                }
                let last = p.path.segments.last().unwrap();
                let name = last.ident.to_string();
                if self.newtypes.iter().any(|n| *n == name) {
                    return Ty::Addr;
                }
                let arg0 = || -> Option<Ty> {
                    if let syn::PathArguments::AngleBracketed(a) = &last.arguments {
                        for x in &a.args {
                            if let syn::GenericArgument::Type(t) = x {
                                return Some(self.ty_of(t));
                            }
                        }
                    }
                    None
                };
                match name.as_str() {
                    "Option" => Ty::Opt(Box::new(arg0().unwrap_or(Ty::Unknown))),
                    "Result" => Ty::Res(Box::new(arg0().unwrap_or(Ty::Unknown))),
                    _ => Ty::Unknown,
                }
            }
            _ => Ty::Unknown,
        }
    }
}

fn base(module: &'static str, group: &'static str, file: &'static str, name: &'static str, rust: &'static str, loc: Loc) -> Spec {
    Spec {
        module, group, name, rust, file, loc,
        self_ty: Ty::Unknown,
        extra: vec![], fns: vec![], skip: vec![], drop_params: vec![], effects: vec![], locals: None, fields: vec![],
        consts: vec![],
        newtypes: vec!["GuestAddress", "MemoryRegionAddress", "AddrT"],
        err_enums: vec!["Error", "MmapRegionError"],
    }
}

fn ex(pat: &'static str, param: &'static str, ty: Ty) -> Extra {
    let coq_ty = match ty {
        Ty::Bool => "bool",
        _ => "N",
    };
    Extra { pat, param, coq_ty, ty }
}

pub fn table() -> Vec<Spec> {
    let mut t = vec![];
    // ------------------------------------------------------------------ src/address.rs
    // provided methods of `trait Address` (Self = the address newtype, Self::V = u64)
    let addr_consts = vec![("Self :: one ()", "1", Ty::Int(64)), ("Self :: zero ()", "0", Ty::Int(64))];
    let in_macro = |f: &'static str, tr: Option<&'static str>| Loc::InMacro {
        mac: "impl_address_ops",
        subst: vec![("T", "AddrT"), ("V", "u64")],
        inner: Box::new(Loc::Impl { ty: "AddrT", tr, f }),
    };
    // the macro-generated impl first: the provided methods call it
    for f in ["checked_offset_from", "checked_add", "overflowing_add", "unchecked_add", "checked_sub", "overflowing_sub", "unchecked_sub"] {
        let mut s = base("Address", "Address", "src/address.rs", f, f, in_macro(f, Some("Address")));
        s.self_ty = Ty::Addr;
        s.extra = vec![ex("self . 0", "a", Ty::Int(64))];
        t.push(s);
    }
    for (f, tr) in [("bitand", "BitAnd"), ("bitor", "BitOr")] {
        let mut s = base("Address", "Address", "src/address.rs", f, f, in_macro(f, Some(tr)));
        s.self_ty = Ty::Addr;
        s.extra = vec![ex("self . 0", "a", Ty::Int(64))];
        t.push(s);
    }
    for f in ["mask", "unchecked_offset_from", "checked_align_up", "unchecked_align_up"] {
        let mut s = base("Address", "Address", "src/address.rs", f, f, Loc::Trait("Address", f));
        s.self_ty = Ty::Addr;
        s.consts = addr_consts.clone();
        s.extra = vec![ex("self . raw_value ()", "a", Ty::Int(64))];
        t.push(s);
    }
    // ------------------------------------------------------------------ src/volatile_memory.rs
    t.push(base("Volatile", "Volatile", "src/volatile_memory.rs", "compute_offset", "compute_offset", Loc::Free("compute_offset")));
    {
        let mut s = base("Volatile", "Volatile", "src/volatile_memory.rs", "compute_end_offset", "compute_end_offset",
                         Loc::Trait("VolatileMemory", "compute_end_offset"));
        s.extra = vec![ex("self . len ()", "len", Ty::Int(64))];
        t.push(s);
    }
    t.push(base("Volatile", "Volatile", "src/volatile_memory.rs", "alignment", "alignment", Loc::Free("alignment")));
    {
        let mut s = base("Volatile", "Volatile", "src/volatile_memory.rs", "check_alignment", "check_alignment",
                         Loc::Impl { ty: "VolatileSlice", tr: None, f: "check_alignment" });
        s.extra = vec![ex("self . addr as usize", "addr", Ty::Int(64))];
        t.push(s);
    }
    t
}

/// Gen modules whose kernels the given module may call
pub fn module_deps(m: &str) -> Vec<&'static str> {
    match m {
        "Guest" => vec!["Address"],
        _ => vec![],
    }
}
